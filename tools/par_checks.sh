#!/bin/bash
# development tooling: run all 20 checks against a scratch worktree of /repo with a patch applied, with its own
# facts cache and evidence directory, so that several patches can be analysed at once.
# usage: tools/par_checks.sh <label> <patch.diff> <outfile>
set -u
LABEL=$1; PATCH=$2; OUT=$3
WT=/tmp/pc_wt_$LABEL
rm -rf $WT /tmp/pc_cache_$LABEL /tmp/pc_ev_$LABEL
flock /tmp/pc_git.lock git -C /repo worktree add -q --detach $WT HEAD || exit 2
git -C $WT apply $PATCH || { echo "PATCH DOES NOT APPLY" > $OUT; flock /tmp/pc_git.lock git -C /repo worktree remove --force $WT; exit 2; }
export VERIF_REPO=$WT VERIF_CACHE=/tmp/pc_cache_$LABEL VERIF_EVIDENCE=/tmp/pc_ev_$LABEL
mkdir -p $VERIF_CACHE $VERIF_EVIDENCE
: > $OUT
cd /verif
for p in C01 C02 C03 C04 C05 C06 C07 C08 C09 C10 C11 C12 C13 C14 C15 C16 C17 C18 C19 C20; do
  ./check $p --tier quick > /tmp/pc_out_${LABEL}_$p.txt 2>&1; rc=$?
  if [ $rc -ne 0 ]; then echo "$p FIRES: $(grep 'rule=' /tmp/pc_out_${LABEL}_$p.txt | sed 's/^ *//' | cut -c1-260 | head -4 | tr '\n' '|')" >> $OUT; fi
  rm -f /tmp/pc_out_${LABEL}_$p.txt
done
echo "== done" >> $OUT
flock /tmp/pc_git.lock git -C /repo worktree remove --force $WT
rm -rf /tmp/pc_cache_$LABEL /tmp/pc_ev_$LABEL
