#!/bin/bash
# usage: tools/mut.sh "<props space separated>" <patchfile | -e 'perl -pi expr' file>...
# Applies a mutation to a scratch copy of /repo (outside /repo and /verif), runs the checks
# against it with VERIF_REPO, and removes the copy.  Development self-test only.
set -u
PROPS="$1"; shift
S=/tmp/vmut_$$
mkdir -p $S/repo/packages
rsync -a --exclude target /repo/packages/rooc $S/repo/packages/
if [ "$1" = "-e" ]; then
  expr="$2"; file="$3"
  perl -0pi -e "$expr" "$S/repo/packages/rooc/$file"
  (cd $S/repo/packages/rooc && diff -u /repo/packages/rooc/$file $file | head -30)
else
  (cd $S/repo && patch -p1 --quiet < "$1") || { echo "patch failed"; rm -rf $S; exit 2; }
fi
rc=0
for p in $PROPS; do
  VERIF_REPO=$S/repo /verif/check $p | sed "s#$S/repo/##g" | head -${MUT_LINES:-12}
  r=${PIPESTATUS[0]}; echo "[$p rc=$r]"
done
rm -rf $S /verif/.cache/facts/default/rooc.tag
