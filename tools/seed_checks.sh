#!/bin/bash
# usage: [TAG=first|now] tools/seed_checks.sh <seed-id> [props...]   (serial only: applies the change to /repo, runs the checks, undoes it)
set -u
ID=$1; shift
PROPS=${*:-C01 C02 C03 C04 C05 C06 C07 C08 C09 C10 C11 C12 C13 C14 C15 C16 C17 C18 C19 C20}
D=/verif/seeded/$ID
cd /verif
[ -z "$(git -C /repo status --short)" ] || { echo "/repo not clean"; exit 2; }
git -C /repo apply $D/patch.diff || { echo "PATCH DOES NOT APPLY TO /repo"; exit 2; }
OUT=$D/.checks_${TAG:-first}.txt
: > $OUT
for p in $PROPS; do
  ./check $p > /tmp/seed_out_$p.txt 2>&1; rc=$?
  if [ $rc -ne 0 ]; then echo "$p FIRES: $(grep 'rule=' /tmp/seed_out_$p.txt | sed 's/^ *//' | cut -c1-200 | head -3 | tr '\n' '|')" | tee -a $OUT; fi
done
git -C /repo checkout -- .
git -C /repo status --short | head -3
echo "== done $ID"
