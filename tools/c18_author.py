#!/usr/bin/env python3
"""One-off authoring helper for rules/c18_sites.json: applies the review decisions below (one
line of reason per group, naming the guard or invariant that justifies it) to the undischarged
sites of the pinned tree.  The generated table is what the check reads; this script is not run
by any check."""
import json, re, sys, os, collections
HERE = os.path.dirname(os.path.abspath(__file__))
sys.path.insert(0, os.path.join(HERE, "..", "rules"))
import facts, engine, c18

SHAPE = "tableau shape invariant: `a` has one row per constraint, each of `c.len()` columns, `b` and `in_basis` one entry per row (rows are padded by EqualityConstraint::ensure_size / Vec::resize in to_standard_form and into_tableau_two_phase); "
LM = "LinearModel invariant established by Linearizer::linearize (rows and objective are built by extract_coeffs over the variable list; the domain is filtered to exactly those variables, see C08 D-SORTED): "
COUNTER = "monotone counter incremented once per emitted item (each of which allocates): 2^32 / 2^63 increments are out of reach for inputs of bounded size"

RULES = [
    # (function regex, kind, text regex, reason)
    (r"Tableau::pivot$", "index", r".*", SHAPE + "t is a row index returned by find_t (enumerates `a`), h a column index returned by find_h (enumerates `c`), i/j range over 0..a.len() / 0..a[i].len()"),
    (r"Tableau::find_t$", "index", r".*", SHAPE + "h comes from find_h (a column of `c`), i enumerates the rows of `a`, min.0 is such an i, basis has one entry per row"),
    (r"Tableau::variables_values$", "index", r".*", SHAPE + "values has c.len() entries and every basic column j < c.len(); i enumerates in_basis"),
    (r"simplex_utils::divide_matrix_row_by$", "index", r".*", SHAPE + "`row` is IndependentVariable::row recorded while enumerating the constraints; i ranges over 0..matrix[row].len()"),
    (r"StandardLinearModel::into_tableau$", "index", r".*", SHAPE + "row/column are recorded from enumerate() over the constraints and 0..variables.len(); selected_vars has constraints.len() entries; index enumerates a row of `a` whose length is c.len()"),
    (r"StandardLinearModel::into_tableau$", "arith", r"independent_count \+= 1", "counts rows of one column: at most constraints.len()"),
    (r"StandardLinearModel::into_tableau_two_phase$", "index", r".*", SHAPE + "c and every row are resized to number_of_variables + number_of_artificial_variables before use, basis/b have one entry per row, i/row/r range over those lengths, col < number_of_variables, `after` of split_at_mut(k) is non-empty because k < a.len(); new_* are filled row by row in the same loop"),
    (r"StandardLinearModel::into_tableau_two_phase$", "arith", r".*", "sum of two vector lengths / a loop index below such a length: cannot overflow usize"),
    (r"StandardLinearModel::into_tableau_two_phase$", "vecop", r"a\.split_at_mut\(.*\)", "split point is a row index (row or r < a.len())"),
    (r"StandardLinearModel::into_tableau_two_phase$", "vecop", r"coeffs\.truncate", "Vec::truncate never panics"),
    (r"EqualityConstraint::coefficient$", "index", r".*", SHAPE + "callers pass a column index below variables.len() = row length"),
    (r"Tableau::solve_(avoiding|step_by_step)$", "arith", r".*", "iteration is bounded by `limit` (i64), stalls <= iteration, and the stall limit is a sum of two vector lengths cast to i64 plus 1"),
    (r"standardizer::to_standard_form$", "unwrap", r"domain\.get\(", LM + "every variable of the list has a domain entry"),
    (r"standardizer::to_standard_form$", "index", r"coeffs\[i\]", "coeffs is `vec![0.0; variables.len()]` and i enumerates `variables`"),
    (r"standardizer::to_standard_form$", "index", r".*", LM + "free_variables holds indices produced by enumerate() over `variables`; rows and objective have one coefficient per variable; `variables` only grows before the removal"),
    (r"standardizer::(to_standard_form|normalize_constraint)$", "arith", r".*", COUNTER),
    (r"milp_solver::solve_milp_lp_problem_with$", "unwrap", r"domain\.get\(", LM + "every variable of the list has a domain entry"),
    (r"milp_solver::solve_milp_lp_problem_with$", "index", r"objective\[i\]", "guarded at function entry: `if objective.len() != variables.len() { return Err }`, i enumerates variables", ["before:objective.len() != variables.len()"]),
    (r"simplex_solver::solve_real_lp_problem_micro_lp$", "index", r"obj\[i\]", LM + "the objective has one coefficient per variable, i enumerates the variables"),
    (r"simplex_solver::solve_real_lp_problem_micro_lp$", "index", r"optimal_solution\[", "microlp::Solution indexed by a Variable created by the very Problem that was solved"),
    (r"good_lp::solve_with_good_lp$", "index", r"created_variables\[index\]", "guarded: `if constraint.coefficients().len() != variables.len() { return Err }` and created_variables has one entry per variable", ["before:constraint.coefficients().len() != variables.len()"]),
    (r"BoundsAnalyzer::propagate_affine_constraints$", "index", r".*", "forms and queued have constraints.len() entries (built by map / vec![..; len]); every index comes from 0..constraints.len() or from `dependencies`, filled with enumerate() indices"),
    (r"BoundsAnalyzer::propagate_affine_constraints$", "arith", r"steps \+= 1", "steps < max_steps is tested just before", ["before:steps >= max_steps"]),
    (r"BoundsAnalyzer::tighten_affine_form$", "index", r".*", "prefixes and suffixes have terms.len() + 1 entries, index ranges over 0..terms.len() / enumerates form.coefficients (same length as terms)"),
    (r"BoundsAnalyzer::tighten_affine_form$", "arith", r"\(index \+ 1\)", "index < terms.len()"),
    (r"model::Exp>::linearize$", "index", r"operands\[[01]\]", "operands = linearize_binary_operands(&[lhs, rhs]), which returns exactly one entry per input or an error"),
    (r"model::Exp>::linearize$", "arith", r"\(operands\.len\(\) - 1\)", "the And arm returns early on `exps.is_empty()` and operands.len() == exps.len()", ["before:exps.is_empty()"]),
    (r"model::Exp>::linearize$", "arith", r".*_count \+= 1", COUNTER),
    (r"linearizer::(lower_logic_assertion|directional_logic_witness)$", "index", r"operands\[[01]\]", "operands = linearize_binary_operands(&[lhs, rhs]), which returns exactly one entry per input or an error"),
    (r"linearizer::directional_logic_witness$", "arith", r".*_count \+= 1", COUNTER),
    (r"linearizer::linearize_extreme$", "index", r"(operand_bounds\[|exps\[\*index\])", "operand_bounds has exps.len() entries; index/other_index range over 0..exps.len() and retained_indices only holds such indices"),
    (r"linearizer::linearize_extreme$", "index", r"retained_indices\[0\]", "guarded: `if retained_indices.is_empty() { return Err }` and `if retained_indices.len() == 1` just before", ["retained_indices.len() == 1"]),
    (r"linearizer::linearize_extreme$", "arith", r".*_count \+= 1", COUNTER),
    (r"linearizer::extract_coeffs$", "index", r"vec\[\*index\]", "vec has vars.len() entries and every value of the index map is an enumerate() position of that list"),
    (r"linearizer::is_binary_context$", "unwrap", r"get_index\(0\)", "inside the match arm `1 =>` on context.vars().len()", ["arm:1"]),
    (r"Linearizer::linearize$", "arith", r"counter \+= 1", "bounded by the number of row names in use (one candidate per taken name)"),
    (r"LinearModel as std::fmt::Display>::fmt$", "index", r"self\.variables\[i\]", LM + "every row and the objective have one coefficient per variable; i enumerates them"),
    (r"StandardLinearModel as std::fmt::Display>::fmt$", "index", r"self\.variables\[i\]", SHAPE + "i enumerates a row / the objective, which have one entry per variable"),
    (r"LinearModel::calc_(objective|constraints)$", "panic", r"panic!", "only on a length mismatch; every caller in the solver bridges passes one value per model variable (H-COLUMNS, C04)"),
    (r"LinearModel::to_lp_format$", "arith", r"suffix \+= 1", "bounded by the number of user-written row names"),
    (r"model::simplify_logic_nary$", "unwrap", r"into_iter\(\)\.next\(\)", "inside the match arm `1 =>` on result.len()", ["arm:1"]),
    (r"TransformerContext::declare_variable$|TypeCheckerContext::declare_variable$", "unwrap", r"frames\.last_mut\(\)", "frames is created with a root frame and pop_scope refuses to pop the last one (`if self.frames.len() <= 1 { return Err }`)"),
    (r"::pop_scope$", "unwrap", r"frames\.pop\(\)", "guarded: `if self.frames.len() <= 1 { return Err }` just before", ["before:self.frames.len() <= 1"]),
    (r"transformer_context::assert_no_duplicates_in_domain$", "arith", r"\*count \+= 1", "counts declarations of one name: bounded by the number of declarations"),
    (r"DomainVariable::increment_usage$", "arith", r"usage_count \+= 1", COUNTER),
    (r"pre_model::parse_problem_source$|utils::InputSpan::from_(pair|span)$", "arith", r".*", "pest guarantees end >= start for a span"),
    (r"utils::InputSpan::span_text$", "arith", r"\(self\.start \+ self\.len\)", "start and len are u32 offsets into the same source text (<= 4 GiB), their sum is computed in usize"),
    (r"utils::remove_many$", "arith", r"i \+= 1", "counts the elements of the vector being filtered"),
    (r"recursive_set_resolver::recursive_set_resolver$", "arith", r"\(current_level \+ 1\)", "current_level < sets.len() because sets.get(current_level) succeeded"),
    (r"math_utils::float_eq_precision$", "arith", r"-\(precision as _\)", "negation of a u8 widened to i32"),
    (r"WithType>::get_type$", "panic", r"unreachable!", "inner match on the operator inside the arm that only matches Add|Sub|Mul|Div"),
    (r"iterable_utils::flatten_primitive_array_values$", "panic", r"unreachable!", "guarded: `if !all_equal_type { return Anys }` -- every element has first_kind, which selects the arm", ["before:!all_equal_type"]),
    (r"ZipArrays as .*::return_type$", "panic", r"unreachable!", "inside the else branch of `if !all_iterable`: every type is PrimitiveKind::Iterable"),
    (r"ZipArrays as .*::call$", "unwrap", r"\.min\(\)", "guarded: `if len == 0 { return }` -- the list of iterables is not empty", ["before:len == 0"]),
    (r"ZipArrays as .*::call$", "index", r"p\[i\]", "i < shortest = min of the lengths"),
    (r"Array(Difference|Intersection|Union) as .*::call$", "index", r"args\[[01]\]", "guarded: `if args.len() != 2 { return Err }` at function entry", ["before:args.len() != 2"]),
    (r"exp_parser::parse_exp_leaf$", "unwrap", r"iter\.next\(\)", "guarded: `if exps.len() < 2 { return Err }` before the two next() calls", ["before:exps.len() < 2"]),
    (r"(exp_parser::parse_exp_leaf|other_parser::parse_compound_variable_index|other_parser::parse_variable|other_parser::parse_variable_type)$", "index", r"as_str\(\)\[ops::RangeFrom\{start: 1\}\]", "the pair is an escaped_compound_variable, which the grammar starts with the one-byte literal `\\\\`: the text is non-empty and byte 1 is a char boundary"),
    (r"other_parser::parse_primitive$", "(index|arith)", r"value", "guarded: `if value.len() < 2 { return Err }`; the first and last bytes are the ASCII quotes of the grammar's string rule", ["before:value.len() < 2"]),
    (r"pipe_runner::run_pipe$", "unwrap", r"results\.last_mut\(\)", "results starts as vec![data] and is only pushed to"),
    (r"iterable::IterableKind::read$", "index", r"indexes\[0\]", "unreachable statement: the loop above returns as soon as the last index is consumed, and it starts with a non-empty list"),
    (r"iterable::IterableKind::read$", "index", r"v\[i\]", "match guard `if i < v.len()` on the same arm / check_bounds! expansion", ["(i < v.len())"]),
    (r"ApplyOp for u64>::apply_unary_op$", "arith", r"-\(\*self as _\)", "PositiveInteger values come from literals, lengths and ranges, all <= i64::MAX, so the cast is lossless and the negation cannot overflow"),
]


def main():
    p, _, _ = facts.build_facts("default")
    F = facts.Facts(p)
    if os.path.exists(c18.TABLE):
        os.remove(c18.TABLE)
    R = engine.Report("C18", "quick")
    c18.check(F, R, "quick", dump="/tmp/c18_todo_author.json")
    todo = json.load(open("/tmp/c18_todo_author.json"))
    out = collections.OrderedDict()
    unmatched = []
    for t in todo:
        for rule in RULES:
            fr, kind, tr, reason = rule[:4]
            requires = rule[4] if len(rule) > 4 else None
            if re.search(fr, t["fn"]) and re.match("^(%s)$" % kind, t["kind"]) and re.search(tr, t["text"]):
                key = (t["fn"], t["kind"], t["text"])
                if key in out:
                    out[key]["count"] += 1
                else:
                    out[key] = {"fn": t["fn"], "kind": t["kind"], "text": t["text"], "count": 1, "reason": reason}
                    if requires:
                        out[key]["requires"] = requires
                break
        else:
            unmatched.append(t)
    json.dump({"_comment": "reviewed panic sites of the pinned tree: (function, kind, construct text) -> reason naming the guard or invariant; multiset semantics (count). Generated by tools/c18_author.py from explicit review rules; read by rules/c18.py.", "sites": list(out.values())}, open(c18.TABLE, "w"), indent=1)
    print("table entries:", len(out), "covering", sum(e["count"] for e in out.values()), "sites; unmatched:", len(unmatched))
    for t in unmatched:
        print("  UNMATCHED", t["file"], t["fn"], t["line"], t["kind"], "|", t["text"])


main()
