#!/usr/bin/env python3
"""(re)write /verif/seeded/<id>/meta.json from the confirmation files the seed scripts left (.without/.with/.checks_first/
.checks_now) and tools/seed_lines.json (one-line description + what it needs to manifest, written by hand)."""
import json, os, re, sys
S = "/verif/seeded"
lines = json.load(open("/verif/tools/seed_lines.json"))
for sid in sorted(x for x in os.listdir(S) if re.match(r"C\d\d", x)):
    d = os.path.join(S, sid)
    mp = os.path.join(d, "meta.json")
    meta = json.load(open(mp)) if os.path.exists(mp) else {}
    rd = lambda n: open(os.path.join(d, n)).read().strip() if os.path.exists(os.path.join(d, n)) else None
    fires = lambda txt: sorted({"%s:%s" % (l.split()[0], m) for l in (txt or "").splitlines() if " FIRES" in l for m in re.findall(r"rule=([A-Z0-9-]+)", l)} | {l.split()[0] + ":?" for l in (txt or "").splitlines() if " FIRES" in l and "rule=" not in l})
    prop = re.match(r"(C\d\d)", sid).group(1)
    if sid in lines:
        meta["one_line"] = lines[sid]["one_line"]
        meta["what_it_needs_to_manifest"] = lines[sid]["needs"]
    meta.setdefault("seed_id", sid)
    meta.setdefault("property_broken", prop)
    meta.setdefault("origin", "independent sub-agent given only the property text (second wave: plus a list of earlier changes to avoid) and a scratch worktree of /repo; nothing from /verif")
    if rd(".without.txt") is not None:
        meta["confirmed_by_me"] = {
            "unchanged_tree_demo": (rd(".without.txt") or "").splitlines()[-1],
            "changed_tree_suite": rd(".with.txt"),
            "changed_tree_failing_targets": rd(".with_failing.txt"),
            "commands": ["cargo test --offline --test seed_demo (unchanged source, in the scratch worktree)", "git apply patch.diff; cargo test --workspace --no-fail-fast --offline", "git -C /repo apply patch.diff; ./check C01..C20; git -C /repo checkout -- ."],
        }
    first = rd(".checks_first.txt")
    if first is not None:
        meta["checks_that_fired_when_first_run"] = fires(first)
    now = rd(".checks_now.txt")
    if now is not None:
        meta["checks_that_fire_now"] = fires(now)
    tgt_first = any(x.startswith(prop + ":") for x in meta.get("checks_that_fired_when_first_run", []))
    meta["target_property_check_fired_at_first"] = tgt_first
    meta["missed_at_first"] = not meta.get("checks_that_fired_when_first_run")
    if sid in lines and lines[sid].get("note"):
        meta["note"] = lines[sid]["note"]
    json.dump(meta, open(mp, "w"), indent=1)
    print(sid, "first:", meta.get("checks_that_fired_when_first_run"), "now:", meta.get("checks_that_fire_now"))
