#!/bin/bash
# development tooling: a persistent scratch worktree of /repo with a patch applied, with its own facts cache
# usage: tools/dev_tree.sh <label> <patch.diff>
set -u
LABEL=$1; PATCH=$2
D=/tmp/dt/$LABEL
rm -rf $D; mkdir -p $D/cache $D/ev $D/out
flock /tmp/pc_git.lock git -C /repo worktree add -q --detach $D/wt HEAD || exit 2
git -C $D/wt apply $PATCH || { echo "PATCH DOES NOT APPLY: $LABEL"; exit 2; }
cd /verif/rules
VERIF_REPO=$D/wt VERIF_CACHE=$D/cache python3 -c "
import facts, selftest
facts.build_facts('default'); selftest._facts()" || { echo "FACTS FAILED: $LABEL"; exit 2; }
rm -rf $D/cache/target-*
echo "ready $LABEL"
