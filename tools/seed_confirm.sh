#!/bin/bash
# usage: tools/seed_confirm.sh <seed-id> <agent-worktree>
# step 1+2 of seed_eval.sh only (safe to run in parallel for different worktrees): store the seed and confirm in the
# agent's scratch worktree that the demo passes without the change, and that with it the suite passes and the demo fails
set -u
ID=$1; WT=$2
D=/verif/seeded/$ID
mkdir -p $D
cp $WT/SEED/patch.diff $D/patch.diff
cp $WT/SEED/seed_demo.rs $D/seed_demo.rs 2>/dev/null || cp $WT/packages/rooc/tests/seed_demo.rs $D/seed_demo.rs
cp $WT/SEED/NOTES.md $D/NOTES.md 2>/dev/null
cd $WT
git checkout -q -- packages/rooc/src
cp $D/seed_demo.rs packages/rooc/tests/seed_demo.rs
cd packages/rooc
export CARGO_NET_OFFLINE=true
cargo test --offline --test seed_demo 2>&1 | grep -E "^test result|panicked|error" | head -5 > $D/.without.txt
(cd $WT && git apply $D/patch.diff) || { echo "PATCH DOES NOT APPLY" > $D/.with.txt; exit 2; }
cargo test --workspace --no-fail-fast --offline > /tmp/seed_suite_$ID.txt 2>&1
awk '/^     Running/ {cur=$0} /^test result/ {print cur " :: " $0}' /tmp/seed_suite_$ID.txt | sed 's/Running //' | grep -v " 0 failed" | head -10 > $D/.with_failing.txt
awk '/^test result/ {p+=$4; f+=$6} END {print "with change: passed=" p " failed=" f}' /tmp/seed_suite_$ID.txt > $D/.with.txt
rm -f /tmp/seed_suite_$ID.txt
echo "$ID: $(cat $D/.without.txt | head -1) | $(cat $D/.with.txt) | $(cat $D/.with_failing.txt | sed 's/.*:: //' | head -3 | tr '\n' ';')"
