#!/usr/bin/env python3
"""debug helper: print the HIR (s-expression or json) / MIR of a function from the facts"""
import sys, os, json
sys.path.insert(0, os.path.join(os.path.dirname(os.path.abspath(__file__)), "..", "rules"))
import facts
def main():
    cfg = "default"
    args = sys.argv[1:]
    mode = "sexp"
    if args and args[0] in ("--json", "--mir", "--list"):
        mode = args.pop(0)[2:]
    path, tag, _ = facts.build_facts(cfg)
    F = facts.Facts(path)
    if mode == "list":
        for p in F.fns:
            if not args or args[0] in p:
                print(p, F.fns[p].get("file"), F.fns[p].get("line"))
        return
    for a in args:
        if mode == "mir":
            for p, m in F.mir.items():
                if a == p or (a.endswith("*") and p.startswith(a[:-1])):
                    print("==", p)
                    for b in m["blocks"]:
                        print(" bb%d%s" % (b["i"], " (cleanup)" if b["cleanup"] else ""))
                        for s in b["stmts"]:
                            print("    ", s["dst"], "=", json.dumps(s["rv"]))
                        print("    ->", json.dumps(b["term"]))
            continue
        for p, f in F.fns.items():
            if a == p or (a.endswith("*") and p.startswith(a[:-1])):
                print("==", p, f.get("file"), f.get("line"))
                if "body" not in f: continue
                if mode == "json":
                    print(json.dumps(f["body"], indent=1))
                else:
                    print(pretty(f["body"], 0))
def pretty(n, ind):
    # multi-line rendering for blocks / matches, sexp for leaves
    k = n.get("k")
    pad = "  " * ind
    if k == "Block":
        out = []
        for s in n.get("stmts", []):
            out.append(pretty(s, ind))
        if n.get("e"):
            out.append(pretty(n["e"], ind))
        return "\n".join(out)
    if k == "Let":
        init = n.get("init")
        if init and init.get("k") in ("Match", "If", "Block", "For", "While", "Loop"):
            return "%slet %s =\n%s" % (pad, facts.sexp(n["pat"]), pretty(init, ind + 1)) + (("\n%selse\n%s" % (pad, pretty(n["els"], ind+1))) if n.get("els") else "")
        return pad + facts.sexp(n) + ((" else " + facts.sexp(n["els"])) if n.get("els") else "")
    if k in ("Expr", "Semi"):
        return pretty(n["e"], ind)
    if k == "Match":
        out = ["%smatch %s  [L%s]" % (pad, facts.sexp(n["scrut"]), n.get("l"))]
        for a in n["arms"]:
            g = (" if " + facts.sexp(a["guard"])) if a.get("guard") else ""
            out.append("%s  %s%s =>" % (pad, facts.sexp(a["pat"]), g))
            out.append(pretty(a["body"], ind + 2))
        return "\n".join(out)
    if k == "If":
        out = ["%sif %s  [L%s]" % (pad, facts.sexp(n["cond"]), n.get("l")), pretty(n["then"], ind + 1)]
        if n.get("else"):
            out.append(pad + "else")
            out.append(pretty(n["else"], ind + 1))
        return "\n".join(out)
    if k == "For":
        return "%sfor %s in %s  [L%s]\n%s" % (pad, facts.sexp(n["pat"]), facts.sexp(n["iter"]), n.get("l"), pretty(n["body"], ind + 1))
    if k == "While":
        return "%swhile %s  [L%s]\n%s" % (pad, facts.sexp(n["cond"]), n.get("l"), pretty(n["body"], ind + 1))
    if k == "Loop":
        return "%sloop  [L%s]\n%s" % (pad, n.get("l"), pretty(n["body"], ind + 1))
    if k == "Ret" and n.get("e") and n["e"].get("k") in ("Match", "If", "Block"):
        return "%sreturn\n%s" % (pad, pretty(n["e"], ind + 1))
    return pad + facts.sexp(n)
main()
