#!/bin/bash
# run /repo's test suite (guard off) and print a one-line summary
cd /repo/packages/rooc && cargo test --workspace --no-fail-fast --offline 2>&1 | awk '/^test result/ {p+=$4; f+=$6} /FAILED|panicked/ {print} END {print "passed=" p " failed=" f}'
