#!/bin/bash
# usage: tools/seed_recheck.sh <seed-id> [props...]  -- applies the stored patch to /repo, runs the checks, undoes it
ID=$1; shift
PROPS=${@:-C01 C02 C03 C04 C05 C06 C07 C08 C09 C10 C11 C12 C13 C14 C15 C16 C17 C18 C19 C20}
D=/verif/seeded/$ID
git -C /repo apply $D/patch.diff || { echo "PATCH DOES NOT APPLY"; exit 2; }
: > $D/.checks.txt
for p in $PROPS; do
  /verif/check $p > /tmp/seed_out_$p.txt 2>&1; rc=$?
  if [ $rc -ne 0 ]; then echo "$p FIRES: $(grep -m1 'rule=' /tmp/seed_out_$p.txt | cut -c1-200)" | tee -a $D/.checks.txt; fi
done
git -C /repo checkout -- .
