#!/usr/bin/env python3
"""writes /verif/MANIFEST.json from the property registry (rules/props.py)"""
import json, os, sys
HERE = os.path.dirname(os.path.abspath(__file__))
sys.path.insert(0, os.path.join(HERE, "..", "rules"))
import props

ALL = ["C%02d" % i for i in range(1, 21)]
NOT_DECIDED = props.NOT_DECIDED if hasattr(props, "NOT_DECIDED") else {}
NA = props.NOT_APPLICABLE if hasattr(props, "NOT_APPLICABLE") else {}

checks = []
for pid in ALL:
    if pid not in props.PROPS:
        continue
    spec = props.PROPS[pid]
    checks.append({
        "property_id": pid,
        "quick_cmd": "./check %s --tier quick" % pid,
        "thorough_cmd": "./check %s --tier thorough" % pid,
        "evidence_file": "/verif/evidence/%s.json" % pid,
        "replay_cmd_template": "./check %s --replay {path}" % pid,
        "engine": "factgen+rules",
        "level_claimed": {
            "category": "other",
            "text": "Static analysis of the resolved program: finite structural obligations (tables, data-flow, dominance, grammar shape) extracted from /repo's current typed HIR/MIR/grammar on every run and discharged exhaustively. A green result means no structural violation of the listed clauses, not that the behavioural property is verified. " + spec["explanation"],
            "design_ref": "DESIGN.md section 5, " + pid,
        },
        "level_note": "Trusted: rustc name/type resolution and MIR construction, pest_meta's grammar front end, documented contracts of microlp/good_lp. Not analysed: wasm32 cfg code, native solver features, #[cfg(test)] code. " + "; ".join(spec.get("assumptions", [])),
        "technique": spec["technique"],
    })
na = []
for pid in ALL:
    if pid not in props.PROPS:
        na.append({"property_id": pid, "reason": NA.get(pid, "check not built yet in this snapshot of /verif (static rules are being added property by property)")})
m = {
    "version": 1,
    "setup_cmd": "./setup.sh",
    "hooks": {
        "guard": "specy_rooc_verif",
        "enable": "none needed: the analysis reads the unmodified build (cargo +nightly check with the factgen RUSTC_WRAPPER); no source hooks exist",
        "baseline_off_cmd": "cd /repo/packages/rooc && cargo test --workspace --no-fail-fast --offline",
        "source_commits": [],
        "add_only": True,
    },
    "engines": [
        {"name": "factgen", "path": "/verif/factgen", "serves_properties": [c["property_id"] for c in checks], "kind_free_text": "rustc_private driver (nightly) dumping items, typed HIR with resolved callees and MIR CFG of the rooc lib under the real cargo build flags"},
        {"name": "grammardump", "path": "/verif/grammardump", "serves_properties": ["C09", "C11", "C12"], "kind_free_text": "pest_meta front end dumping grammar.pest as JSON"},
        {"name": "rules", "path": "/verif/rules", "serves_properties": [c["property_id"] for c in checks], "kind_free_text": "python rule families (tables, homomorphisms, polarity typing, dominance, who-may, grammar lints, panic census)"},
    ],
    "checks": checks,
    "notes": "Technique family: static analysis only. Every check re-extracts facts from /repo's current working tree (content-hashed cache under /verif/.cache), reports a specific construct on violation, prints KNOWN-FINDING lines for the entries of /verif/known_findings.txt and exits 1 only for unlisted violations, a rule instance count below its floor, or a build that cannot be analysed.",
    "not_applicable": na,
}
with open(os.path.join(HERE, "..", "MANIFEST.json"), "w") as fh:
    json.dump(m, fh, indent=1)
print("checks:", [c["property_id"] for c in checks], "n/a:", [x["property_id"] for x in na])
