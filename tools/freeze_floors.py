#!/usr/bin/env python3
"""Freeze rule-instance floors from the evidence of the pinned tree: floor = 60% of the counted
instances (at least 1).  A later run that sees fewer instances of a rule than its floor reports
"anchor lost": the rule no longer sees the code the property is anchored in."""
import json, glob, os
HERE = os.path.dirname(os.path.abspath(__file__))
out = {}
for f in sorted(glob.glob(os.path.join(HERE, "..", "evidence", "C*.json"))):
    d = json.load(open(f))
    pid = d["property_id"]
    inst = d["coverage"]["rule_instances"]
    out[pid] = {r: max(1, int(n * 0.6)) for r, n in inst.items() if n > 0}
json.dump(out, open(os.path.join(HERE, "..", "rules", "floors.json"), "w"), indent=1, sort_keys=True)
print({k: len(v) for k, v in out.items()})
