#!/bin/bash
# usage: tools/dev_check.sh <label> [props...]  -> one line per property that fires, full output in /tmp/dt/<label>/out
LABEL=$1; shift
D=/tmp/dt/$LABEL
PROPS=${*:-C01 C02 C03 C04 C05 C06 C07 C08 C09 C10 C11 C12 C13 C14 C15 C16 C17 C18 C19 C20}
cd /verif
for p in $PROPS; do
  VERIF_REPO=$D/wt VERIF_CACHE=$D/cache VERIF_EVIDENCE=$D/ev ./check $p --tier ${TIER:-quick} > $D/out/$p.txt 2>&1; rc=$?
  if [ $rc -ne 0 ]; then echo "$LABEL $p FIRES: $(grep -o 'rule=[A-Za-z0-9.:_-]* ' $D/out/$p.txt | sort | uniq -c | tr '\n' ' ')"; fi
done
