#!/usr/bin/env python3
"""prints the markdown table of seeded changes from seeded/*/meta.json and patches it into DESIGN.md"""
import json, glob, os, re
HERE = os.path.dirname(os.path.abspath(__file__))
rows = []
for d in sorted(glob.glob(os.path.join(HERE, "..", "seeded", "*"))):
    m = json.load(open(os.path.join(d, "meta.json")))
    first = ", ".join(m["checks_that_fired_when_first_run"]) or "**none (missed)**"
    now = ", ".join(m["checks_that_fire_now"])
    rows.append("| %s | %s | %s | %s |" % (m["seed_id"], m.get("one_line", m["what_it_needs_to_manifest"][:110].replace("|", "/")), first, now))
tab = "| seeded change | what it is / needs | fired when first run | fires now |\n|---|---|---|---|\n" + "\n".join(rows)
p = os.path.join(HERE, "..", "DESIGN.md")
s = open(p).read()
if "SEED_TABLE_PLACEHOLDER" in s:
    s = s.replace("SEED_TABLE_PLACEHOLDER", "<!-- seed-table -->\n" + tab + "\n<!-- /seed-table -->")
else:
    s = re.sub(r"<!-- seed-table -->.*<!-- /seed-table -->", "<!-- seed-table -->\n" + tab + "\n<!-- /seed-table -->", s, flags=re.S)
open(p, "w").write(s)
print(len(rows), "rows")
