#!/bin/bash
# usage: tools/seed_eval.sh <seed-id> <agent-worktree> <property>
# 1. confirms the seeded change in the agent's scratch worktree (suite passes, demo fails with it, demo passes without it)
# 2. stores it under /verif/seeded/<seed-id>/
# 3. applies it to /repo, runs every check, records which fire, and undoes it
set -u
ID=$1; WT=$2; PROP=$3
D=/verif/seeded/$ID
mkdir -p $D
cp $WT/SEED/patch.diff $D/patch.diff
cp $WT/SEED/seed_demo.rs $D/seed_demo.rs 2>/dev/null || cp $WT/packages/rooc/tests/seed_demo.rs $D/seed_demo.rs
cp $WT/SEED/NOTES.md $D/NOTES.md 2>/dev/null
cd $WT
# normalise the worktree: clean source, demo in place
git checkout -q -- packages/rooc/src
cp $D/seed_demo.rs packages/rooc/tests/seed_demo.rs
cd packages/rooc
export CARGO_NET_OFFLINE=true
echo "== unchanged tree: demo must pass"
cargo test --offline --test seed_demo 2>&1 | grep -E "^test result|panicked|error" | head -5 | tee $D/.without.txt
echo "== changed tree: suite must pass, demo must fail"
(cd $WT && git apply $D/patch.diff) || { echo "PATCH DOES NOT APPLY"; exit 2; }
cargo test --workspace --no-fail-fast --offline 2>&1 | awk '/^     Running/ {cur=$0} /^test result/ {print cur " :: " $0}' | sed 's/Running //' | grep -v " 0 failed" | head -10 | tee $D/.with_failing.txt
cargo test --workspace --no-fail-fast --offline 2>&1 | awk '/^test result/ {p+=$4; f+=$6} END {print "with change: passed=" p " failed=" f}' | tee $D/.with.txt
cd /verif
echo "== checks against the change"
git -C /repo apply $D/patch.diff || { echo "PATCH DOES NOT APPLY TO /repo"; exit 2; }
: > $D/.checks.txt
for p in C01 C02 C03 C04 C05 C06 C07 C08 C09 C10 C11 C12 C13 C14 C15 C16 C17 C18 C19 C20; do
  ./check $p > /tmp/seed_out_$p.txt 2>&1; rc=$?
  if [ $rc -ne 0 ]; then echo "$p FIRES: $(grep -m1 'rule=' /tmp/seed_out_$p.txt | cut -c1-220)" | tee -a $D/.checks.txt; fi
done
git -C /repo checkout -- .
git -C /repo status --short | head -3
echo "== done $ID (target property $PROP)"
