//! Fixture for the table interpreter (rules/interp.py): every `t_*` function uses standard-library methods the
//! interpreter models and returns a printable result.  The expected results in ../expected.txt were recorded by
//! running this crate's own test once (`cargo test -- --nocapture`, development time only); the engine self-test
//! evaluates each function from its typed HIR and compares.  Nothing of Specy/rooc is involved.
#![allow(clippy::all)]
use std::collections::HashMap;

macro_rules! show {
    (($($e:expr),* $(,)?)) => {{
        let parts: Vec<String> = vec![$(format!("{:?}", $e)),*];
        parts.join(" | ")
    }};
}

pub fn t_option_family() -> String {
    let a: Option<i64> = Some(3);
    let b: Option<i64> = None;
    show!((
        a.is_some_and(|x| x > 2),
        b.is_some_and(|x| x > 2),
        a.or(Some(9)),
        b.or(Some(9)),
        b.or_else(|| Some(7)),
        a.and(Some(1)),
        a.xor(b),
        a.xor(Some(4)),
        a.filter(|x| *x > 5),
        a.zip(Some(2)),
        a.unwrap_or_default(),
        a.map_or(0, |x| x * 2),
        b.map_or_else(|| -1, |x| x * 2),
    ))
}

pub struct Slot {
    pub o: Option<(i64, i64)>,
}

impl Slot {
    pub fn keep(mut self, v: (i64, i64)) -> Self {
        self.o.get_or_insert(v);
        self
    }
    pub fn set(mut self, v: (i64, i64)) -> Self {
        self.o = Some(v);
        self
    }
    pub fn put(mut self, v: (i64, i64)) -> Self {
        let _ = self.o.insert(v);
        self
    }
}

pub fn t_option_setters() -> String {
    let a = Slot { o: None }.keep((1, 2)).keep((3, 4));
    let b = Slot { o: None }.set((5, 6)).keep((7, 8)).put((9, 10));
    let mut c: Option<i64> = Some(1);
    let old = c.replace(2);
    let mut d: Option<i64> = None;
    let got = *d.get_or_insert(4);
    show!((a.o, b.o, c, old, d, got))
}

pub fn t_result_family() -> String {
    let a: Result<i64, String> = Ok(3);
    let b: Result<i64, String> = Err("bad".to_string());
    show!((
        a.clone().is_ok_and(|x| x == 3),
        b.clone().is_err_and(|e| e.len() == 3),
        b.clone().err(),
        a.clone().err(),
        b.clone().or_else(|e| if e == "bad" { Ok::<i64, String>(0) } else { Err(e) }),
        a.clone().and_then(|x| if x > 2 { Ok(x + 1) } else { Err("small".to_string()) }),
        a.clone().ok(),
        b.clone().unwrap_or(5),
        b.clone().map_err(|e| e.len()),
    ))
}

pub fn t_bool_then() -> String {
    let t = true;
    let f = false;
    show!((t.then_some(1), f.then_some(1), t.then(|| 2), f.then(|| 2)))
}

pub fn t_int_methods() -> String {
    let a: i64 = -7;
    let b: i64 = 3;
    show!((
        a.clamp(-5, 5),
        b.clamp(-5, 2),
        a.signum(),
        a.abs_diff(b),
        b.pow(4),
        a.rem_euclid(b),
        a.div_euclid(b),
        a % b,
        a / b,
        a.is_negative(),
        b.is_positive(),
        a.checked_add(b),
        i64::MAX.checked_add(1),
        a.checked_div(0),
        a.max(b),
        a.min(b),
        a.cmp(&b),
    ))
}

pub fn t_float_methods() -> String {
    let a: f64 = -2.5;
    let b: f64 = 0.25;
    show!((
        a.clamp(-1.0, 1.0),
        a.signum(),
        b.sqrt(),
        a.mul_add(2.0, 1.0),
        b.recip(),
        a.abs(),
        a.floor(),
        a.ceil(),
        a.round(),
        a.trunc(),
        a.fract(),
        a.max(b),
        a.min(f64::NAN),
        a.partial_cmp(&b),
        f64::NAN.partial_cmp(&b),
        a.total_cmp(&b),
        a.powi(2),
        b.powf(0.5),
        a.copysign(1.0),
        (0.1_f64 + 0.2).to_string(),
        1e21_f64.to_string(),
        1e-7_f64.to_string(),
        f64::INFINITY.to_string(),
        (-0.0_f64).to_string(),
    ))
}

pub fn t_ordering() -> String {
    use std::cmp::Ordering;
    let o = 1.cmp(&2);
    show!((o.is_lt(), o.is_ge(), o.reverse(), o.then(Ordering::Greater), Ordering::Equal.then(Ordering::Greater), Ordering::Equal.then_with(|| 3.cmp(&3))))
}

pub fn t_string_methods() -> String {
    let s = "alpha beta,gamma";
    let mut owned = String::from("xy");
    owned.push('z');
    owned.push_str("!!");
    owned.insert_str(0, ">>");
    show!((
        s.find("beta"),
        s.find("zzz"),
        s.replace("a", "A"),
        s.split_whitespace().collect::<Vec<_>>(),
        s.split_once(','),
        s.rsplit_once('a'),
        s.split(',').map(|p| p.len()).collect::<Vec<_>>(),
        s.starts_with("alpha"),
        s.ends_with(char::is_alphabetic),
        s.trim_start_matches("al"),
        s.strip_prefix("alpha "),
        s.strip_suffix("x"),
        s.to_uppercase(),
        s.chars().filter(|c| *c == 'a').count(),
        s.char_indices().nth(2),
        s.len(),
        s.is_empty(),
        s.contains("ta,"),
        "a".repeat(3),
        owned,
        "42".parse::<i32>().ok(),
        "4x".parse::<i32>().is_err(),
        "2.50".parse::<f64>().ok(),
        "Abc".eq_ignore_ascii_case("aBC"),
        "b".cmp("a"),
        'f'.to_digit(16),
        'Q'.to_ascii_lowercase(),
    ))
}

pub fn t_vec_methods() -> String {
    let mut v = vec![5, 3, 8, 3, 1];
    let w = v.clone();
    v.sort();
    v.dedup();
    let mut u = w.clone();
    u.reverse();
    u.truncate(4);
    u.insert(1, 100);
    u.swap(0, 2);
    let tail = u.split_off(3);
    let mut d = w.clone();
    let drained: Vec<i32> = d.drain(1..3).collect();
    let mut e = vec![1, 2];
    e.extend_from_slice(&[7, 8]);
    let mut f = vec![9];
    e.append(&mut f);
    show!((
        v,
        u,
        tail,
        d,
        drained,
        e,
        f,
        w.first(),
        w.last(),
        w.iter().nth(2),
        w.contains(&8),
        w.iter().position(|x| *x == 3),
        w.iter().rposition(|x| *x == 3),
        w.split_at(2),
        w.split_first(),
        w.windows(2).map(|p| p[0] + p[1]).collect::<Vec<_>>(),
        w.chunks(2).map(|p| p.len()).collect::<Vec<_>>(),
        w.starts_with(&[5, 3]),
        w.binary_search(&4).is_err(),
        vec![vec![1], vec![2, 3]].concat(),
        w.is_empty(),
    ))
}

pub fn t_iter_adapters() -> String {
    let w = vec![5, 3, 8, 3, 1];
    let names = vec!["bb", "a", "ccc", "dd"];
    show!((
        w.iter().copied().take_while(|x| *x > 2).collect::<Vec<_>>(),
        w.iter().copied().skip_while(|x| *x > 2).collect::<Vec<_>>(),
        w.iter().map_while(|x| if *x > 2 { Some(x * 2) } else { None }).collect::<Vec<_>>(),
        w.iter().min(),
        w.iter().max(),
        names.iter().max_by_key(|s| s.len()),
        names.iter().min_by_key(|s| s.len()),
        w.iter().max_by(|a, b| a.cmp(b)),
        w.iter().min_by(|a, b| a.cmp(b)),
        w.iter().partition::<Vec<i32>, _>(|x| **x > 3),
        w.iter().enumerate().map(|(i, x)| (*x, i)).unzip::<i32, usize, Vec<i32>, Vec<usize>>(),
        w.iter().try_fold(0i32, |acc, x| acc.checked_add(*x)),
        w.iter().copied().reduce(|a, b| a.max(b)),
        w.iter().product::<i32>(),
        w.iter().sum::<i32>(),
        w.iter().find_map(|x| if *x % 2 == 0 { Some(x * 10) } else { None }),
        w.iter().rev().skip(1).step_by(2).collect::<Vec<_>>(),
        w.iter().zip(names.iter()).map(|(a, b)| format!("{}{}", a, b)).collect::<Vec<_>>().join("-"),
        w.iter().flat_map(|x| vec![*x; 2]).take(4).collect::<Vec<_>>(),
        w.iter().filter(|x| **x != 3).count(),
        w.iter().all(|x| *x > 0),
        w.iter().any(|x| *x > 7),
        w.iter().fold(String::new(), |acc, x| acc + &x.to_string()),
        w.iter().last(),
        w.chunks(2).map(|c| c.to_vec()).collect::<Vec<_>>(),
        (1..=4).map(|i| i * i).collect::<Vec<i32>>(),
        (0..3).rev().collect::<Vec<i32>>(),
        names.iter().map(|s| s.to_string()).collect::<Vec<String>>().concat(),
    ))
}

pub fn t_sorting() -> String {
    let mut names = vec!["bb", "a", "ccc", "dd", "B"];
    names.sort();
    let mut by_len = vec!["bb", "a", "ccc", "dd"];
    by_len.sort_by_key(|s| s.len());
    let mut desc = vec![2.5, -1.0, 9.0];
    desc.sort_by(|a: &f64, b: &f64| b.partial_cmp(a).unwrap());
    let mut pairs = vec![(2, "x"), (1, "z"), (2, "a")];
    pairs.sort();
    show!((names, by_len, desc, pairs))
}

pub fn t_maps() -> String {
    let mut m: HashMap<String, i32> = HashMap::new();
    m.insert("a".to_string(), 1);
    m.insert("b".to_string(), 2);
    *m.entry("a".to_string()).or_insert(0) += 10;
    *m.entry("c".to_string()).or_default() += 5;
    let removed = m.remove("b");
    let mut keys: Vec<_> = m.keys().cloned().collect();
    keys.sort();
    let mut vals: Vec<_> = m.values().copied().collect();
    vals.sort();
    show!((removed, keys, vals, m.get("a"), m.get("zz"), m.contains_key("c"), m.len()))
}

pub fn t_control_flow() -> String {
    let mut out = Vec::new();
    let mut i = 0;
    'outer: loop {
        i += 1;
        for j in 0..i {
            if j == 2 {
                continue 'outer;
            }
            if i > 4 {
                break 'outer;
            }
            out.push((i, j));
        }
    }
    let mut stack = vec![1, 2, 3];
    let mut popped = Vec::new();
    while let Some(x) = stack.pop() {
        popped.push(x);
    }
    let label = match popped.as_slice() {
        [first, .., last] if first > last => "desc",
        [_] | [] => "short",
        _ => "other",
    };
    let v = Some(4);
    let Some(k) = v else { return "none".to_string() };
    let r = if let Some(z @ 1..=9) = v { z * k } else { 0 };
    show!((out, popped, label, r, matches!(v, Some(n) if n > 3)))
}

pub fn t_struct_and_closures() -> String {
    #[derive(Debug, Clone, Default, PartialEq)]
    struct P {
        x: i32,
        tags: Vec<String>,
        o: Option<f64>,
    }
    let mut p = P { x: 1, ..Default::default() };
    let mut bump = |d: i32| {
        p.x += d;
        p.tags.push(format!("t{}", d));
    };
    bump(2);
    bump(5);
    let q = P { o: Some(0.5), ..p.clone() };
    let taken = std::mem::take(&mut p.tags);
    show!((p.x, taken, p.tags.len(), q == p, q.o.map(|v| v * 4.0), q))
}

pub fn t_formatting() -> String {
    let x = 3.14159_f64;
    let n = 42;
    let s = "hi";
    format!("{:.2}|{:>5}|{:<4}|{:03}|{:?}|{:?}|{}|{:+}|{n}", x, n, s, 7, s, Some(1.5), true, n)
}

pub fn t_fn_values_and_lazy() -> String {
    let names = vec!["x", "y"];
    let taken = vec!["n__2".to_string(), "n__3".to_string()];
    let fresh = (2usize..).map(|k| format!("n__{}", k)).find(|c| !taken.contains(c));
    let o: Option<&str> = None;
    let one = 7;
    show!((
        names.iter().map(ToString::to_string).collect::<Vec<String>>(),
        o.map_or_else(String::new, |s| s.to_string()),
        std::slice::from_ref(&one).len(),
        fresh,
        names.iter().zip(1..).map(|(n, i)| format!("{}{}", n, i)).collect::<Vec<_>>(),
        (0..).step_by(3).skip(1).take(3).collect::<Vec<i32>>(),
        (1..).find(|k| k * k > 50),
        names.iter().map(|s| s.len()).map(Some).collect::<Vec<_>>(),
        std::cmp::max(3, 9),
        std::iter::once(4).chain(vec![5, 6]).collect::<Vec<i32>>(),
        names.first().copied().map(str::len),
        Some(2.5_f64).map(f64::abs),
        {
            let mut positions = 0usize..;
            let mut kept = vec!['a', 'b', 'c', 'd', 'e'];
            let drop = [1usize, 3];
            kept.retain(|_| positions.next().is_some_and(|i| !drop.contains(&i)));
            kept
        },
        {
            let mut labels = (1..).map(|k| format!("c{}", k));
            let first = labels.next();
            let second = labels.next();
            (first, second)
        },
    ))
}

struct Counters {
    a: usize,
    b: usize,
}

fn bump(c: &mut usize) -> usize {
    let id = *c;
    *c += 1;
    id
}

pub fn t_mut_refs_to_scalars() -> String {
    let mut cs = Counters { a: 0, b: 10 };
    let mut ids = Vec::new();
    for pick_a in [true, false, true, true] {
        let counter = if pick_a { &mut cs.a } else { &mut cs.b };
        let id = *counter;
        *counter += 1;
        ids.push(id);
    }
    let mut n = 5usize;
    let first = bump(&mut n);
    let second = bump(&mut n);
    let mut v = vec![1, 2, 3];
    let slot = &mut v[1];
    *slot *= 10;
    let mut flag = false;
    let f = &mut flag;
    *f = !*f;
    let mut rows = vec![vec![2.0, 4.0], vec![1.0, 3.0], vec![5.0, 5.0]];
    for value in &mut rows[0] {
        *value /= 2.0;
    }
    {
        let (before, after) = rows.split_at_mut(1);
        let (target, pivot) = (&mut after[1], &before[0]);
        for (t, p) in target.iter_mut().zip(pivot.iter()) {
            *t -= 5.0 * p;
        }
    }
    for row in rows.iter_mut() {
        row[1] += 0.5;
    }
    show!((ids, cs.a, cs.b, first, second, n, v, flag, rows))
}

pub fn t_entry_api() -> String {
    use std::collections::hash_map::Entry;
    let mut m: HashMap<String, f64> = HashMap::new();
    let mut log = Vec::new();
    for (k, v) in [("a", 1.5), ("b", -2.0), ("a", 0.25), ("c", -0.0), ("b", 2.0)] {
        match m.entry(k.to_string()) {
            Entry::Occupied(mut slot) => {
                *slot.get_mut() += v;
                log.push(format!("occ {} {}", slot.key(), slot.get()));
            }
            Entry::Vacant(slot) => {
                log.push(format!("vac {}", slot.key()));
                slot.insert(v);
            }
        }
    }
    let mut b: HashMap<i32, Vec<i32>> = HashMap::new();
    for x in [3, 1, 3, 2, 1, 3] {
        match b.entry(x) {
            Entry::Vacant(e) => {
                e.insert(vec![x]);
            }
            Entry::Occupied(e) => e.into_mut().push(x * 10),
        }
    }
    if let Entry::Occupied(e) = m.entry("b".to_string()) {
        let old = e.remove();
        log.push(format!("removed {}", old));
    }
    let mut counts: HashMap<&str, i32> = HashMap::new();
    for w in ["x", "y", "x"] {
        counts.entry(w).and_modify(|c| *c += 1).or_insert(1);
    }
    let mut price = -3.5f64;
    {
        let p = &mut price;
        *p = p.max(0.0);
    }
    let mut other = 2.25f64;
    let q = &mut other;
    let r = q.min(1.0) + q.abs();
    let mut keys: Vec<_> = m.iter().map(|(k, v)| (k.clone(), *v)).collect();
    keys.sort_by(|a, b| a.0.cmp(&b.0));
    let mut cs: Vec<_> = counts.into_iter().collect();
    cs.sort();
    let mut bv: Vec<_> = b.into_iter().collect();
    bv.sort();
    let w1: Option<f64> = None;
    let w2: Option<f64> = Some(2.5);
    let w3: Option<Vec<i32>> = None;
    let w4: Result<i64, String> = Err("e".to_string());
    let defaults = (w1.unwrap_or_default(), w2.unwrap_or_default(), w3.unwrap_or_default(), w4.unwrap_or_default(), None::<String>.unwrap_or_default(), None::<bool>.unwrap_or_default());
    let pairs = vec![("k1", 1), ("k2", 2), ("k1", 3), ("k3", 4), ("k2", 5)];
    let collected: HashMap<&str, i32> = pairs.iter().cloned().collect();
    let mut cv: Vec<_> = collected.into_iter().collect();
    cv.sort();
    let uniq: std::collections::HashSet<i32> = [3, 1, 3, 2, 1].into_iter().collect();
    let mut uv: Vec<_> = uniq.into_iter().collect();
    uv.sort();
    let normals: Vec<bool> = [0.0f64, -0.0, 1.5, f64::INFINITY, f64::NAN, 1e-310, -2.0].iter().map(|v| v.is_normal()).collect();
    show!((log, keys, bv, cs, price, r, defaults, cv, uv, normals, 1e-310f64.is_subnormal()))
}

pub fn all() -> Vec<(&'static str, String)> {
    vec![
        ("t_entry_api", t_entry_api()),
        ("t_mut_refs_to_scalars", t_mut_refs_to_scalars()),
        ("t_fn_values_and_lazy", t_fn_values_and_lazy()),
        ("t_option_family", t_option_family()),
        ("t_option_setters", t_option_setters()),
        ("t_result_family", t_result_family()),
        ("t_bool_then", t_bool_then()),
        ("t_int_methods", t_int_methods()),
        ("t_float_methods", t_float_methods()),
        ("t_ordering", t_ordering()),
        ("t_string_methods", t_string_methods()),
        ("t_vec_methods", t_vec_methods()),
        ("t_iter_adapters", t_iter_adapters()),
        ("t_sorting", t_sorting()),
        ("t_maps", t_maps()),
        ("t_control_flow", t_control_flow()),
        ("t_struct_and_closures", t_struct_and_closures()),
        ("t_formatting", t_formatting()),
    ]
}

#[cfg(test)]
mod tests {
    #[test]
    fn dump() {
        for (k, v) in super::all() {
            println!("CASE {} => {}", k, v);
        }
    }
}
