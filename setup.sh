#!/bin/bash
# Builds the analysis tools offline and warms the dependency check. Run once in /verif.
set -e
cd "$(dirname "$0")"
export CARGO_NET_OFFLINE=true
(cd factgen && cargo +nightly build --release --offline 2>&1 | tail -2)
(cd grammardump && cargo build --release --offline 2>&1 | tail -2)
mkdir -p .cache evidence/replay
# warm: generate the facts once (compiles rooc's dependencies under the driver)
python3 - <<'PY'
import sys, os
sys.path.insert(0, os.path.join(os.getcwd(), "rules"))
import facts
p, tag, regen = facts.build_facts("default", verbose=True)
print("facts:", p, tag, "regenerated" if regen else "cached")
PY
