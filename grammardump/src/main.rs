//! grammardump: parse a .pest grammar with pest's own front end (pest_meta) and print the
//! un-optimised rule ASTs as JSON.  usage: grammardump <file.pest>
use pest_meta::ast::{Expr, Rule, RuleType};
use pest_meta::parser;

fn esc(s: &str) -> String {
    let mut o = String::from("\"");
    for c in s.chars() {
        match c {
            '"' => o.push_str("\\\""),
            '\\' => o.push_str("\\\\"),
            '\n' => o.push_str("\\n"),
            '\r' => o.push_str("\\r"),
            '\t' => o.push_str("\\t"),
            c if (c as u32) < 0x20 => o.push_str(&format!("\\u{:04x}", c as u32)),
            c => o.push(c),
        }
    }
    o.push('"');
    o
}

fn un(k: &str, e: &Expr) -> String {
    format!("{{\"k\":\"{}\",\"e\":{}}}", k, expr(e))
}

fn expr(e: &Expr) -> String {
    match e {
        Expr::Str(s) => format!("{{\"k\":\"Str\",\"v\":{}}}", esc(s)),
        Expr::Insens(s) => format!("{{\"k\":\"Insens\",\"v\":{}}}", esc(s)),
        Expr::Range(a, b) => format!("{{\"k\":\"Range\",\"lo\":{},\"hi\":{}}}", esc(a), esc(b)),
        Expr::Ident(s) => format!("{{\"k\":\"Ident\",\"v\":{}}}", esc(s)),
        Expr::PeekSlice(a, b) => format!("{{\"k\":\"PeekSlice\",\"a\":{},\"b\":{}}}", a, b.map(|x| x.to_string()).unwrap_or("null".into())),
        Expr::PosPred(x) => un("PosPred", x),
        Expr::NegPred(x) => un("NegPred", x),
        Expr::Seq(a, b) => format!("{{\"k\":\"Seq\",\"a\":{},\"b\":{}}}", expr(a), expr(b)),
        Expr::Choice(a, b) => format!("{{\"k\":\"Choice\",\"a\":{},\"b\":{}}}", expr(a), expr(b)),
        Expr::Opt(x) => un("Opt", x),
        Expr::Rep(x) => un("Rep", x),
        Expr::RepOnce(x) => un("RepOnce", x),
        Expr::RepExact(x, n) => format!("{{\"k\":\"RepExact\",\"n\":{},\"e\":{}}}", n, expr(x)),
        Expr::RepMin(x, n) => format!("{{\"k\":\"RepMin\",\"n\":{},\"e\":{}}}", n, expr(x)),
        Expr::RepMax(x, n) => format!("{{\"k\":\"RepMax\",\"n\":{},\"e\":{}}}", n, expr(x)),
        Expr::RepMinMax(x, a, b) => format!("{{\"k\":\"RepMinMax\",\"min\":{},\"max\":{},\"e\":{}}}", a, b, expr(x)),
        Expr::Skip(v) => format!("{{\"k\":\"Skip\",\"v\":[{}]}}", v.iter().map(|s| esc(s)).collect::<Vec<_>>().join(",")),
        Expr::Push(x) => un("Push", x),
        Expr::PushLiteral(s) => format!("{{\"k\":\"PushLiteral\",\"v\":{}}}", esc(s)),
        Expr::NodeTag(x, t) => format!("{{\"k\":\"NodeTag\",\"tag\":{},\"e\":{}}}", esc(t), expr(x)),
    }
}

fn main() {
    let path = std::env::args().nth(1).expect("usage: grammardump <file.pest>");
    let src = std::fs::read_to_string(&path).expect("read grammar");
    let pairs = match parser::parse(parser::Rule::grammar_rules, &src) {
        Ok(p) => p,
        Err(e) => {
            eprintln!("grammar does not parse: {}", e);
            std::process::exit(2);
        }
    };
    let rules: Vec<Rule> = match parser::consume_rules(pairs) {
        Ok(r) => r,
        Err(es) => {
            for e in es {
                eprintln!("grammar invalid: {}", e);
            }
            std::process::exit(2);
        }
    };
    let mut out = Vec::new();
    for r in rules.iter() {
        let ty = match r.ty {
            RuleType::Normal => "Normal",
            RuleType::Silent => "Silent",
            RuleType::Atomic => "Atomic",
            RuleType::CompoundAtomic => "CompoundAtomic",
            RuleType::NonAtomic => "NonAtomic",
        };
        out.push(format!("{{\"name\":{},\"ty\":\"{}\",\"expr\":{}}}", esc(&r.name), ty, expr(&r.expr)));
    }
    println!("{{\"rules\":[{}]}}", out.join(",\n"));
}
