"""LP-ROUND-TRIP (C17): the LP export of a family of linear models, read by an independent reference reader.

`LinearModel::to_lp_format` is evaluated from its typed HIR on the family of c12rt.py; the text is read by a small
reader of the CPLEX LP format written from the format's documentation (sections, default bounds 0 <= x < +inf, a bounds
line overriding only the side it states, `free`, Binary / General), and what is read must be the model: sense, objective
coefficients and constant, every row (label, coefficients, relation, right-hand side), and for every variable its bounds
and integrality."""
import re
import roundtrip
from interp import is_unknown
import c12rt

INF = float("inf")
KEYWORDS = {"minimize": "min", "minimum": "min", "min": "min", "maximize": "max", "maximum": "max", "max": "max",
            "subject to": "st", "such that": "st", "st": "st", "s.t.": "st", "st.": "st",
            "bounds": "bounds", "bound": "bounds", "binary": "bin", "binaries": "bin", "bin": "bin",
            "general": "gen", "generals": "gen", "gen": "gen", "integer": "gen", "integers": "gen", "end": "end"}
NAME = r"[A-Za-z!\"#$%&()/,;?@_`'{}|~][A-Za-z0-9!\"#$%&()/,.;?@_`'{}|~]*"
NUM = r"(?:\d+\.?\d*(?:[eE][+-]?\d+)?|\.\d+(?:[eE][+-]?\d+)?)"


class LpError(Exception):
    pass


def tokens(s):
    out = []
    pos = 0
    pat = re.compile(r"\s*(?:(<=|>=|=<|=>|<|>|=)|([+-])|(:)|(%s)|(%s))" % (NUM, NAME))
    while pos < len(s):
        if s[pos:].strip() == "":
            break
        m = pat.match(s, pos)
        if not m:
            raise LpError("cannot tokenise %r" % s[pos:pos + 20])
        if m.group(1):
            op = m.group(1)
            out.append(("op", {"=<": "<=", "=>": ">=", "<": "<=", ">": ">="}.get(op, op)))
        elif m.group(2):
            out.append(("sign", m.group(2)))
        elif m.group(3):
            out.append(("colon", ":"))
        elif m.group(4):
            out.append(("num", float(m.group(4))))
        else:
            out.append(("name", m.group(5)))
        pos = m.end()
    return out


def linear(toks):
    """[sign] [num] [name] ... -> ({name: coeff}, constant)"""
    co, k = {}, 0.0
    i = 0
    while i < len(toks):
        sign = 1.0
        seen_sign = False
        while i < len(toks) and toks[i][0] == "sign":
            sign *= -1.0 if toks[i][1] == "-" else 1.0
            seen_sign = True
            i += 1
        if i >= len(toks):
            raise LpError("dangling sign")
        num = None
        if toks[i][0] == "num":
            num = toks[i][1]
            i += 1
        if i < len(toks) and toks[i][0] == "name" and toks[i][1].lower() not in ("infinity", "inf"):
            nm = toks[i][1]
            i += 1
            co[nm] = co.get(nm, 0.0) + sign * (1.0 if num is None else num)
        elif num is not None:
            k += sign * num
        else:
            raise LpError("unexpected token %r" % (toks[i],))
        if i < len(toks) and toks[i][0] not in ("sign",):
            raise LpError("terms must be separated by a sign, found %r" % (toks[i],))
    return co, k


def bound_value(toks):
    sign = 1.0
    i = 0
    while i < len(toks) and toks[i][0] == "sign":
        sign *= -1.0 if toks[i][1] == "-" else 1.0
        i += 1
    if i == len(toks) - 1 and toks[i][0] == "num":
        return sign * toks[i][1]
    if i == len(toks) - 1 and toks[i][0] == "name" and toks[i][1].lower() in ("infinity", "inf"):
        return sign * INF
    raise LpError("not a bound value: %r" % (toks,))


def read_lp(text):
    sense = None
    section = None
    obj = ({}, 0.0)
    rows = []
    bounds = {}
    binaries, generals = set(), set()
    seen_vars = []
    pending = ""
    lines = text.split("\n")
    for raw in lines:
        line = raw.split("\\")[0].strip()
        if not line:
            continue
        low = line.lower()
        if low in KEYWORDS:
            section = KEYWORDS[low]
            if section in ("min", "max"):
                sense = section
            continue
        if section in ("min", "max"):
            t = tokens(line)
            if len(t) >= 2 and t[0][0] == "name" and t[1][0] == "colon":
                t = t[2:]
            obj = linear(t)
            for n in obj[0]:
                if n not in seen_vars:
                    seen_vars.append(n)
        elif section == "st":
            t = tokens(line)
            label = None
            if len(t) >= 2 and t[0][0] == "name" and t[1][0] == "colon":
                label = t[0][1]
                t = t[2:]
            ops = [i for i, x in enumerate(t) if x[0] == "op"]
            if len(ops) != 1:
                raise LpError("a row needs exactly one relation: %r" % line)
            l, kl = linear(t[:ops[0]])
            r, kr = linear(t[ops[0] + 1:])
            if r:
                raise LpError("variables on the right-hand side: %r" % line)
            for n in l:
                if n not in seen_vars:
                    seen_vars.append(n)
            rows.append((label, l, t[ops[0]][1], kr - kl))
        elif section == "bounds":
            t = tokens(line)
            if len(t) == 2 and t[0][0] == "name" and t[1][0] == "name" and t[1][1].lower() == "free":
                bounds[t[0][1]] = (-INF, INF)
                continue
            ops = [i for i, x in enumerate(t) if x[0] == "op"]
            names = [i for i, x in enumerate(t) if x[0] == "name" and x[1].lower() not in ("infinity", "inf")]
            if len(names) != 1:
                raise LpError("a bounds line names one variable: %r" % line)
            v = t[names[0]][1]
            lo, hi = bounds.get(v, (0.0, INF))
            if len(ops) == 2:
                if t[ops[0]][1] != "<=" or t[ops[1]][1] != "<=":
                    raise LpError("two-sided bounds are written lo <= x <= hi: %r" % line)
                lo = bound_value(t[:ops[0]])
                hi = bound_value(t[ops[1] + 1:])
            elif len(ops) == 1:
                o = t[ops[0]][1]
                if names[0] < ops[0]:
                    val = bound_value(t[ops[0] + 1:])
                    if o == "<=":
                        hi = val
                    elif o == ">=":
                        lo = val
                    else:
                        lo = hi = val
                else:
                    val = bound_value(t[:ops[0]])
                    if o == "<=":
                        lo = val
                    elif o == ">=":
                        hi = val
                    else:
                        lo = hi = val
            else:
                raise LpError("bounds line without relation: %r" % line)
            bounds[v] = (lo, hi)
        elif section in ("bin", "gen"):
            for n in line.split():
                (binaries if section == "bin" else generals).add(n)
        elif section == "end":
            raise LpError("text after End")
        else:
            raise LpError("text before the objective section: %r" % line)
    if section != "end":
        raise LpError("no End")
    return sense, obj, rows, bounds, binaries, generals


def check(F, R, Gm, tier="quick"):
    RT = roundtrip.RoundTrip(F, Gm)
    fn = "transformers::linear_model::LinearModel::to_lp_format"
    if not R.ob("LP-ROUND-TRIP", "anchor", F.fn(fn) is not None, "packages/rooc/src/transformers/linear_model.rs", "to_lp_format found"):
        return
    R.fn(fn)
    fam = c12rt.family(tier)
    R.count("LP-ROUND-TRIP.models", len(fam))
    fails = {}
    for label, model, spec in fam:
        names, doms, opt, obj, off, rows = spec
        group = label.rsplit(":", 1)[0] if label.startswith(("coeff", "rhs")) else label
        r = RT.I.call_fn(fn, [model])
        if is_unknown(r):
            fails.setdefault(("print", group), (label, "exporter not evaluable: %r" % (r,)))
            continue
        text = roundtrip.concretise(r)
        if text is None:
            fails.setdefault(("print", group), (label, "opaque value in the export"))
            continue
        shown = text.replace("\n", "\\n")[:260]
        try:
            sense, (oc, ok), rrows, bounds, binaries, generals = read_lp(text)
        except LpError as e:
            fails.setdefault(("read", group), (label, "export `%s` is not readable LP text: %s" % (shown, e)))
            continue
        bad = None
        want_sense = "max" if opt == "Max" else "min"
        if sense != want_sense:
            bad = "sense %s exported as %s" % (want_sense, sense)
        want_obj = {n: c for n, c in zip(names, obj) if c != 0.0}
        if bad is None and opt != "Satisfy" and ({n: v for n, v in oc.items() if v != 0.0} != want_obj or ok != off):
            bad = "objective %s + %r exported as %s + %r" % (want_obj, off, oc, ok)
        if bad is None and len(rrows) != len(rows):
            bad = "%d rows exported as %d" % (len(rows), len(rrows))
        if bad is None:
            labels = [l for l, _, _, _ in rrows]
            if len(set(labels)) != len(labels) or any(l is None for l in labels):
                bad = "row labels are not unique: %s" % labels
        if bad is None:
            for (nm, co, cmp, rhs), (rl, rco, rop, rrhs) in zip(rows, rrows):
                want = {n: c for n, c in zip(names, co) if c != 0.0}
                wop = {"LessOrEqual": "<=", "GreaterOrEqual": ">=", "Equal": "="}[cmp]
                if (want, wop, rhs) != ({n: v for n, v in rco.items() if v != 0.0}, rop, rrhs) or (nm and rl != nm):
                    bad = "row (%r, %s %s %r) exported as (%r, %s %s %r)" % (nm, want, wop, rhs, rl, rco, rop, rrhs)
                    break
        if bad is None:
            for n_, d in zip(names, doms):
                k = d[0]
                if k == "Boolean":
                    want = (0.0, 1.0, True)
                elif k == "IntegerRange":
                    want = (float(d[1]), float(d[2]), True)
                else:
                    want = (float(d[1]), float(d[2]), False)
                if n_ in binaries:
                    lo, hi = bounds.get(n_, (0.0, 1.0))
                    got = (max(lo, 0.0), min(hi, 1.0), True)
                else:
                    lo, hi = bounds.get(n_, (0.0, INF))
                    got = (lo, hi, n_ in generals)
                if got != want:
                    bad = "variable %s %s %r exported as bounds [%r, %r]%s" % (n_, k, d[1:], got[0], got[1], " integer" if got[2] else "")
                    break
        if bad:
            fails.setdefault(("same-model", group), (label, "export `%s`: %s" % (shown, bad)))
    for stage in ("print", "read", "same-model"):
        bad = {g: v for (s, g), v in fails.items() if s == stage}
        if not bad:
            R.ob("LP-ROUND-TRIP", stage, True, "packages/rooc/src/transformers/linear_model.rs", "holds on all %d linear models of the family" % len(fam))
        for g, (label, why) in sorted(bad.items()):
            R.ob("LP-ROUND-TRIP", "%s:%s" % (stage, g), False, "packages/rooc/src/transformers/linear_model.rs", "model %s: %s" % (label, why))
