"""Flow-insensitive local data-flow on HIR (families H / W): which pattern bindings an expression
derives from, following `let` and assignments inside one function body."""
from facts import walk, strip


def pat_binds(p, out=None):
    """ids (and names) bound by a pattern"""
    if out is None:
        out = []
    for n in walk(p):
        if n.get("k") == "PBind":
            out.append((n["id"], n["name"]))
    return out


def free_locals(e):
    """set of local ids mentioned in an expression"""
    out = set()
    for n in walk(e):
        if n.get("k") == "Path" and n.get("res") == "local":
            out.add(n["id"])
    return out


class LocalFlow:
    def __init__(self, body):
        self.deps = {}  # id -> set of ids it is computed from
        self.names = {}
        self.defs = {}  # id -> list of defining expressions
        for n in walk(body):
            k = n.get("k")
            if k == "Let" and n.get("init") is not None:
                fl = free_locals(n["init"])
                for (i, nm) in pat_binds(n["pat"]):
                    self.deps.setdefault(i, set()).update(fl)
                    self.defs.setdefault(i, []).append(n["init"])
                    self.names[i] = nm
            elif k == "LetExpr":
                fl = free_locals(n["init"])
                for (i, nm) in pat_binds(n["pat"]):
                    self.deps.setdefault(i, set()).update(fl)
                    self.defs.setdefault(i, []).append(n["init"])
                    self.names[i] = nm
            elif k in ("Assign", "AssignOp"):
                lhs = strip(n["lhs"])
                while lhs.get("k") in ("Field", "Index"):
                    lhs = strip(lhs["a"])
                if lhs.get("k") == "Path" and lhs.get("res") == "local":
                    self.deps.setdefault(lhs["id"], set()).update(free_locals(n["rhs"]))
                    self.defs.setdefault(lhs["id"], []).append(n["rhs"])
            elif k == "Match":
                fl = free_locals(n["scrut"])
                for arm in n["arms"]:
                    for (i, nm) in pat_binds(arm["pat"]):
                        self.deps.setdefault(i, set()).update(fl)
                        self.names[i] = nm
            elif k == "For":
                fl = free_locals(n["iter"])
                for (i, nm) in pat_binds(n["pat"]):
                    self.deps.setdefault(i, set()).update(fl)
                    self.names[i] = nm
            elif k == "PBind":
                self.names.setdefault(n["id"], n["name"])

    def roots(self, e, stop=()):
        """transitive sources of expression e; ids in `stop` are not expanded"""
        seen = set()
        out = set()
        todo = list(free_locals(e))
        while todo:
            i = todo.pop()
            if i in seen:
                continue
            seen.add(i)
            if i in stop or i not in self.deps or not self.deps[i]:
                out.add(i)
                continue
            ds = self.deps[i] - {i}
            if not ds:
                out.add(i)
            todo.extend(ds)
        return out

    def derives_only_from(self, e, allowed, stop=()):
        r = self.roots(e, stop=stop)
        return bool(r) and r <= set(allowed)


def guarded_writes(node, target, guards=()):
    """every Assign / AssignOp to `target` (sexp of the place) below `node`, each with the stack of enclosing
    conditions: [(op, rhs_text, ((cond_text, branch), ...)), ...]; branch is True/False for if, the pattern for match arms"""
    from facts import children, sexp, strip
    out = []
    if isinstance(node, list):
        for x in node:
            out += guarded_writes(x, target, guards)
        return out
    if not isinstance(node, dict):
        return out
    k = node.get("k")
    if k in ("Assign", "AssignOp") and sexp(strip(node["lhs"])) == target:
        out.append((node.get("op", "="), sexp(strip(node["rhs"])), guards))
        return out
    if k == "If":
        c = sexp(strip(node["cond"]))
        out += guarded_writes(node["cond"], target, guards)
        out += guarded_writes(node["then"], target, guards + ((c, True),))
        if node.get("else") is not None:
            out += guarded_writes(node["else"], target, guards + ((c, False),))
        return out
    if k == "Match":
        s = sexp(strip(node["scrut"]))
        out += guarded_writes(node["scrut"], target, guards)
        for a in node["arms"]:
            g = guards + ((s, sexp(a["pat"])),)
            if a.get("guard") is not None:
                g = g + ((sexp(strip(a["guard"])), True),)
            out += guarded_writes(a["body"], target, g)
        return out
    for c in children(node):
        out += guarded_writes(c, target, guards)
    return out


def loop_progress(body, is_progress):
    """path-sensitive must-analysis over the HIR of a loop body: does every path from the top of the body to a back edge
    (end of body or `continue`) execute a node for which is_progress(node) holds?  Paths leaving the loop (return, break, `?`)
    are not constrained.  Returns the list of offending back edges as ('end-of-body' | 'continue', line)."""
    bad = []

    def seq(nodes, st):
        for n in nodes:
            st = ev(n, st)
            if not st:
                return st
        return st

    def ev(n, st):
        # st: set of bools (progress made so far on some path reaching here); returns the set for the fall-through edge
        if not st or not isinstance(n, dict):
            return st
        k = n.get("k")
        if k == "Closure":
            return st
        if k in ("Ret", "Break"):
            if n.get("e") is not None:
                ev(n["e"], st)
            return set()
        if k == "Continue":
            if False in st:
                bad.append(("continue", n.get("l")))
            return set()
        if k == "If":
            s = ev(n["cond"], st)
            a = ev(n["then"], s)
            b = ev(n["else"], s) if n.get("else") is not None else s
            return a | b
        if k == "Match":
            s = ev(n["scrut"], st)
            out = set()
            for arm in n["arms"]:
                s2 = ev(arm["guard"], s) if arm.get("guard") is not None else s
                out |= ev(arm["body"], s2)
            return out
        if k == "Let":
            s = ev(n["init"], st) if n.get("init") is not None else st
            if n.get("els") is not None:
                ev(n["els"], s)
            return s
        if k in ("While", "For", "Loop"):
            # an inner loop may run zero times; its own continue/break edges are its own
            inner = []
            s = st
            for key in ("cond", "iter"):
                if n.get(key) is not None:
                    s = ev(n[key], s)
            sub = loop_progress_states(n["body"], s, is_progress)
            return s | sub
        if k == "Binary" and n.get("op") in ("&&", "||"):
            s = ev(n["a"], st)
            return s | ev(n["b"], s)
        if k == "Try":
            return ev(n["e"], st) if isinstance(n.get("e"), dict) else st
        if k == "Block":
            s = seq(n.get("stmts", []), st)
            if n.get("e") is not None:
                s = ev(n["e"], s)
            r = s
        else:
            from facts import children
            r = seq(list(children(n)), st)
        if is_progress(n) and r:
            return {True}
        return r

    end = ev(body, {False})
    if False in end:
        bad.append(("end-of-body", body.get("l")))
    return bad


def loop_progress_states(body, st, is_progress):
    """fall-through states of an inner loop body (used by loop_progress for nested loops): progress inside a nested loop
    counts only if it happens on every path of one of its iterations, and the loop may not run at all"""
    marks = set(st)
    found = [False]

    def probe(n):
        if is_progress(n):
            found[0] = True
        return False
    from facts import walk
    for x in walk(body):
        probe(x)
    return marks | ({True} if found[0] else set())
