"""Flow-insensitive local data-flow on HIR (families H / W): which pattern bindings an expression
derives from, following `let` and assignments inside one function body."""
from facts import walk, strip


def pat_binds(p, out=None):
    """ids (and names) bound by a pattern"""
    if out is None:
        out = []
    for n in walk(p):
        if n.get("k") == "PBind":
            out.append((n["id"], n["name"]))
    return out


def free_locals(e):
    """set of local ids mentioned in an expression"""
    out = set()
    for n in walk(e):
        if n.get("k") == "Path" and n.get("res") == "local":
            out.add(n["id"])
    return out


class LocalFlow:
    def __init__(self, body):
        self.deps = {}  # id -> set of ids it is computed from
        self.names = {}
        self.defs = {}  # id -> list of defining expressions
        for n in walk(body):
            k = n.get("k")
            if k == "Let" and n.get("init") is not None:
                fl = free_locals(n["init"])
                for (i, nm) in pat_binds(n["pat"]):
                    self.deps.setdefault(i, set()).update(fl)
                    self.defs.setdefault(i, []).append(n["init"])
                    self.names[i] = nm
            elif k == "LetExpr":
                fl = free_locals(n["init"])
                for (i, nm) in pat_binds(n["pat"]):
                    self.deps.setdefault(i, set()).update(fl)
                    self.defs.setdefault(i, []).append(n["init"])
                    self.names[i] = nm
            elif k in ("Assign", "AssignOp"):
                lhs = strip(n["lhs"])
                while lhs.get("k") in ("Field", "Index"):
                    lhs = strip(lhs["a"])
                if lhs.get("k") == "Path" and lhs.get("res") == "local":
                    self.deps.setdefault(lhs["id"], set()).update(free_locals(n["rhs"]))
                    self.defs.setdefault(lhs["id"], []).append(n["rhs"])
            elif k == "Match":
                fl = free_locals(n["scrut"])
                for arm in n["arms"]:
                    for (i, nm) in pat_binds(arm["pat"]):
                        self.deps.setdefault(i, set()).update(fl)
                        self.names[i] = nm
            elif k == "For":
                fl = free_locals(n["iter"])
                for (i, nm) in pat_binds(n["pat"]):
                    self.deps.setdefault(i, set()).update(fl)
                    self.names[i] = nm
            elif k == "PBind":
                self.names.setdefault(n["id"], n["name"])

    def roots(self, e, stop=()):
        """transitive sources of expression e; ids in `stop` are not expanded"""
        seen = set()
        out = set()
        todo = list(free_locals(e))
        while todo:
            i = todo.pop()
            if i in seen:
                continue
            seen.add(i)
            if i in stop or i not in self.deps or not self.deps[i]:
                out.add(i)
                continue
            ds = self.deps[i] - {i}
            if not ds:
                out.add(i)
            todo.extend(ds)
        return out

    def derives_only_from(self, e, allowed, stop=()):
        r = self.roots(e, stop=stop)
        return bool(r) and r <= set(allowed)
