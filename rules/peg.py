"""A model of pest 2.9's matcher over the grammar AST printed by grammardump (pest_meta's own front end).

Semantics taken from pest's sources (pest/src/parser_state.rs, pest_generator/src/generator.rs):
  * ordered choice, greedy repetition, sequences restore position and token queue on failure;
  * implicit `skip` = WHITESPACE* (COMMENT WHITESPACE*)* between the elements of a sequence and between repetitions, only
    in non-atomic context; WHITESPACE / COMMENT themselves run atomically;
  * rule kinds: normal (token), silent `_` (no token), atomic `@` (token, inner rules give no tokens, no skipping),
    compound atomic `$` (token, inner tokens, no skipping), non-atomic `!`;
  * predicates match without consuming and without tokens; node tags do nothing inside a predicate;
  * `#tag = e` re-tags the last End token of the queue after e matched (for `(e)?` and `(e)*` only when/each time e
    matched) -- which is the last pair that closed, not necessarily a pair produced by e.
The result is the list of top-level pairs; a Pair has rule, tag, start, end, children."""
import unicodedata


class Pair:
    __slots__ = ("rule", "tag", "start", "end", "children", "src")

    def __init__(self, rule, tag, start, end, children, src):
        self.rule, self.tag, self.start, self.end, self.children, self.src = rule, tag, start, end, children, src

    @property
    def text(self):
        return self.src[self.start:self.end]

    def sexp(self):
        head = self.rule + ("#" + self.tag if self.tag else "")
        if not self.children:
            return "(%s %s)" % (head, _rq(self.text))
        return "(%s %s)" % (head, " ".join(c.sexp() for c in self.children))

    def flatten(self):
        yield self
        for c in self.children:
            for x in c.flatten():
                yield x


def _rq(s):
    out = '"'
    for c in s:
        if c == '"':
            out += '\\"'
        elif c == "\\":
            out += "\\\\"
        elif c == "\n":
            out += "\\n"
        elif c == "\r":
            out += "\\r"
        elif c == "\t":
            out += "\\t"
        else:
            out += c
    return out + '"'


class Fail(Exception):
    pass


BUILTIN_CHARS = {
    "ANY": lambda c: True,
    "ASCII_DIGIT": lambda c: "0" <= c <= "9",
    "ASCII_NONZERO_DIGIT": lambda c: "1" <= c <= "9",
    "ASCII_BIN_DIGIT": lambda c: c in "01",
    "ASCII_OCT_DIGIT": lambda c: "0" <= c <= "7",
    "ASCII_HEX_DIGIT": lambda c: c in "0123456789abcdefABCDEF",
    "ASCII_ALPHA_LOWER": lambda c: "a" <= c <= "z",
    "ASCII_ALPHA_UPPER": lambda c: "A" <= c <= "Z",
    "ASCII_ALPHA": lambda c: ("a" <= c <= "z") or ("A" <= c <= "Z"),
    "ASCII_ALPHANUMERIC": lambda c: ("a" <= c <= "z") or ("A" <= c <= "Z") or ("0" <= c <= "9"),
    "ASCII": lambda c: ord(c) < 128,
    "LETTER": lambda c: unicodedata.category(c).startswith("L"),
    "NUMBER": lambda c: unicodedata.category(c).startswith("N"),
    "PUNCTUATION": lambda c: unicodedata.category(c).startswith("P"),
    "SYMBOL": lambda c: unicodedata.category(c).startswith("S"),
    "MARK": lambda c: unicodedata.category(c).startswith("M"),
    "SEPARATOR": lambda c: unicodedata.category(c).startswith("Z"),
    "UPPERCASE_LETTER": lambda c: unicodedata.category(c) == "Lu",
    "LOWERCASE_LETTER": lambda c: unicodedata.category(c) == "Ll",
    "DECIMAL_NUMBER": lambda c: unicodedata.category(c) == "Nd",
}

NON, ATOMIC, COMPOUND = "non", "atomic", "compound"


class Matcher:
    def __init__(self, grammar):
        """grammar: rules/grammar.py Grammar (rules: name -> {ty, expr})"""
        self.G = grammar
        self.has_ws = "WHITESPACE" in grammar.rules
        self.has_cm = "COMMENT" in grammar.rules

    # ---- public ------------------------------------------------------------------------------------
    def parse(self, rule, src):
        """pairs of a full match of `rule` at position 0 (pest's Parser::parse does not require EOI by itself), or None"""
        self.src = src
        self.queue = []
        self.lookahead = 0
        self.atom = NON
        self.steps = 0
        self.furthest = 0
        pos = self.call_rule(rule, 0)
        if pos is None:
            return None
        return self.build()

    def build(self):
        stack = [[]]
        starts = []
        for t in self.queue:
            if t[0] == "S":
                starts.append(t)
                stack.append([])
            else:
                s = starts.pop()
                kids = stack.pop()
                stack[-1].append(Pair(t[1], t[3], s[2], t[2], kids, self.src))
        return stack[0]

    # ---- machinery ---------------------------------------------------------------------------------
    def call_rule(self, name, pos):
        self.steps += 1
        if self.steps > 2_000_000:
            raise Fail("step limit")
        if name in self.G.rules:
            r = self.G.rules[name]
            ty = r["ty"]
            if ty == "Silent":
                return self.ev(r["expr"], pos)
            emit = self.lookahead == 0 and self.atom != ATOMIC
            qlen = len(self.queue)
            if emit:
                self.queue.append(["S", name, pos])
            saved = self.atom
            if ty == "Atomic":
                self.atom = ATOMIC
            elif ty == "CompoundAtomic":
                self.atom = COMPOUND
            elif ty == "NonAtomic":
                self.atom = NON
            try:
                end = self.ev(r["expr"], pos)
            finally:
                self.atom = saved
            if end is None:
                del self.queue[qlen:]
                return None
            if emit:
                self.queue.append(["E", name, end, None])
            return end
        # built-ins
        if name == "SOI":
            return pos if pos == 0 else None
        if name == "EOI":
            if pos != len(self.src):
                return None
            if self.lookahead == 0 and self.atom != ATOMIC:
                self.queue.append(["S", "EOI", pos])
                self.queue.append(["E", "EOI", pos, None])
            return pos
        if name == "NEWLINE":
            if self.src.startswith("\r\n", pos):
                return pos + 2
            if pos < len(self.src) and self.src[pos] in "\n\r":
                return pos + 1
            return None
        f = BUILTIN_CHARS.get(name)
        if f is not None:
            if pos < len(self.src) and f(self.src[pos]):
                self.furthest = max(self.furthest, pos + 1)
                return pos + 1
            return None
        raise Fail("unknown rule " + name)

    def skip(self, pos):
        if self.atom != NON or not (self.has_ws or self.has_cm):
            return pos
        saved_atom, self.atom = self.atom, ATOMIC
        try:
            def ws(p):
                while self.has_ws:
                    q = self.ev(self.G.rules["WHITESPACE"]["expr"], p)
                    if q is None or q == p:
                        break
                    p = q
                return p
            pos = ws(pos)
            while self.has_cm:
                q = self.ev(self.G.rules["COMMENT"]["expr"], pos)
                if q is None or q == pos:
                    break
                pos = ws(q)
            return pos
        finally:
            self.atom = saved_atom

    def tag_last(self, tag):
        if self.lookahead:
            return
        if self.queue and self.queue[-1][0] == "E":
            self.queue[-1][3] = tag

    def ev(self, e, pos):
        k = e["k"]
        src = self.src
        if k == "Str":
            return pos + len(e["v"]) if src.startswith(e["v"], pos) else None
        if k == "Insens":
            v = e["v"]
            seg = src[pos:pos + len(v)]
            # pest: ASCII case-insensitive
            return pos + len(v) if len(seg) == len(v) and _ascii_lower(seg) == _ascii_lower(v) else None
        if k == "Range":
            return pos + 1 if pos < len(src) and e["lo"] <= src[pos] <= e["hi"] else None
        if k == "Ident":
            return self.call_rule(e["v"], pos)
        if k == "Seq":
            qlen = len(self.queue)
            p = self.ev(e["a"], pos)
            if p is not None:
                p = self.skip(p)
                p = self.ev(e["b"], p)
            if p is None:
                del self.queue[qlen:]
            return p
        if k == "Choice":
            qlen = len(self.queue)
            p = self.ev(e["a"], pos)
            if p is not None:
                return p
            del self.queue[qlen:]
            return self.ev(e["b"], pos)
        if k == "Opt":
            qlen = len(self.queue)
            p = self.ev(e["e"], pos)
            if p is None:
                del self.queue[qlen:]
                return pos
            return p
        if k == "Rep":
            return self.rep(e["e"], pos, 0, None, None)
        if k == "RepOnce":
            return self.rep(e["e"], pos, 1, None, None)
        if k in ("RepMin", "RepExact", "RepMax", "RepMinMax"):
            # pest_meta's unroller turns counted repetitions into sequences (with the sequence's own skipping)
            x = e["e"]
            if k == "RepExact":
                items = [x] * e["n"]
            elif k == "RepMin":
                items = [x] * e["n"] + [{"k": "Rep", "e": x}]
            elif k == "RepMax":
                items = [{"k": "Opt", "e": x}] * e["n"]
            else:
                items = [x] * e["min"] + [{"k": "Opt", "e": x}] * (e["max"] - e["min"])
            if not items:
                return pos
            seq = items[-1]
            for it in reversed(items[:-1]):
                seq = {"k": "Seq", "a": it, "b": seq}
            return self.ev(seq, pos)
        if k in ("PosPred", "NegPred"):
            qlen = len(self.queue)
            self.lookahead += 1
            try:
                p = self.ev(e["e"], pos)
            finally:
                self.lookahead -= 1
            del self.queue[qlen:]
            if k == "PosPred":
                return pos if p is not None else None
            return pos if p is None else None
        if k == "NodeTag":
            inner = e["e"]
            tag = e["tag"]
            if inner["k"] == "Opt":
                qlen = len(self.queue)
                p = self.ev(inner["e"], pos)
                if p is None:
                    del self.queue[qlen:]
                    return pos
                self.tag_last(tag)
                return p
            if inner["k"] == "Rep":
                return self.rep(inner["e"], pos, 0, None, tag)
            p = self.ev(inner, pos)
            if p is not None:
                self.tag_last(tag)
            return p
        raise Fail("unsupported grammar construct " + k)

    def rep(self, e, pos, lo, hi, tag):
        """e{lo,hi} with pest's skipping between repetitions; the whole repetition is one sequence"""
        qlen0 = len(self.queue)
        n = 0
        p = pos
        while hi is None or n < hi:
            qlen = len(self.queue)
            q = p if n == 0 else self.skip(p)
            q = self.ev(e, q)
            if q is None:
                del self.queue[qlen:]
                break
            if tag is not None:
                self.tag_last(tag)
            n += 1
            if q == p and n > lo:
                # no progress: pest's repeat would loop forever on an empty match only if the grammar allows it; stop
                p = q
                break
            p = q
        if n < lo:
            del self.queue[qlen0:]
            return None
        return p


def _ascii_lower(s):
    return "".join(chr(ord(c) + 32) if "A" <= c <= "Z" else c for c in s)
