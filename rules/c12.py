"""C12 Compiled output is itself a valid program with the same meaning.

Decides: PRINT-PARSE for Exp (Display, to_string_with_precedence, logic_operand_to_string),
SIGN-SPLIT (sign chosen by a tolerant predicate but magnitude printed unconditionally),
NUM-SPELL (f64 -> text sites must be guarded against / spell non-finite values),
G-NAMES (compiler-generated name templates are derivable from the grammar's variable rules).
Not decided: textual idempotence of the linear-model rendering as a whole.
"""
import re
from facts import norm, base_ty, walk, strip, sexp, callee_of
from interp import Interp, Var, Rope, Sym, ListV, Unknown, is_unknown
import printparse as PP
import c09
import c11
import grammar as G_

EXP = "parser::model_transformer::model::Exp"
TOLERANT = {"math::math_utils::float_lt", "math::math_utils::float_gt", "math::math_utils::float_le", "math::math_utils::float_ge",
            "math::math_utils::float_eq", "math::math_utils::float_ne"}


def to_exp(t):
    k = t[0]
    if k == "leaf":
        return Var(EXP + "::Variable", [Rope([t[1]])])
    if k == "bin":
        op = t[1]
        l, r = to_exp(t[2]), to_exp(t[3])
        if op in PP.ARITH:
            return Var(EXP + "::BinOp", [Var(c09.BINOP + "::" + op), l, r])
        if op in ("And", "Or"):
            return Var(EXP + "::" + op, [ListV([l, r])])
        return Var(EXP + "::" + op, [l, r])
    if k == "un":
        if t[1] == "Not":
            return Var(EXP + "::Not", [to_exp(t[2])])
        return Var(EXP + "::UnOp", [Var(c09.UNOP + "::" + t[1]), to_exp(t[2])])
    if k == "block":
        if t[1] == "abs":
            return Var(EXP + "::Abs", [to_exp(t[2][0])])
        return Var(EXP + "::" + t[1].capitalize(), [ListV([to_exp(x) for x in t[2]])])
    raise ValueError(k)


def check(F, R, Gm):
    reader = c11.make_reader(F, R, Gm)
    I = Interp(F)
    if reader is not None:
        fn = F.fn(EXP + "::to_string_with_precedence")
        where = F.loc(fn) if fn else "packages/rooc/src/parser/model_transformer/model.rs"
        for p in (EXP + "::to_string_with_precedence", "<%s as std::fmt::Display>::fmt" % EXP, "parser::model_transformer::model::logic_operand_to_string", EXP + "::is_leaf"):
            R.fn(p)
        render = lambda t: I.display(to_exp(t))
        pairs = PP.pair_trees(PP.BINOPS, PP.UNOPS)
        # block parents / children
        L = lambda n: ("leaf", n)
        for b in ("abs", "min", "max"):
            for c in PP.BINOPS:
                ch = ("bin", c, L("a"), L("b"))
                items = [ch] if b == "abs" else [ch, L("c")]
                pairs.append(("%s>:%s" % (b, c), ("block", b, items)))
            for p in PP.BINOPS:
                blk = ("block", b, [L("a")] if b == "abs" else [L("a"), L("b")])
                pairs.append(("%s>L:%s" % (p, b), ("bin", p, blk, L("c"))))
                pairs.append(("%s>R:%s" % (p, b), ("bin", p, L("c"), blk)))
        failing, n1 = PP.run(R, "PRINT-PARSE", "Exp", pairs, render, reader, where)
        triples = PP.triple_trees(PP.BINOPS)
        f3, n3 = PP.run(R, "PRINT-PARSE", "Exp", triples, render, reader, where, skip_if_pair_fails=failing)
        R.notes.append("PRINT-PARSE Exp: %d pairs, %d grandchild chains whose pairs all pass; failing pairs %s; failing chains %s" % (n1, n3, sorted(failing), sorted(f3)))
    sign_split(F, R)
    tolerant_in_printer(F, R)
    num_spell(F, R)
    g_names(F, R, Gm)
    t_domain_spell(F, R)


# ---- SIGN-SPLIT ---------------------------------------------------------------------

def _contains(node, target):
    return any(x is target for x in walk(node))


def sign_split_sites(F, fn_filter=None):
    """(fn, value_text, abs_node, tolerant_if or None, abs_inside_then)"""
    out = []
    for f in F.fn_list:
        if "body" not in f or (fn_filter and not fn_filter(f)):
            continue
        abs_calls = [n for n in walk(f["body"]) if n.get("k") == "MCall" and n.get("name") == "abs" and norm(n.get("callee") or "").endswith("f64::abs")]
        if not abs_calls:
            continue
        ifs = []
        for n in walk(f["body"]):
            if n.get("k") == "If":
                for c in walk(n["cond"]):
                    if c.get("k") == "Call" and norm(c.get("callee") or "") in TOLERANT:
                        args = [strip(a) for a in c["args"]]
                        if len(args) == 2 and args[1].get("k") == "Lit" and float(args[1].get("v", "1").replace("_", "")) == 0.0:
                            ifs.append((n, sexp(args[0]), norm(c["callee"])))
        for a in abs_calls:
            vtxt = sexp(strip(a["recv"]))
            matched = [(n, pred) for (n, t, pred) in ifs if t == vtxt]
            if not matched:
                out.append((f, vtxt, a, None, None, None))
            for n, pred in matched:
                out.append((f, vtxt, a, n, pred, _contains(n["then"], a)))
    return out


def sign_split(F, R, prop_filter=None, rule="SIGN-SPLIT"):
    """a magnitude `v.abs()` rendered next to a sign chosen by a *tolerant* test of v: on the
    not-negative branch of the tolerant test a small negative v loses its sign"""
    printers = lambda f: any(n.get("k") == "Macro" and n.get("name") in ("format", "write", "writeln") for n in walk(f["body"])) or any(
        n.get("k") == "MCall" and n.get("name") in ("to_string", "push_str") for n in walk(f["body"]))
    n = 0
    for (f, vtxt, a, ifn, pred, inside) in sign_split_sites(F, fn_filter=printers):
        if prop_filter and not prop_filter(f):
            continue
        n += 1
        R.fn(f["path"])
        key = "%s:%s" % (f["path"], vtxt)
        if ifn is None:
            R.ob(rule, key, True, F.loc(f, a), "`%s.abs()` is rendered; no tolerant sign test on the same value" % vtxt)
        else:
            R.ob(rule, key, inside, F.loc(f, a),
                 "sign of `%s` is chosen with the tolerant %s(.., 0.0) but `%s.abs()` is rendered also when that test is false: a value in (-1e-6, 0) prints with the wrong sign" % (vtxt, pred.rsplit("::", 1)[-1], vtxt))
    return n


def tolerant_in_printer(F, R, rule="EXACT-PRINT", prop_filter=None):
    """every use of a tolerant float predicate inside a function that renders numbers must be the
    accepted sign split (then: `- abs`, else: the raw value); anything else decides what is printed
    (a sign, or whether a coefficient is shown at all) with a tolerance while the digits are exact"""
    n = 0
    for f in F.fn_list:
        if "body" not in f or not f.get("file", "").startswith("src/transformers/"):
            continue
        if prop_filter and not prop_filter(f):
            continue
        renders = any(x.get("k") == "Macro" and x.get("name") in ("format", "write", "writeln") for x in walk(f["body"])) or any(x.get("k") == "MCall" and x["name"] == "to_string" for x in walk(f["body"]))
        if not renders:
            continue
        f64_rendered = bool(f64_render_sites(F, f)) or any(x.get("k") == "MCall" and x["name"] == "abs" for x in walk(f["body"]))
        if not f64_rendered:
            continue
        for c in walk(f["body"]):
            if c.get("k") == "Call" and norm(c.get("callee") or "") in TOLERANT:
                n += 1
                R.fn(f["path"])
                arg = sexp(strip(c["args"][0]))
                ok = False
                why = "tolerant test is not the condition of an if"
                for i in walk(f["body"]):
                    if i.get("k") == "If" and any(x is c for x in walk(i["cond"])) and i.get("else") is not None:
                        t, e = sexp(i["then"]), sexp(i["else"])
                        base = arg.replace(".abs()", "")
                        ok = (base + ".abs()") in t and base in e and ".abs()" not in e and strip(i["cond"]) is c and sexp(strip(c["args"][1])) == "0.0" and norm(c["callee"]).endswith("float_lt")
                        why = "then `%s` else `%s`" % (t[:50], e[:50])
                R.ob(rule, "%s:%s" % (f["path"], re.sub(r"\s+", "", sexp(c))[:60]), ok, F.loc(f, c),
                     "a printer decides with the tolerant `%s` while printing exact digits (%s): values within 1e-5 of the threshold are rendered as something else (wrong sign, or a coefficient like 1.000001 shown as 1)" % (sexp(c), why))
    R.count(rule + ".tolerant-calls", n)


# ---- NUM-SPELL ----------------------------------------------------------------------

# one named site, with the reason: lower bound of a NonNegativeReal can never be -inf, and is
# +inf only for an empty declared domain, which no compiled model carries
NUM_SPELL_EXEMPT = {("<math::math_enums::VariableType as std::fmt::Display>::fmt", "min"): "lower bound of NonNegativeReal is finite by construction"}
NUM_SPELL_FNS = [
    "<%s as std::fmt::Display>::fmt" % EXP,
    "<math::math_enums::VariableType as std::fmt::Display>::fmt",
]


def f64_render_sites(F, f):
    """expressions of type f64 (or &f64) that are turned into text in function f"""
    out = []
    for n in walk(f["body"]):
        if n.get("k") == "MCall" and n.get("name") == "to_string" and base_ty(F.ty(strip(n["recv"])) or "") == "f64":
            out.append(strip(n["recv"]))
        if n.get("k") == "Macro" and n.get("name") in ("format", "write", "writeln"):
            for a in n.get("args", []):
                if base_ty(F.ty(strip(a)) or "") == "f64":
                    out.append(strip(a))
    return out


def guarded_by_finiteness(f, site):
    """site lies in a branch of an If/Match that tests the same expression for infinity"""
    txt = sexp(site).lstrip("*")
    for n in walk(f["body"]):
        if n.get("k") == "If" and (_contains(n["then"], site) or (n.get("else") and _contains(n["else"], site))):
            ctxt = sexp(n["cond"])
            if txt in ctxt and ("INFINITY" in ctxt or "is_finite" in ctxt or "is_infinite" in ctxt):
                return True
    return False


def _arm_of(f, site):
    """name of the variant of the innermost-outermost match arm (on self) containing the site"""
    for n in walk(f["body"]):
        if n.get("k") == "Match":
            for arm in n["arms"]:
                if _contains(arm["body"], site):
                    p = arm["pat"]
                    while p.get("k") in ("PRef", "PDeref"):
                        p = p["pat"]
                    if p.get("path"):
                        return p["path"].rsplit("::", 1)[-1]
    return None


def num_spell(F, R):
    for p in NUM_SPELL_FNS:
        f = F.fn(p)
        if f is None:
            R.ob("NUM-SPELL", "anchor:" + p, False, "", "printer function not found")
            continue
        R.fn(p)
        for site in f64_render_sites(F, f):
            g = guarded_by_finiteness(f, site)
            key = "%s:%s" % (p, sexp(site))
            if (p, sexp(site)) in NUM_SPELL_EXEMPT and _arm_of(f, site) == "NonNegativeReal":
                R.notes.append("NUM-SPELL exempt %s: %s" % (key, NUM_SPELL_EXEMPT[(p, sexp(site))]))
                continue
            R.ob("NUM-SPELL", key, g, F.loc(f, site),
                 "f64 `%s` is rendered with the default float formatting, which spells non-finite values `inf`/`NaN`; the parser only knows `Infinity`/`MinusInfinity`" % sexp(site))


# ---- G-NAMES ------------------------------------------------------------------------

def name_templates(F):
    """format!-built names that start with `$` (auxiliary variables) or contain `__` (row-name
    de-duplication) anywhere in the transformers"""
    out = []
    for f in F.fn_list:
        if "body" not in f or not f.get("file", "").startswith("src/transformers/"):
            continue
        for n in walk(f["body"]):
            if n.get("k") == "Macro" and n.get("name") == "format":
                m = re.search(r'format!\s*\(\s*"((?:[^"\\]|\\.)*)"', n.get("snippet", ""))
                if not m:
                    continue
                t = m.group(1)
                if t.startswith("$") or "__{" in t or t.startswith("__"):
                    out.append((f, n, t))
    return out


def g_names(F, R, Gm):
    """every generated name template must be a `simple_variable` or a `compound_variable` whose
    `_`-separated bodies are simple_variable / number / underscore_literal fragments"""
    sv = G_.untag(Gm.expr("simple_variable"))
    dollar_ok = any(n.get("k") == "Str" and n.get("v") == "$" for n in walk(sv))
    R.ob("G-NAMES", "grammar:simple_variable-allows-$", dollar_ok and Gm.ty("simple_variable") == "Atomic", "grammar.pest:simple_variable", "auxiliary names start with `$`; simple_variable must accept an optional leading `$`")
    ul = Gm.rules.get("underscore_literal")
    R.ob("G-NAMES", "grammar:underscore_literal", ul is not None and any(n.get("k") == "Ident" and n.get("v") == "underscore_literal" for n in walk(Gm.expr("compound_variable_body"))), "grammar.pest:compound_variable_body",
         "`__n` fragments of de-duplicated row names need the underscore_literal alternative")
    body_alts = [G_.untag(a).get("v") for a in G_.choices(G_.untag(G_.seq(G_.untag(G_.choices(G_.untag(Gm.expr("compound_variable_body")))[0]))[0]))] if "compound_variable_body" in Gm.rules else []
    R.table("compound_variable_body_first_alternatives", body_alts)
    for f, n, t in name_templates(F):
        R.fn(f["path"])
        insts = _instantiate(F, n, t)
        ok = insts is not None and all(_derivable(x) for x in insts)
        R.ob("G-NAMES", "%s:%s" % (f["path"], t), ok, F.loc(f, n), "generated name template %r instantiates to %r, which must re-parse as one variable" % (t, insts))


def _instantiate(F, node, tmpl):
    """replace each placeholder by a representative of its argument's type: integers -> 7,
    strings -> an identifier (and, for a leading fragment, also an indexed name)"""
    from interp import parse_format_snippet, split_template
    parts = parse_format_snippet(node.get("snippet", ""))
    if not parts:
        return None
    explicit = parts[1:]
    args = node.get("args", [])
    pos = 0
    outs = [""]
    for piece in split_template(tmpl):
        if piece[0] == "lit":
            outs = [o + piece[1] for o in outs]
            continue
        nm = piece[1]
        arg = None
        if nm is None:
            if pos < len(explicit) and pos < len(args):
                arg = args[pos]
            pos += 1
        elif nm.isdigit():
            arg = args[int(nm)] if int(nm) < len(args) else None
        else:
            for a in args[len(explicit):]:
                if a.get("k") == "Path" and a.get("name") == nm:
                    arg = a
        if arg is None:
            return None
        ty = base_ty(F.ty(strip(arg)) or "")
        if ty in ("usize", "u64", "u32", "i32", "i64", "u8", "u16", "isize"):
            reps = ["7"]
        elif ty in ("str", "std::string::String", "alloc::string::String"):
            reps = ["ab", "ab_c_1"] if all(o == "" for o in outs) else ["ab"]
        else:
            return None
        outs = [o + r for o in outs for r in reps]
    return outs


_SIMPLE = re.compile(r"^\$?_*[A-Za-z][A-Za-z0-9]*$")


def _derivable(name):
    """mirror of the grammar shape checked above: simple_variable, or simple_variable? ("_" body)+
    with body = underscore_literal | simple_variable | number"""
    if _SIMPLE.match(name):
        return True
    # compound: split on single underscores that separate bodies; an underscore_literal body starts with "_"
    m = re.match(r"^(\$?_*[A-Za-z][A-Za-z0-9]*)?((?:_(?:_+[A-Za-z0-9]+|\$?_*[A-Za-z][A-Za-z0-9]*|[0-9]+(?:\.[0-9]+)?))+)$", name)
    return bool(m)


# ---- NUM-FORMAT ---------------------------------------------------------------------------------------
# The grammar's number rule has no exponent and no `inf`: a float that reaches re-parsed text must be written with the
# decimal `{}` / `{:.N}` formatting (Rust's Display for f64 never uses an exponent; Debug and {:e} do).

def printer_reach(F, roots):
    """functions reachable from the given printer functions on the typed HIR, following resolved local callees and, for
    every value that is formatted (`{}` argument, `.to_string()` receiver), the Display impl of every local type named in
    its type"""
    import re as _re
    from interp import Interp
    disp = Interp(F).display_impls
    seen, todo = set(), [r for r in roots if F.fn(r) is not None]
    while todo:
        p = todo.pop()
        if p in seen:
            continue
        seen.add(p)
        f = F.fn(p)
        if f is None or "body" not in f:
            continue
        for n in walk(f["body"]):
            k = n.get("k")
            if k in ("Call", "MCall"):
                c = n.get("resolved") or n.get("callee")
                if c and F.fn(c) is not None:
                    todo.append(F.fn(c)["path"])
            if k == "Path" and n.get("dk") in ("Fn", "AssocFn") and n.get("path") and F.fn(n["path"]) is not None:
                todo.append(F.fn(n["path"])["path"])
            vals = []
            if k == "Macro" and n.get("name") in ("format", "write", "writeln", "print", "println"):
                vals = n.get("args", [])
            if k == "MCall" and n.get("name") == "to_string":
                vals = [n["recv"]]
            for a in vals:
                ty = F.ty(strip(a)) or ""
                for t in _re.findall(r"[A-Za-z_][A-Za-z0-9_:]*", ty):
                    if norm(t) in disp:
                        todo.append(disp[norm(t)])
    return seen


def placeholder_args(node):
    """[(hir arg node, format spec)] for every placeholder of a format-family macro node (None when not understood)"""
    from interp import parse_format_snippet, unescape_rust_str, split_template
    import re as _re
    parts = parse_format_snippet(node.get("snippet", ""))
    if parts is None:
        return None
    hir_args = list(node.get("args", []))
    if node.get("name") in ("write", "writeln"):
        parts = parts[1:]
        hir_args = hir_args[1:]
    if not parts:
        return []
    tmpl = unescape_rust_str(parts[0])
    if tmpl is None:
        return None
    explicit = parts[1:]
    named = {}
    for i, src in enumerate(explicit):
        m = _re.match(r"^([A-Za-z_][A-Za-z0-9_]*)\s*=[^=]", src)
        if m:
            named[m.group(1)] = i
    captured = hir_args[len(explicit):]
    out = []
    pos = 0
    for piece in split_template(tmpl):
        if piece[0] == "lit":
            continue
        _, nm, spec = piece
        idx = None
        node_ = None
        if nm is None:
            idx = pos
            pos += 1
        elif nm.isdigit():
            idx = int(nm)
        elif nm in named:
            idx = named[nm]
        else:
            for c in captured:
                if strip(c).get("k") == "Path" and strip(c).get("name") == nm:
                    node_ = c
        if idx is not None and idx < len(hir_args):
            node_ = hir_args[idx]
        if node_ is None:
            return None
        out.append((node_, spec or ""))
    return out


# `{:?}` inside a printer whose text is re-parsed: Debug equals Display only for integers, booleans and vectors of them.
# Everything else is a violation, except the variants below, which no source text can produce (checked: no function reachable
# from the parse-tree converters constructs them), so they never reach the formatter of a parsed program.
DEBUG_SAFE = re.compile(r"^(&|mut )*(std::vec::Vec<)?(i64|u64|i32|u32|usize|isize|bool)>?$")
DEBUG_EXEMPT_VARIANTS = {
    "primitives::iterable::IterableKind::Edges": "edges exist only as results of builtin functions; the grammar has no edge-array literal",
    "primitives::iterable::IterableKind::Nodes": "nodes exist only as results of builtin functions",
    "primitives::iterable::IterableKind::Tuples": "tuples exist only as results of builtin functions (enumerate, zip, edges)",
    "primitives::primitive::Primitive::Tuple": "tuples exist only as results of builtin functions",
}


def constructed_by_converters(F):
    """enum variants constructed in functions reachable (typed HIR, resolved local callees) from parse_problem"""
    seen, todo, out = set(), ["parser::pre_model::parse_problem"], set()
    while todo:
        p = todo.pop()
        f = F.fn(p)
        if f is None or f["path"] in seen or "body" not in f:
            continue
        seen.add(f["path"])
        for n in walk(f["body"]):
            if n.get("k") in ("Call", "MCall"):
                c = n.get("resolved") or n.get("callee")
                if n.get("dk") == "Variant":
                    out.add(norm(n.get("callee") or ""))
                elif c and F.fn(c) is not None:
                    todo.append(c)
            if n.get("k") == "Path" and n.get("dk") == "Variant":
                out.add(norm(n.get("path") or ""))
            if n.get("k") == "Path" and n.get("dk") in ("Fn", "AssocFn") and n.get("path") and F.fn(n["path"]) is not None:
                todo.append(n["path"])  # a function passed as a value (`.map(parse_exp)`)
            if n.get("k") == "Struct" and n.get("path"):
                out.add(norm(n["path"]))
    return out, seen


def debug_in_printer(F, R, roots, rule="NUM-FORMAT"):
    reach = printer_reach(F, roots)
    built, conv = constructed_by_converters(F)
    R.count(rule + ".converter-functions", len(conv))
    # an array literal becomes IterableKind::Xs only through the kind of its elements (flatten_primitive_array_values
    # dispatches on the element kind), so the exemption rests on the element variants the converters can build
    element_of = {"Edges": "GraphEdge", "Nodes": "GraphNode", "Tuples": "Tuple", "Tuple": "Tuple"}
    for v, why in DEBUG_EXEMPT_VARIANTS.items():
        elem = "primitives::primitive::Primitive::" + element_of[v.rsplit("::", 1)[-1]]
        R.ob(rule, "exempt:" + "::".join(v.rsplit("::", 2)[-2:]), elem not in built and len(conv) >= 40, "packages/rooc/src/parser/rules_parser", "exemption `%s` holds only while no function reachable from the converters constructs %s (%d functions scanned)" % (why, elem, len(conv)))
    n = 0
    for p in sorted(reach):
        f = F.fn(p)
        if f is None or "body" not in f:
            continue
        for m in walk(f["body"]):
            if m.get("k") != "Macro" or m.get("name") not in ("format", "write", "writeln", "print", "println"):
                continue
            if "?" not in (m.get("snippet") or ""):
                continue
            pa = placeholder_args(m)
            if pa is None:
                R.ob(rule, "%s:unparsable-debug" % p, False, F.loc(f, m), "format string with `?` not understood")
                continue
            for a, spec in pa:
                if "?" not in spec:
                    continue
                n += 1
                ty = F.ty(strip(a)) or ""
                ok = DEBUG_SAFE.match(ty.replace(" ", "")) is not None
                why = "Debug of `%s` equals its Display" % ty
                if not ok:
                    arm = _arm_path_of(f, m)
                    if arm in DEBUG_EXEMPT_VARIANTS:
                        ok, why = True, "exempt: " + DEBUG_EXEMPT_VARIANTS[arm]
                    else:
                        why = "`{:%s}` renders a %s with its Debug form inside a printer whose text is parsed again (variant names, re-escaped strings, float exponents)" % (spec, ty)
                R.ob(rule, "%s:debug:%s" % (p, sexp(strip(a))), ok, F.loc(f, m), why)
    R.count(rule + ".debug-sites", n)


def _arm_path_of(f, site):
    """full path of the variant matched by the innermost match arm containing the site"""
    best = None
    for n in walk(f["body"]):
        if n.get("k") == "Match":
            for arm in n["arms"]:
                if _contains(arm["body"], site):
                    p = arm["pat"]
                    while p.get("k") in ("PRef", "PDeref"):
                        p = p["pat"]
                    if p.get("path"):
                        best = norm(p["path"])
    return best


def num_format(F, R, roots, rule="NUM-FORMAT"):
    debug_in_printer(F, R, roots, rule)
    reach = printer_reach(F, roots)
    R.count(rule + ".printer-functions", len(reach))
    n_sites = 0
    for p in sorted(reach):
        f = F.fn(p)
        if f is None or "body" not in f:
            continue
        for m in walk(f["body"]):
            if m.get("k") != "Macro" or m.get("name") not in ("format", "write", "writeln", "print", "println"):
                continue
            has_float = any(base_ty(F.ty(strip(a)) or "") in ("f64", "f32") for a in m.get("args", []))
            if not has_float:
                continue
            pa = placeholder_args(m)
            if pa is None:
                R.ob(rule, "%s:unparsable" % p, False, F.loc(f, m), "format string not understood at a float rendering site")
                continue
            for a, spec in pa:
                if base_ty(F.ty(strip(a)) or "") not in ("f64", "f32"):
                    continue
                n_sites += 1
                R.ob(rule, "%s:%s" % (p, sexp(strip(a))), _re_spec_ok(spec), F.loc(f, m), "float `%s` is written with `{%s}`: only the decimal Display form (optionally with a precision) is inside the grammar's number rule; Debug/LowerExp may print an exponent" % (sexp(strip(a)), (":" + spec) if spec else ""))
    R.count(rule + ".float-sites", n_sites)


def _re_spec_ok(spec):
    import re as _re
    return _re.fullmatch(r"(\+)?(\.\d+)?", spec or "") is not None


# ---- T-DOMAIN-SPELL -----------------------------------------------------------------------------------
# Display for VariableType touches its bounds only through comparisons with 0, +inf, -inf (and is_infinite): it is
# evaluated by the table interpreter on one representative of every class, and every word it writes for an infinite bound
# must be a standard-library constant whose value (extracted from the constant table) is that bound.

def std_number_constants(F):
    """name -> float for the numeric constants of the language's standard library (extracted from the typed HIR)"""
    from interp import Interp, Var, Rope, is_unknown
    I = Interp(F)
    out = {}
    for p, f in F.fns.items():
        if "rooc_std" not in p or "body" not in f:
            continue
        for n in walk(f["body"]):
            if n.get("k") == "Call" and norm(n.get("resolved") or n.get("callee") or "").endswith("Constant::from_primitive") and len(n["args"]) == 2:
                nm = I.ev(n["args"][0], {})
                v = I.ev(n["args"][1], {})
                nm = nm.text() if isinstance(nm, Rope) else nm
                if isinstance(nm, str) and isinstance(v, Var) and v.path.endswith("Primitive::Number") and isinstance(v.args[0], float):
                    out[nm] = v.args[0]
    return out


def t_domain_spell(F, R):
    from interp import Interp, Var, Rope, Leaf, is_unknown
    VT = "math::math_enums::VariableType"
    consts = std_number_constants(F)
    inf = float("inf")
    R.ob("T-DOMAIN-SPELL", "constants", inf in consts.values() and -inf in consts.values(), "packages/rooc/src/runtime_builtin/rooc_std.rs", "standard constants for the infinities: %s" % {k: v for k, v in consts.items() if abs(v) == inf})
    I = Interp(F)
    dp = I.display_impls.get(norm(VT))
    if not R.ob("T-DOMAIN-SPELL", "anchor", dp is not None, "packages/rooc/src/math/math_enums.rs", "Display for VariableType found"):
        return
    R.fn(dp)
    reps = [-inf, -1.5, 0.0, 2.5, inf]
    for ctor, default in (("Real", (-inf, inf)), ("NonNegativeReal", (0.0, inf))):
        for a in reps:
            for b in reps:
                if a > b or (ctor == "NonNegativeReal" and a < 0) or a == inf or b == -inf:
                    continue  # only domains that contain a real number
                r = I.display(Var("%s::%s" % (VT, ctor), [a, b]))
                key = "%s(%r,%r)" % (ctor, a, b)
                if is_unknown(r):
                    R.ob("T-DOMAIN-SPELL", key, False, F.loc(F.fn(dp)), "not evaluable: %r" % (r,))
                    continue
                txt = "".join(x if isinstance(x, str) else "<%s>" % x.name for x in r.pieces)
                want = []
                for v in (a, b):
                    if abs(v) == inf:
                        want.append([k for k, c in consts.items() if c == v])
                    else:
                        # a finite bound: the number itself, as the float placeholder or as a decimal literal for it
                        lits = ["<f64:%r>" % v] + ([str(int(v)), repr(v)] if v == int(v) else [repr(v)])
                        if v == 0:
                            lits.append("0")
                        want.append(lits)
                ok = any(txt == "%s(%s, %s)" % (ctor, x, y) for x in want[0] for y in want[1]) or (txt == ctor and (a, b) == default)
                R.ob("T-DOMAIN-SPELL", key, ok, F.loc(F.fn(dp)), "domain %s with bounds (%r, %r) is written `%s`; each infinite bound must be the constant that denotes it (%s), and the bare type name stands for %s only" % (ctor, a, b, txt, want, default))
