"""Family G: the pest grammar as parsed by pest_meta (grammardump), plus PEG structure lints."""
import json
import os
import subprocess
import facts

DUMP = os.path.join(facts.VERIF, "grammardump", "target", "release", "grammardump")
GRAMMAR_FILE = os.path.join(facts.CRATE_DIR, "src", "parser", "grammar.pest")


class Grammar:
    def __init__(self, path=None):
        path = path or GRAMMAR_FILE
        if not os.path.exists(DUMP):
            raise SystemExit("grammardump missing: run ./setup.sh")
        r = subprocess.run([DUMP, path], stdout=subprocess.PIPE, stderr=subprocess.PIPE, text=True)
        if r.returncode != 0:
            raise facts.BuildError("grammar does not parse with pest_meta: " + r.stderr[:500])
        d = json.loads(r.stdout)
        self.rules = {x["name"]: x for x in d["rules"]}
        self.order = [x["name"] for x in d["rules"]]

    def expr(self, name):
        return self.rules[name]["expr"]

    def ty(self, name):
        return self.rules[name]["ty"]


def choices(e):
    """flatten a (right-nested) ordered choice into its alternatives"""
    if e["k"] == "Choice":
        return choices(e["a"]) + choices(e["b"])
    return [e]


def seq(e):
    if e["k"] == "Seq":
        return seq(e["a"]) + seq(e["b"])
    return [e]


def untag(e):
    while e["k"] == "NodeTag":
        e = e["e"]
    return e


def literal_prefixes(G, e, depth=0, seen=()):
    """set of literal strings an expression can *start* with; None in the set = cannot tell
    (starts with a non-literal such as a character class).  Case-insensitive literals are
    reported lower-cased with a leading '^'."""
    e = untag(e)
    k = e["k"]
    if depth > 12:
        return {None}
    if k == "Str":
        return {e["v"]}
    if k == "Insens":
        return {"^" + e["v"].lower()}
    if k == "Ident":
        name = e["v"]
        if name in G.rules and name not in seen:
            return literal_prefixes(G, G.expr(name), depth + 1, seen + (name,))
        return {None}
    if k == "Choice":
        out = set()
        for c in choices(e):
            out |= literal_prefixes(G, c, depth + 1, seen)
        return out
    if k == "Seq":
        parts = seq(e)
        out = set()
        for i, p in enumerate(parts):
            p = untag(p)
            if p["k"] in ("NegPred", "PosPred"):
                continue
            first = literal_prefixes(G, p, depth + 1, seen)
            if p["k"] in ("Opt", "Rep"):
                out |= first
                continue
            out |= first
            break
        return out
    if k in ("Opt", "Rep", "RepOnce", "RepMin", "RepMax", "RepMinMax", "RepExact", "Push"):
        return literal_prefixes(G, e["e"], depth + 1, seen)
    return {None}


def exact_literals(G, e, depth=0):
    """if the expression matches only fixed literals (optionally followed by predicates),
    return the list [(literal, has_boundary_lookahead)] in choice order; else None"""
    e = untag(e)
    k = e["k"]
    if depth > 8:
        return None
    if k == "Str":
        return [(e["v"], False)]
    if k == "Insens":
        return [("^" + e["v"].lower(), False)]
    if k == "Choice":
        out = []
        for c in choices(e):
            r = exact_literals(G, c, depth + 1)
            if r is None:
                return None
            out.extend(r)
        return out
    if k == "Seq":
        parts = [untag(p) for p in seq(e)]
        lits = [p for p in parts if p["k"] not in ("NegPred", "PosPred")]
        preds = [p for p in parts if p["k"] == "NegPred"]
        if len(lits) != 1:
            return None
        r = exact_literals(G, lits[0], depth + 1)
        if r is None:
            return None
        boundary = any(is_ident_boundary(G, p) for p in preds) and parts[-1]["k"] == "NegPred"
        return [(l, b or boundary) for (l, b) in r]
    if k == "Ident" and e["v"] in G.rules:
        return exact_literals(G, G.expr(e["v"]), depth + 1)
    return None


def is_ident_boundary(G, pred):
    """NegPred over (LETTER | NUMBER | "_") (in any order)"""
    if pred["k"] != "NegPred":
        return False
    alts = choices(untag(pred["e"]))
    names = set()
    for a in alts:
        a = untag(a)
        if a["k"] == "Ident":
            names.add(a["v"])
        elif a["k"] == "Str":
            names.add('"' + a["v"] + '"')
    return {"LETTER", "NUMBER", '"_"'} <= names


def shadowed_alternatives(G, rule):
    """ordered choice: an earlier alternative whose literal is a proper prefix of a later
    alternative's literal shadows it (PEG commits to the first match).  Returns list of
    (earlier, later) literal pairs.  Alternatives guarded by an identifier boundary do not shadow
    longer identifiers, but still shadow a longer *symbolic* literal."""
    e = untag(G.expr(rule))
    alts = choices(e)
    firsts = []
    for a in alts:
        ex = exact_literals(G, a)
        if ex is not None:
            firsts.append((a, [(l, b) for (l, b) in ex], True))
        else:
            firsts.append((a, [(l, False) for l in literal_prefixes(G, a)], False))
    out = []
    for i in range(len(firsts)):
        ai, li, exact_i = firsts[i]
        if not exact_i:
            continue  # only a fully literal earlier alternative is certain to succeed on its prefix
        for j in range(i + 1, len(firsts)):
            aj, lj, _ = firsts[j]
            for (x, bx) in li:
                for (y, _) in lj:
                    if x is None or y is None:
                        continue
                    if y != x and y.startswith(x):
                        # a keyword with an identifier boundary does not match when the next char
                        # continues an identifier; it does when the continuation is symbolic
                        nxt = y[len(x)]
                        if bx and (nxt.isalnum() or nxt == "_"):
                            continue
                        out.append((x, y))
    return out
