"""Facts: build (through the factgen rustc driver) and load the resolved program of /repo.

Nothing here runs rooc; `cargo +nightly check` only type-checks the crate while the driver
dumps items, typed HIR and MIR.
"""
import hashlib
import json
import os
import re
import shutil
import subprocess
import sys
import time

VERIF = os.path.dirname(os.path.dirname(os.path.abspath(__file__)))
REPO = os.environ.get("VERIF_REPO", "/repo")
CRATE_DIR = os.path.join(REPO, "packages", "rooc")
CACHE = os.environ.get("VERIF_CACHE", os.path.join(VERIF, ".cache"))   # overridden only by development tooling that analyses several scratch trees at once
DRIVER = os.path.join(VERIF, "factgen", "target", "release", "factgen")

CONFIGS = {
    # name -> cargo feature args
    "default": [],
    "microlp": ["--no-default-features", "--features", "microlp"],
    "clarabel": ["--no-default-features", "--features", "clarabel"],
}


def tree_hash(extra_dirs=()):
    h = hashlib.sha256()
    roots = [os.path.join(CRATE_DIR, "src")] + list(extra_dirs)
    files = []
    for root in roots:
        for dp, dn, fn in os.walk(root):
            dn.sort()
            if "target" in dn:
                dn.remove("target")
            for f in sorted(fn):
                files.append(os.path.join(dp, f))
    for f in ("Cargo.toml", "Cargo.lock"):
        p = os.path.join(CRATE_DIR, f)
        if os.path.exists(p):
            files.append(p)
    for p in files:
        h.update(p.encode())
        h.update(b"\0")
        with open(p, "rb") as fh:
            h.update(fh.read())
        h.update(b"\0")
    # the driver itself is part of the key
    if os.path.exists(DRIVER):
        st = os.stat(DRIVER)
        h.update(("%d:%d" % (st.st_size, int(st.st_mtime))).encode())
    return h.hexdigest()[:24]


def nightly_sysroot():
    return subprocess.check_output(["rustc", "+nightly", "--print", "sysroot"], text=True).strip()


def _env(out_dir, crates, tag, suffix=""):
    env = dict(os.environ)
    env["LD_LIBRARY_PATH"] = os.path.join(nightly_sysroot(), "lib") + ":" + env.get("LD_LIBRARY_PATH", "")
    env["RUSTFLAGS"] = "-Zmir-opt-level=0 -Awarnings"
    env["RUSTC_WRAPPER"] = DRIVER
    env.pop("RUSTC_WORKSPACE_WRAPPER", None)
    env["FACTGEN_OUT"] = out_dir
    env["FACTGEN_CRATES"] = crates
    env["FACTGEN_TAG"] = tag
    env["FACTGEN_SUFFIX"] = suffix
    env["CARGO_NET_OFFLINE"] = "true"
    return env


def _drop_fingerprints(target_dir, names):
    fp = os.path.join(target_dir, "debug", ".fingerprint")
    if os.path.isdir(fp):
        for d in os.listdir(fp):
            if any(d.startswith(n + "-") for n in names):
                shutil.rmtree(os.path.join(fp, d), ignore_errors=True)


def build_facts(config="default", verbose=False):
    """(re)generate facts for /repo's current working tree; returns path of facts file"""
    if not os.path.exists(DRIVER):
        raise SystemExit("factgen driver missing: run ./setup.sh")
    tag = tree_hash()
    out_dir = os.path.join(CACHE, "facts", config)
    os.makedirs(out_dir, exist_ok=True)
    path = os.path.join(out_dir, "rooc.facts.json")
    stamp = os.path.join(out_dir, "rooc.tag")
    if os.path.exists(path) and os.path.exists(stamp) and open(stamp).read().strip() == tag:
        return path, tag, False
    target = os.path.join(CACHE, "target-" + config)
    os.makedirs(target, exist_ok=True)
    _drop_fingerprints(target, ["rooc"])
    if os.path.exists(path):
        os.remove(path)
    env = _env(out_dir, "rooc", tag)
    env["CARGO_TARGET_DIR"] = target
    cmd = ["cargo", "+nightly", "check", "--offline", "--lib"] + CONFIGS[config]
    t0 = time.time()
    r = subprocess.run(cmd, cwd=CRATE_DIR, env=env, stdout=subprocess.PIPE, stderr=subprocess.STDOUT, text=True)
    if verbose:
        sys.stderr.write(r.stdout[-2000:])
    if r.returncode != 0 or not os.path.exists(path):
        sys.stderr.write(r.stdout[-6000:])
        raise BuildError("cargo check with factgen failed for config %s (rc=%s)" % (config, r.returncode))
    # assert the facts file was written by this invocation
    with open(path) as fh:
        head = fh.read(200)
    if tag not in head:
        raise BuildError("facts file not written by this invocation (tag mismatch)")
    with open(stamp, "w") as fh:
        fh.write(tag)
    if verbose:
        sys.stderr.write("facts[%s] regenerated in %.1fs\n" % (config, time.time() - t0))
    return path, tag, True


def build_aux_facts(crate, verbose=False):
    """facts for a harness crate under /verif (witness, fixtures) that is only compiled, never run"""
    cdir = os.path.join(VERIF, crate)
    tag = tree_hash(extra_dirs=[os.path.join(cdir, "src")])
    out_dir = os.path.join(CACHE, "facts", crate)
    os.makedirs(out_dir, exist_ok=True)
    path = os.path.join(out_dir, crate + ".facts.json")
    stamp = os.path.join(out_dir, crate + ".tag")
    if os.path.exists(path) and os.path.exists(stamp) and open(stamp).read().strip() == tag:
        return path, tag, False
    target = os.path.join(CACHE, "target-" + crate)
    os.makedirs(target, exist_ok=True)
    _drop_fingerprints(target, [crate, "rooc"])
    if os.path.exists(path):
        os.remove(path)
    # harness crates path-depend on /repo: they need its lock file
    lock_src = os.path.join(CRATE_DIR, "Cargo.lock")
    env = _env(out_dir, crate, tag)
    env["CARGO_TARGET_DIR"] = target
    cmd = ["cargo", "+nightly", "check", "--offline", "--lib"]
    r = subprocess.run(cmd, cwd=cdir, env=env, stdout=subprocess.PIPE, stderr=subprocess.STDOUT, text=True)
    if r.returncode != 0 or not os.path.exists(path):
        sys.stderr.write(r.stdout[-6000:])
        raise BuildError("cargo check with factgen failed for harness crate %s" % crate)
    with open(stamp, "w") as fh:
        fh.write(tag)
    return path, tag, True


class BuildError(Exception):
    pass


_GEN = re.compile(r"::<[^<>]*(?:<[^<>]*(?:<[^<>]*>[^<>]*)*>[^<>]*)*>")


def norm(path):
    """strip generic arguments from a def path: `Option::<T>::unwrap` -> `Option::unwrap`"""
    if path is None:
        return None
    prev = None
    while prev != path:
        prev = path
        path = _GEN.sub(lambda m: m.group(0) if m.group(0).startswith("::<impl ") else "", path)
    return _PRELUDE.get(path, path)


_PRELUDE = {
    "std::prelude::v1::Ok": "std::result::Result::Ok",
    "std::prelude::v1::Err": "std::result::Result::Err",
    "std::prelude::v1::Some": "std::option::Option::Some",
    "std::prelude::v1::None": "std::option::Option::None",
    "core::result::Result::Ok": "std::result::Result::Ok",
    "core::result::Result::Err": "std::result::Result::Err",
    "core::option::Option::Some": "std::option::Option::Some",
    "core::option::Option::None": "std::option::Option::None",
}


def base_ty(t):
    """`&mut utils::Spanned<T>` -> `utils::Spanned` (drop references and generic arguments)"""
    if t is None:
        return None
    t = t.strip()
    while t.startswith("&"):
        t = t[1:].strip()
        if t.startswith("'"):
            t = t.split(" ", 1)[1] if " " in t else t
        if t.startswith("mut "):
            t = t[4:].strip()
    if t.startswith("<"):
        return t
    out = ""
    depth = 0
    for c in t:
        if c == "<":
            depth += 1
        elif c == ">":
            depth -= 1
        elif depth == 0:
            out += c
    return out.replace("::::", "::").rstrip(":")


class Facts:
    def __init__(self, path):
        with open(path) as fh:
            d = json.load(fh)
        self.raw = d
        self.path = path
        self.crate = d["crate"]
        self.tag = d.get("tag", "")
        self.features = d.get("features", [])
        self.types = d["types"]
        self.items = d["items"]
        self.fns = {}
        for f in d["fns"]:
            self.fns.setdefault(f["path"], f)
        self.fn_list = d["fns"]
        self.mir = {}
        for m in d["mir"]:
            self.mir.setdefault(m["path"], m)
        self.mir_list = d["mir"]
        self.enums = {e["path"]: e for e in self.items["enums"]}
        self.structs = {e["path"]: e for e in self.items["structs"]}
        self.counts = {
            "body_owners": d["n_body_owners"],
            "hir_bodies": d["n_hir_bodies"],
            "mir_bodies": d["n_mir_bodies"],
        }

    def ty(self, node):
        t = node.get("t")
        return self.types[t] if t is not None else None

    def tyi(self, i):
        return self.types[i] if i is not None else None

    def fn(self, path):
        return self.fns.get(path)

    def variants(self, enum_path):
        e = self.enums.get(enum_path)
        return [v["name"] for v in e["variants"]] if e else None

    def loc(self, fn, node=None):
        f = fn if isinstance(fn, dict) else self.fns.get(fn, {})
        line = (node or {}).get("l") or f.get("line")
        return "%s:%s" % (os.path.join("packages/rooc", f.get("file", "?")), line)

    def find_fns(self, pred):
        return [f for f in self.fn_list if pred(f)]

    def impls_of(self, trait_path):
        return [i for i in self.items["impls"] if i.get("trait") == trait_path]


def children(node):
    """direct child nodes (dicts with 'k') of a HIR node, in source order"""
    for key, v in node.items():
        if key in ("t", "l", "k"):
            continue
        if isinstance(v, dict):
            yield v
        elif isinstance(v, list):
            for x in v:
                if isinstance(x, dict):
                    yield x


def walk(node):
    """pre-order traversal over all nested dict nodes (expressions, patterns, arms, stmts)"""
    stack = [node]
    while stack:
        n = stack.pop()
        yield n
        ch = list(children(n))
        ch.reverse()
        stack.extend(ch)


def walk_exprs(node, kinds=None):
    for n in walk(node):
        k = n.get("k")
        if k is None or k.startswith("P"):
            if k != "Path":
                continue
        if kinds is None or k in kinds:
            yield n


def callee_of(n):
    """normalised resolved callee of a Call/MCall/Binary/Unary/Index node (impl item if resolved)"""
    if n.get("k") in ("Call", "MCall", "Binary", "Unary", "Index", "AssignOp"):
        return norm(n.get("resolved") or n.get("callee"))
    return None


def trait_callee_of(n):
    if n.get("k") in ("Call", "MCall", "Binary", "Unary", "Index", "AssignOp"):
        return norm(n.get("callee"))
    return None


def strip(n):
    """see through blocks without statements, references, derefs, DropTemps-like wrappers"""
    while True:
        k = n.get("k")
        if k == "Block" and not n.get("stmts") and n.get("e"):
            n = n["e"]
        elif k == "Ref":
            n = n["a"]
        elif k == "Unary" and n.get("op") == "*":
            n = n["a"]
        elif k == "MCall" and n.get("name") in ("clone", "to_owned", "as_ref", "borrow", "deref", "as_str", "to_string", "into") and not n.get("args") and False:
            n = n["recv"]
        else:
            return n


def sexp(n, depth=0, maxdepth=40):
    """compact one-line S-expression rendering of a HIR node (for reports and debugging)"""
    if n is None:
        return "-"
    if depth > maxdepth:
        return "..."
    k = n.get("k")
    r = lambda x: sexp(x, depth + 1, maxdepth)
    if k == "Path":
        return n.get("name") or n.get("path") or "?"
    if k == "Lit":
        return repr(n.get("v")) if n.get("lk") == "str" else str(n.get("v"))
    if k == "Call":
        f = n.get("callee") or ("(" + r(n["f"]) + ")")
        return "%s(%s)" % (short(f), ", ".join(r(a) for a in n["args"]))
    if k == "MCall":
        return "%s.%s(%s)" % (r(n["recv"]), n["name"], ", ".join(r(a) for a in n["args"]))
    if k == "Binary":
        return "(%s %s %s)" % (r(n["a"]), n["op"], r(n["b"]))
    if k == "Unary":
        return "%s%s" % (n["op"], r(n["a"]))
    if k == "Ref":
        return "&" + r(n["a"])
    if k == "Field":
        return "%s.%s" % (r(n["a"]), n["name"])
    if k == "Index":
        return "%s[%s]" % (r(n["a"]), r(n["i"]))
    if k == "Block":
        parts = [r(s) for s in n.get("stmts", [])]
        if n.get("e"):
            parts.append(r(n["e"]))
        return "{" + "; ".join(parts) + "}"
    if k == "Let":
        return "let %s = %s" % (r(n["pat"]), r(n.get("init")))
    if k in ("Expr", "Semi"):
        return r(n["e"])
    if k == "If":
        return "if %s %s else %s" % (r(n["cond"]), r(n["then"]), r(n.get("else")))
    if k == "Match":
        return "match %s {%s}" % (r(n["scrut"]), " | ".join("%s%s => %s" % (r(a["pat"]), (" if " + r(a["guard"])) if a.get("guard") else "", r(a["body"])) for a in n["arms"]))
    if k == "Macro":
        return n.get("snippet", n.get("name") + "!")
    if k == "Closure":
        return "|%s| %s" % (", ".join(r(p) for p in n["params"]), r(n["body"]))
    if k == "Struct":
        return "%s{%s}" % (short(n.get("path", "?")), ", ".join("%s: %s" % (f["name"], r(f["e"])) for f in n["fields"]))
    if k == "Try":
        return r(n["e"]) + "?"
    if k == "Tup":
        return "(" + ", ".join(r(x) for x in n["es"]) + ")"
    if k == "Array":
        return "[" + ", ".join(r(x) for x in n["es"]) + "]"
    if k == "Ret":
        return "return " + r(n.get("e"))
    if k == "Cast":
        return "(%s as _)" % r(n["a"])
    if k == "Assign":
        return "%s = %s" % (r(n["lhs"]), r(n["rhs"]))
    if k == "AssignOp":
        return "%s %s %s" % (r(n["lhs"]), n["op"], r(n["rhs"]))
    if k == "For":
        return "for %s in %s %s" % (r(n["pat"]), r(n["iter"]), r(n["body"]))
    if k == "While":
        return "while %s %s" % (r(n["cond"]), r(n["body"]))
    if k == "Loop":
        return "loop " + r(n["body"])
    if k == "LetExpr":
        return "let %s = %s" % (r(n["pat"]), r(n["init"]))
    if k == "Break":
        return "break"
    if k == "Continue":
        return "continue"
    # patterns
    if k == "PBind":
        return n["name"] + ("@" + r(n["sub"]) if n.get("sub") else "")
    if k == "PWild":
        return "_"
    if k == "PPath":
        return short(n.get("path", "?"))
    if k == "PTupleStruct":
        return "%s(%s)" % (short(n.get("path", "?")), ", ".join(r(p) for p in n["pats"]))
    if k == "PStruct":
        return "%s{%s}" % (short(n.get("path", "?")), ", ".join("%s: %s" % (f["name"], r(f["pat"])) for f in n["fields"]))
    if k == "POr":
        return " | ".join(r(p) for p in n["pats"])
    if k == "PTuple":
        return "(" + ", ".join(r(p) for p in n["pats"]) + ")"
    if k == "PLit":
        return ("-" if n.get("neg") else "") + str(n.get("v"))
    if k in ("PRef", "PDeref", "PGuard"):
        return "&" + r(n["pat"])
    return str(k)


def short(path):
    path = norm(path) or "?"
    parts = path.split("::")
    return "::".join(parts[-2:]) if len(parts) > 1 else path
