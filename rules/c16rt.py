"""FRONT-DOOR-EQUIV (C16): the fluent builder against the source text, through the emulated compile step.

A family of models is written twice from one Python description: as source text, and as the sequence of builder
calls a user would write (ModelBuilder::new, add_var / add_vars, the operator-trait impls selected by the Rust
types of the operands -- Var, Expr, f64, i32, bool --, the helpers abs / min / max / sum / all / any, implies / iff,
BuilderConstraint::new / new_logic_assertion, with / with_all, minimize / maximize / satisfy in several call orders).
The builder side is evaluated from the typed HIR of those functions down to ModelBuilder::linearize; the text side goes
through the model of pest's matcher, the converters, transform_parsed_problem and Linearizer::linearize, also from
their HIR.  The two linear models must be identical line for line (objective, rows in order, coefficients, right-hand
sides, variables and domains): the family only uses forms whose expression trees are the same on both sides.

Not decided: the macros (token munchers, not in the HIR -- see M-TABLE for their tables), the solvers' answers."""
import re
import roundtrip
from interp import Var, Rope, ListV, is_unknown

XE = "builder::expr::Expr"
XV = "builder::expr::Var"
MB = "builder::model::ModelBuilder"
BC = "builder::model::BuilderConstraint"
VT = "math::math_enums::VariableType"
CMP = "math::math_enums::Comparison::"
TRANSFORM = "parser::model_transformer::model::transform_parsed_problem"
LINEARIZE = "transformers::linearizer::Linearizer::linearize"

CMPS = {"<=": "LessOrEqual", ">=": "GreaterOrEqual", "=": "Equal", "<": "Less", ">": "Greater"}
BINOPS = {"+": "Add", "-": "Sub", "*": "Mul", "/": "Div", "and": "BitAnd", "or": "BitOr", "xor": "BitXor"}

# ---------------------------------------------------------------- model descriptions
# expression: ("v", name) | ("f", float) | ("i", int) | ("b", bool) | (op, a, b) | ("neg", a) | ("not", a) | ("abs", a)
#             | ("min"|"max"|"sum"|"all"|"any", [..]) | ("implies"|"iff", a, b) | ("expr", a)  (explicit Expr::from)


def V(n):
    return ("v", n)


def models():
    x, y, z, p, q, r = V("x"), V("y"), V("z"), V("p"), V("q"), V("r")
    num_decl = [("x", "Real(-5, 5)"), ("y", "NonNegativeReal(0, 8)"), ("z", "IntegerRange(0, 10)")]
    log_decl = [("p", "Boolean"), ("q", "Boolean"), ("r", "Boolean")]
    out = []

    def m(label, decl, obj, cons):
        out.append({"label": label, "decl": decl, "obj": obj, "cons": cons})
    num_exprs = [
        ("+", x, y), ("-", x, y), ("*", ("f", 2.5), x), ("*", x, ("f", 2.5)), ("/", x, ("f", 4.0)), ("*", ("i", 3), y), ("+", y, ("i", 3)), ("-", ("i", 3), y), ("-", ("f", 1.5), x),
        ("neg", x), ("neg", ("+", x, y)), ("+", ("*", ("i", 2), x), ("*", ("f", 0.5), y)), ("-", ("+", x, y), z), ("-", x, ("-", y, z)), ("*", ("+", x, y), ("i", 3)), ("/", ("-", x, z), ("i", 2)),
        ("*", ("f", 2.0), ("+", x, ("*", ("i", 3), z))), ("+", ("+", x, ("f", 1.0)), ("i", 2)), ("abs", x), ("abs", ("-", x, y)), ("min", [x, y]), ("max", [x, y, z]), ("max", [("+", x, ("i", 1)), ("*", ("i", 2), y)]),
        ("min", [x, ("f", 3.0)]), ("sum", [x, y, z]), ("sum", [("*", ("i", 2), x)]), ("+", ("abs", x), ("max", [y, z])), ("-", ("i", 10), ("min", [x, y])), ("*", ("i", 2), ("abs", ("-", x, z))),
        ("+", ("expr", ("f", 1.0)), ("f", 2.0)), ("*", ("expr", ("i", 2)), x), ("neg", ("abs", y)),
    ]
    for k, e in enumerate(num_exprs):
        cmpk = list(CMPS)[k % 3]   # <=, >=, = (strict comparisons below)
        m("numeric form %d" % k, num_decl, ("min", ("+", ("+", x, y), z)), [("c%d" % k, e, cmpk, ("f", 4.0)), ("", ("+", x, z), ">=", ("i", 1))])
        m("numeric form %d on the right" % k, num_decl, ("max", ("-", ("-", ("neg", x), y), z)), [("", z, cmpk, e), ("lim", y, "<=", ("i", 8))])
    for e in (num_exprs[0], num_exprs[11], num_exprs[19], num_exprs[21]):
        m("numeric objective", num_decl, ("max", e), [("", ("+", ("+", x, y), z), "<=", ("i", 9)), ("", y, "<=", ("f", 2.5))])
        m("numeric objective, minimised", num_decl, ("min", e), [("", ("+", ("+", x, y), z), ">=", ("i", 1)), ("", y, "<=", ("f", 2.5))])
    for c in ("<", ">"):
        m("strict comparison " + c, num_decl, ("min", ("+", ("+", x, y), z)), [("s", ("+", x, z), c, ("i", 3))])
    log_exprs = [
        ("and", p, q), ("or", p, q), ("xor", p, q), ("not", p), ("implies", p, q), ("iff", p, q), ("and", ("or", p, q), r), ("or", ("not", p), ("and", q, r)), ("xor", ("and", p, q), r),
        ("implies", ("and", p, q), r), ("iff", p, ("or", q, r)), ("not", ("or", p, q)), ("all", [p, q, r]), ("any", [p, q, r]), ("and", p, ("b", True)), ("or", ("b", False), q), ("implies", ("expr", p), ("not", q)),
        ("not", ("not", p)), ("and", ("not", p), ("not", q)),
    ]
    for k, e in enumerate(log_exprs):
        m("logic assertion %d" % k, log_decl, ("min", ("+", ("+", p, q), r)), [("a%d" % k, e, None, None)])
        m("logic value %d" % k, log_decl + [("y", "NonNegativeReal")], ("min", ("+", ("+", ("+", p, q), r), y)), [("", y, ">=", e), ("", ("+", p, q), ">=", ("i", 1))])
    m("unbounded variables", [("x", "Real"), ("y", "NonNegativeReal"), ("z", "IntegerRange(-3, 3)")], ("min", ("+", ("-", ("*", ("i", 2), x), y), z)), [("", ("+", x, y), ">=", ("i", 1)), ("", ("-", x, ("*", ("f", 1.5), y)), "<=", ("i", 4)), ("", z, ">=", x)])
    m("satisfy", num_decl, ("sat", None), [("", ("+", x, y), ">=", ("i", 1)), ("", z, "<=", ("i", 3)), ("", ("-", x, z), "=", ("f", 0.5))])
    m("no objective set", num_decl, None, [("", ("+", ("+", x, y), z), ">=", ("i", 1))])
    # an objective without variables keeps its direction and its constant on every front door
    for k, (dir_, e) in enumerate([("max", ("f", 5.0)), ("min", ("f", -2.5)), ("max", ("expr", ("i", 5))), ("min", ("+", ("expr", ("f", 1.0)), ("f", 2.0))), ("max", ("-", x, x)), ("min", ("+", ("-", x, x), ("i", 4)))]):
        m("constant objective %d" % k, num_decl, (dir_, e), [("", ("+", ("+", x, y), z), ">=", ("i", 1)), ("", y, "<=", ("f", 2.5))])
    m("mixed", num_decl + log_decl, ("max", ("-", ("+", x, ("*", ("i", 3), p)), ("*", ("f", 0.5), z))), [("cap", ("+", x, ("*", ("i", 5), p)), "<=", ("i", 7)), ("", ("implies", p, ("or", q, r)), None, None), ("", z, ">=", ("*", ("i", 2), q)), ("", ("abs", ("-", x, y)), "<=", ("i", 3))])
    return out


# ---------------------------------------------------------------- text side
PREC = {"iff": 1, "implies": 2, "or": 3, "xor": 4, "and": 5, "+": 7, "-": 7, "*": 8, "/": 8}


def _num(t):
    return repr(t[1]) if t[0] == "f" else str(t[1])


def text_of(e, parent=0, right=False):
    k = e[0]
    if k == "v":
        return e[1]
    if k in ("f", "i"):
        return _num(e)
    if k == "b":
        return "true" if e[1] else "false"
    if k == "expr":
        return text_of(e[1], parent, right)
    if k in ("neg", "not"):
        inner = text_of(e[1], 9)
        if e[1][0] in ("neg", "not"):
            inner = "(%s)" % inner     # the grammar takes one prefix operator per operand
        return ("-" if k == "neg" else "not ") + inner
    if k == "abs":
        return "abs { %s }" % text_of(e[1])
    if k in ("min", "max"):
        return "%s { %s }" % (k, ", ".join(text_of(a) for a in e[1]))
    if k in ("all", "any"):
        return "%s { %s }" % (k, ", ".join(text_of(a) for a in e[1]))
    if k == "sum":
        s = " + ".join(text_of(a, 7, i > 0) for i, a in enumerate(e[1])) if e[1] else "0"
        return "(%s)" % s if parent >= 7 and len(e[1]) > 1 else s
    sym = {"implies": "->", "iff": "<->"}.get(k, k)
    pr = PREC[k]
    s = "%s %s %s" % (text_of(e[1], pr, False), sym, text_of(e[2], pr, True))
    return "(%s)" % s if (pr < parent or (pr == parent and right) or (pr <= 5 and parent and pr != parent)) else s


def text_model(md):
    obj = md["obj"]
    lines = ["solve" if obj is None or obj[0] == "sat" else "%s %s" % (obj[0], text_of(obj[1])), "s.t."]
    for name, lhs, cmp_, rhs in md["cons"]:
        body = text_of(lhs) if cmp_ is None else "%s %s %s" % (text_of(lhs), cmp_, text_of(rhs))
        lines.append("    " + ("%s: " % name if name else "") + body)
    lines.append("define")
    for n, d in md["decl"]:
        lines.append("    %s as %s" % (n, d))
    return "\n".join(lines) + "\n"


# ---------------------------------------------------------------- builder side
class Builder:
    def __init__(self, F, I):
        self.F, self.I = F, I
        self.ops = {}
        for imp in F.items["impls"]:
            tr = imp.get("trait") or ""
            if not tr.startswith("std::ops::") or not imp.get("file", "").endswith("builder/expr.rs"):
                continue
            tname = tr.rsplit("::", 1)[-1]
            mt = re.search(r" as std::ops::\w+(?:<(.*)>)?>$", imp.get("trait_ref") or "")
            rhs = mt.group(1) if mt and mt.group(1) else imp["self_ty"]
            for meth in imp["methods"]:
                self.ops[(tname, imp["self_ty"], rhs)] = meth["path"]
        self.froms = {}
        for imp in F.items["impls"]:
            if (imp.get("trait") or "").endswith("convert::From") and imp.get("self_ty") == XE:
                mt = re.search(r"From<(.*)>>$", imp.get("trait_ref") or "")
                if mt:
                    for meth in imp["methods"]:
                        self.froms[mt.group(1)] = meth["path"]

    def to_expr(self, v, ty):
        if ty == XE:
            return v
        p = self.froms.get(ty)
        if p is None:
            raise ValueError("no From<%s> for Expr" % ty)
        return self.I.call_fn(p, [v])

    def build(self, e, handles):
        """-> (value, rust type)"""
        k = e[0]
        if k == "v":
            return handles[e[1]], XV
        if k == "f":
            return float(e[1]), "f64"
        if k == "i":
            return int(e[1]), "i32"
        if k == "b":
            return bool(e[1]), "bool"
        if k == "expr":
            v, t = self.build(e[1], handles)
            return self.to_expr(v, t), XE
        if k in ("neg", "not"):
            v, t = self.build(e[1], handles)
            if t not in (XV, XE):
                v, t = self.to_expr(v, t), XE
            return self.I.call_fn(self.ops[("Neg" if k == "neg" else "Not", t, t)], [v]), XE
        if k == "abs":
            v, t = self.build(e[1], handles)
            return self.I.call_fn("builder::expr::abs", [self.to_expr(v, t)]), XE   # impl Into<Expr>: converted at the call
        if k in ("min", "max", "sum", "all", "any"):
            items = [self.to_expr(*self.build(a, handles)) for a in e[1]]        # a homogeneous Vec<Expr>
            return self.I.call_fn("builder::expr::" + k, [ListV(items)]), XE
        if k in ("implies", "iff"):
            a, ta = self.build(e[1], handles)
            b, tb = self.build(e[2], handles)
            owner = XV if ta == XV else XE
            if ta not in (XV, XE):
                a = self.to_expr(a, ta)
            return self.I.call_fn("%s::%s" % (owner, k), [a, self.to_expr(b, tb)]), XE
        a, ta = self.build(e[1], handles)
        b, tb = self.build(e[2], handles)
        tr = BINOPS[k]
        if (tr, ta, tb) not in self.ops:
            # no impl for this pair of operand types (e.g. number op number): a user writes Expr::from on the left
            a, ta = self.to_expr(a, ta), XE
        if (tr, ta, tb) not in self.ops:
            b, tb = self.to_expr(b, tb), XE
        return self.I.call_fn(self.ops[(tr, ta, tb)], [a, b]), XE

    def vtype(self, d):
        I = self.I
        mt = re.match(r"(\w+)(?:\((.*), (.*)\))?$", d)
        kind, lo, hi = mt.groups()
        if kind == "Boolean":
            return I.call_fn(VT + "::bool", [])
        if kind == "IntegerRange":
            return I.call_fn(VT + "::integer_range", [int(lo), int(hi)])
        if kind == "NonNegativeReal":
            return I.call_fn(VT + "::non_negative_real", []) if lo is None else Var(VT + "::NonNegativeReal", [float(lo), float(hi)])
        return I.call_fn(VT + "::real", []) if lo is None else Var(VT + "::Real", [float(lo), float(hi)])

    def model(self, md, order):
        """the builder calls for a model description; `order`: 'obj-last' | 'obj-first' | 'with_all'"""
        I = self.I
        mb = I.call_fn(MB + "::new", [])
        handles = {}
        for n, d in md["decl"]:
            handles[n] = I.call_fn(MB + "::add_var", [mb, Rope([n]), self.vtype(d)])
        cons = []
        for name, lhs, cmp_, rhs in md["cons"]:
            if cmp_ is None:
                c = I.call_fn(BC + "::new_logic_assertion", [self.to_expr(*self.build(lhs, handles)), Rope([name])])
            else:
                c = I.call_fn(BC + "::new", [self.to_expr(*self.build(lhs, handles)), Var(CMP + CMPS[cmp_]), self.to_expr(*self.build(rhs, handles)), Rope([name])])
            cons.append(c)

        def objective(mb):
            obj = md["obj"]
            if obj is None:
                return mb
            if obj[0] == "sat":
                return I.call_fn(MB + "::satisfy", [mb])
            return I.call_fn(MB + "::" + ("minimize" if obj[0] == "min" else "maximize"), [mb, self.to_expr(*self.build(obj[1], handles))])
        if order == "obj-first":
            mb = objective(mb)
        if order == "obj-replaced" and md["obj"] is not None and handles:
            # the last objective call is the objective: other ones made earlier (the opposite sense, a feasibility
            # objective, an objective before a feasibility objective) leave nothing behind
            first = handles[md["decl"][0][0]]
            if md["obj"][0] == "sat":
                mb = I.call_fn(MB + "::maximize", [mb, self.to_expr(first, XV)])
            else:
                mb = I.call_fn(MB + "::satisfy", [mb])
                mb = I.call_fn(MB + "::" + ("maximize" if md["obj"][0] == "min" else "minimize"), [mb, self.to_expr(*self.build(md["obj"][1], handles))])
        if order == "with_all":
            mb = I.call_fn(MB + "::with_all", [mb, ListV(cons)])
        elif order == "with+with_all":
            # rows added one by one, then a batch, then another batch: every call adds to what is there
            k1 = max(1, len(cons) // 3) if len(cons) > 1 else len(cons)
            k2 = max(k1, (2 * len(cons)) // 3)
            for c in cons[:k1]:
                mb = I.call_fn(MB + "::with", [mb, c])
            if cons[k1:k2]:
                mb = I.call_fn(MB + "::with_all", [mb, ListV(cons[k1:k2])])
            mb = I.call_fn(MB + "::with_all", [mb, ListV(cons[k2:])])
        else:
            for c in cons:
                mb = I.call_fn(MB + "::with", [mb, c])
        if order != "obj-first":
            mb = objective(mb)
        return mb


def lin_text(I, r):
    if is_unknown(r):
        return ("error", "not evaluable: %r" % (r,))
    if not (isinstance(r, Var) and r.path.endswith("Result::Ok")):
        return ("error", "rejected: %r" % (r,))
    u = roundtrip.find_unknown(r.args[0])
    if u is not None:
        return ("error", "not evaluable: %r" % (u,))
    t = I.display(r.args[0])
    if is_unknown(t):
        return ("error", "printer not evaluable: %r" % (t,))
    return roundtrip.concretise(t) + stored_objective(I, r.args[0])


LM = "transformers::linear_model::LinearModel"


def stored_objective(I, lm):
    """what the printed model does not always show (a feasibility model prints `solve` only): the constant and the
    coefficients of the objective as the solvers read them, through the crate's own accessors"""
    out = ""
    for acc in ("objective_offset", "objective"):
        if I.F.fn(LM + "::" + acc) is None:
            continue
        v = I.call_fn(LM + "::" + acc, [lm])
        if is_unknown(v):
            continue
        v = v.get() if hasattr(v, "get") and not isinstance(v, (ListV, Var)) else v
        if isinstance(v, ListV):
            v = [x + 0.0 if isinstance(x, (int, float)) and not isinstance(x, bool) else x for x in v.items]
            if not all(isinstance(x, float) for x in v):
                continue
        elif isinstance(v, (int, float)) and not isinstance(v, bool):
            v = v + 0.0
        else:
            continue
        out += "\n[as stored] %s = %r" % (acc, v)
    return out


def text_side(RT, text):
    I = RT.I
    ast = RT.parse_text(text)
    if isinstance(ast, tuple):
        return ("error", "not a program: " + ast[1][:200])
    r = I.call_fn(TRANSFORM, [ast, ListV([]), ListV([])])
    if is_unknown(r) or not (isinstance(r, Var) and r.path.endswith("Result::Ok")):
        return ("error", "transformer: %r" % (r,))
    return lin_text(I, I.call_fn(LINEARIZE, [r.args[0]]))


TC = "parser::pre_model::PreModel::create_type_checker"


def api_constant_cases():
    """(label, constants supplied through the API as text lines, the rest of the program)"""
    body = lambda cons, where, define: "min sum(i in 0..n) { x_i }\ns.t.\n" + "\n".join("    " + c for c in cons) + ("\nwhere\n" + "\n".join("    " + w for w in where) if where else "") + "\ndefine\n" + "\n".join("    " + d for d in define) + "\n"
    return [
        ("a text constant defined from an API constant", ["let W = [3, 1, 4]"], (["x_i >= W[i] for i in 0..n"], ["let n = len(W)"], ["x_i as NonNegativeReal for i in 0..n"])),
        ("two API constants, one text constant from both", ["let W = [3, 1, 4]", "let c = 2"], (["x_i >= W[i] + k for i in 0..n"], ["let n = len(W)", "let k = c * 2"], ["x_i as NonNegativeReal for i in 0..n"])),
        ("a graph through the API", ["let G = Graph { A -> [ B: 2 ], B }", "let n = 2"], (["x_0 + x_1 >= len(nodes(G))", "x_i <= m for i in 0..n"], ["let m = len(edges(G)) + 5"], ["x_i as NonNegativeReal for i in 0..n"])),
        ("all constants through the API", ["let W = [3, 1, 4]", "let n = 3"], (["x_i >= W[i] for i in 0..n"], [], ["x_i as NonNegativeReal for i in 0..n"])),
    ]


def check_constant_sources(RT, R):
    """the same program with its constants written in the text, or some of them supplied through the API, is accepted
    by the type checker and compiles to the same linear model"""
    I = RT.I
    where = "packages/rooc/src/parser/pre_model.rs"
    body = lambda cons, wh, define: "min sum(i in 0..n) { x_i }\ns.t.\n" + "\n".join("    " + c for c in cons) + ("\nwhere\n" + "\n".join("    " + w for w in wh) if wh else "") + "\ndefine\n" + "\n".join("    " + d for d in define) + "\n"
    for label, api_lines, (cons, text_lines, define) in api_constant_cases():
        key = "constants:" + label.replace(" ", "-")
        all_text = body(cons, api_lines + text_lines, define)
        want = text_side(RT, all_text)
        # the API constants are the Constant values the crate itself builds for those lines
        carrier = RT.parse_text(body(["x_0 >= 0"], api_lines, ["x_0 as Real"]).replace("sum(i in 0..n) { x_i }", "x_0"))
        if isinstance(carrier, tuple) or not isinstance(carrier.fields.get("constants"), ListV):
            R.undecided("FRONT-DOOR-EQUIV", key, where, "API constants could not be built: %r" % (carrier,))
            continue
        consts = carrier.fields["constants"]
        rest = body(cons, text_lines, define)
        ast = RT.parse_text(rest)
        if isinstance(ast, tuple):
            R.undecided("FRONT-DOOR-EQUIV", key, where, "program not parsed: %s" % ast[1][:200])
            continue
        r = I.call_fn(TC, [ast, ListV(list(consts.items)), ListV([])])
        if is_unknown(r):
            R.undecided("FRONT-DOOR-EQUIV", key + ":typecheck", where, "type checker not evaluable: %r" % (r,))
        else:
            R.ob("FRONT-DOOR-EQUIV", key + ":typecheck", isinstance(r, Var) and r.path.endswith("Result::Ok"), where, "with %s supplied through the API the type checker answers %r (with everything in the text the program compiles)" % (api_lines, r))
        ast = RT.parse_text(rest)
        r = I.call_fn(TRANSFORM, [ast, ListV(list(consts.items)), ListV([])])
        if is_unknown(r) or not isinstance(r, Var):
            R.undecided("FRONT-DOOR-EQUIV", key + ":model", where, "transformer not evaluable: %r" % (r,))
            continue
        if not r.path.endswith("Result::Ok"):
            R.ob("FRONT-DOOR-EQUIV", key + ":model", False, where, "with %s supplied through the API the transformer answers %r" % (api_lines, r))
            continue
        got = lin_text(I, I.call_fn(LINEARIZE, [r.args[0]]))
        if isinstance(got, tuple) and got[1].startswith("not evaluable") or isinstance(want, tuple) and "not evaluable" in want[1]:
            R.undecided("FRONT-DOOR-EQUIV", key + ":model", where, "compile step not evaluable")
            continue
        R.ob("FRONT-DOOR-EQUIV", key + ":model", got == want, where, "constants %s through the API: linear model `%s`; all in the text: `%s`" % (api_lines, str(got).replace("\n", " / ")[:200], str(want).replace("\n", " / ")[:200]))


def check(F, R, Gm, tier="quick"):
    RT = roundtrip.RoundTrip(F, Gm)
    I = RT.I
    I.max_depth = 1500
    B = Builder(F, I)
    for f in (MB + "::new", MB + "::add_var", MB + "::with", MB + "::with_all", MB + "::minimize", MB + "::maximize", MB + "::satisfy", MB + "::into_model", MB + "::linearize", BC + "::new", BC + "::new_logic_assertion", BC + "::to_constraint"):
        R.fn(f)
    R.count("FRONT-DOOR-EQUIV.operator-impls", len(B.ops))
    mds = models()
    R.count("FRONT-DOOR-EQUIV.models", len(mds))
    where = "packages/rooc/src/builder"
    for k, md in enumerate(mds):
        key = md["label"].replace(" ", "-")
        text = text_model(md)
        want = text_side(RT, text)
        orders = ("obj-last", "obj-first", "with_all", "with+with_all", "obj-replaced") if (tier == "thorough" or k % 7 == 0) else (("obj-last", "with+with_all") if len(md["cons"]) >= 3 or k % 5 == 0 else ("obj-last",))
        if md["obj"] is not None and (md["obj"][0] == "sat" or k % 4 == 1) and "obj-replaced" not in orders:
            orders = orders + ("obj-replaced",)
        for order in orders:
            try:
                mb = B.model(md, order)
                got = lin_text(I, I.call_fn(MB + "::linearize", [mb]))
            except (KeyError, ValueError) as ex:
                got = ("error", "builder calls not expressible: %r" % (ex,))
            if isinstance(want, tuple) and isinstance(got, tuple) and want[1].startswith("rejected") and got[1].startswith("rejected"):
                R.ob("FRONT-DOOR-EQUIV", key + ":" + order, True, where, "both front doors reject the model at the compile step")
                continue
            if isinstance(want, tuple) or isinstance(got, tuple):
                R.ob("FRONT-DOOR-EQUIV", key + ":" + order, False, where, ("text: %s | builder: %s" % (want[1] if isinstance(want, tuple) else "ok", got[1] if isinstance(got, tuple) else "ok"))[:600])
                continue
            if want != got:
                lw, lg = want.split("\n"), got.split("\n")
                d = next((i for i, (a, b) in enumerate(zip(lw, lg)) if a != b), min(len(lw), len(lg)))
                R.ob("FRONT-DOOR-EQUIV", key + ":" + order, False, where, "line %d of the linear model: the text `%s` gives `%s`, the builder calls give `%s`" % (d + 1, text.replace("\n", " / ")[:160], lw[d] if d < len(lw) else "<end>", lg[d] if d < len(lg) else "<end>"))
                continue
            R.ob("FRONT-DOOR-EQUIV", key + ":" + order, True, where, "same linear model from the text and from the builder calls (%d lines)" % len(want.split("\n")))
    check_constant_sources(RT, R)
