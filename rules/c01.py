"""C01 / C02 Linearization preserves the feasible set / objective values -- necessary structure.

Decides the discipline that makes one-sided relaxations and big-M rows valid:
P-REQ (requirement polarity through +, -, scale), T-CONVEX (the tables that choose a
relaxation), P-BIGM (end-point polarity of big-M constants, pruning tests, sign-known
shortcuts, row directions), D-APPLY (derived bounds are applied to the domain handed to the
linearizer; auxiliaries are registered in bounds and domain), T-OBJ / D-OFFSET (C02).
Does NOT decide that the emitted rows are an exact encoding (magnitudes, ties, real points).
"""
import re
from facts import norm, base_ty, walk, strip, sexp
from flow import LocalFlow, pat_binds, free_locals
from interp import Interp, Var, Sym, is_unknown
import table
import c04

VR = "transformers::linearizer::ValueRequirement"
EK = "transformers::linearizer::ExtremeKind"
CMP = c04.CMP
OPT = c04.OPT
LIN_FILE = "transformers/linearizer.rs"
EXP_LIN = "transformers::linearizer::<impl parser::model_transformer::model::Exp>::linearize"


def is_linearize_call(n):
    if n.get("k") == "MCall" and n["name"] == "linearize" and (n.get("callee") or "").endswith("model::Exp>::linearize"):
        return True
    return False


def req_param_ids(F, f):
    """ids of locals of type ValueRequirement that are parameters of f"""
    out = set()
    for p in f.get("params", []):
        for n in walk(p):
            if n.get("k") == "PBind" and base_ty(F.tyi(n.get("t")) or "") == VR:
                out.add(n["id"])
    return out


def norm_scale_arg(a):
    """canonical text of a scale argument: `*c`, `c`, `1.0 / c` all become `c`"""
    a = strip(a)
    if a.get("k") == "Binary" and a["op"] == "/" and sexp(strip(a["a"])) in ("1.0", "1"):
        a = strip(a["b"])
    while a.get("k") == "Unary" and a["op"] == "*":
        a = strip(a["a"])
    return sexp(a).lstrip("*")


def lit_sign(a):
    a = strip(a)
    if a.get("k") == "Unary" and a["op"] == "-" and strip(a["a"]).get("k") == "Lit":
        return "-"
    if a.get("k") == "Lit" and a.get("lk") in ("float", "int"):
        return "+" if float(a["v"].replace("_", "")) > 0 else ("0" if float(a["v"].replace("_", "")) == 0 else "-")
    return None


def classify_requirement(F, f, a, params):
    """'+', '-', ('scale', text), 'exact', ('const', variant), ('table', local name), ('?', text)"""
    a = strip(a)
    k = a.get("k")
    if k == "Path" and a.get("res") == "local":
        if a["id"] in params:
            return "+"
        return ("table", a["name"], a["id"])
    if k == "Path" and a.get("dk") == "Variant" and norm(a.get("path") or "").startswith(VR + "::"):
        v = a["path"].rsplit("::", 1)[-1]
        return "exact" if v == "Exact" else ("const", v)
    if k == "MCall" and norm(a.get("callee") or "").startswith(VR + "::"):
        inner = classify_requirement(F, f, a["recv"], params)
        if a["name"] == "reversed":
            return flip(inner)
        if a["name"] == "through_scale":
            s = lit_sign(a["args"][0])
            if s == "-":
                return flip(inner)
            if s == "+":
                return inner
            if inner == "+":
                return ("scale", norm_scale_arg(a["args"][0]))
            if inner == "exact":
                return "exact"
            return ("?", sexp(a))
    return ("?", sexp(a))


def flip(s):
    if s == "+":
        return "-"
    if s == "-":
        return "+"
    if s == "exact":
        return "exact"
    return ("?", "reversed(%s)" % (s,))


def mul_sign(s, t):
    if s == "exactuse" or t == "exactuse":
        return "exactuse"
    if isinstance(s, tuple) or isinstance(t, tuple):
        if s == "+":
            return t
        if t == "+":
            return s
        return ("?", "%s*%s" % (s, t))
    return "+" if s == t else "-"


def result_sign(F, f, call):
    """sign by which the linearised value of `call` enters the value returned by its arm"""
    lf = LocalFlow(f["body"])
    # find the let that binds the call's value
    bind = None
    for n in walk(f["body"]):
        if n.get("k") == "Let" and n.get("init") is not None and any(x is call for x in walk(n["init"])):
            init = strip(n["init"])
            if init.get("k") == "Try":
                init = strip(init["e"])
            if init is call:
                b = pat_binds(n["pat"])
                if len(b) == 1:
                    bind = (n, b[0][0])
    if bind is None:
        # value dropped (statement) -> no requirement on the sign; returned directly -> '+'
        for n in walk(f["body"]):
            if n.get("k") in ("Semi",) and any(x is call for x in walk(n["e"])):
                e = strip(n["e"])
                if e.get("k") == "Try" and strip(e["e"]) is call:
                    return "dropped"
        return "+"
    let, vid = bind
    # uses of the bound value after the let, inside the same enclosing block
    block = None
    for n in walk(f["body"]):
        if n.get("k") == "Block" and any(s is let for s in n.get("stmts", [])):
            block = n
    sign = "+"
    if block is None:
        return ("?", "no block")
    after = False
    stmts = list(block.get("stmts", []))
    if block.get("e") is not None:
        stmts.append({"k": "Expr", "e": block["e"]})
    for s in stmts:
        if s is let:
            after = True
            continue
        if not after:
            continue
        for x in walk(s):
            if x.get("k") == "Let" and any(i == vid for i, _ in pat_binds(x["pat"])) and x is not let:
                # shadowing by the same name has a different id; nothing to do
                pass
            if x.get("k") == "MCall":
                r = strip(x["recv"])
                recv_is_v = r.get("k") == "Path" and r.get("id") == vid
                args_v = [a for a in x["args"] if strip(a).get("k") == "Path" and strip(a).get("id") == vid]
                if recv_is_v and x["name"] in ("mul_by", "div_by"):
                    ls = lit_sign(x["args"][0])
                    if ls in ("+", "-"):
                        sign = mul_sign(sign, ls)
                    else:
                        sign = mul_sign(sign, ("scale", norm_scale_arg(x["args"][0])))
                elif args_v and x["name"] == "merge_sub":
                    sign = mul_sign(sign, "-")
                elif args_v and x["name"] == "merge_add":
                    pass
                elif recv_is_v and x["name"] in ("merge_add", "merge_sub", "add_rhs", "add_var", "rhs", "vars"):
                    pass
                elif args_v or recv_is_v:
                    sign = "exactuse"
            if x.get("k") == "Call" and any(strip(a).get("id") == vid or (strip(a).get("k") == "Ref" and False) for a in x["args"]):
                pass
            if x.get("k") == "Call":
                for a in x["args"]:
                    if any(y.get("k") == "Path" and y.get("id") == vid for y in walk(a)):
                        c = norm(x.get("callee") or "")
                        if c.endswith("Result::Ok") or c.endswith("Option::Some"):
                            continue
                        sign = "exactuse"
    return sign


def exact_by_callers(F):
    """helper functions whose requirement parameter is Exact at every call site"""
    out = set()
    sites = {}
    for f in F.fn_list:
        if "body" not in f or not f.get("file", "").endswith(LIN_FILE):
            continue
        params = req_param_ids(F, f)
        for c in walk(f["body"]):
            if c.get("k") == "Call" and c.get("callee") in F.fns and req_param_ids(F, F.fns[c["callee"]]):
                g = F.fns[c["callee"]]
                idx = [i for i, p in enumerate(g.get("params", [])) if any(n.get("k") == "PBind" and base_ty(F.tyi(n.get("t")) or "") == VR for n in walk(p))]
                if idx and idx[0] < len(c["args"]):
                    sites.setdefault(c["callee"], []).append(classify_requirement(F, f, c["args"][idx[0]], params))
    for callee, cls in sites.items():
        if cls and all(x == "exact" for x in cls):
            out.add(callee)
    return out


def p_req(F, R):
    n = 0
    exact_fns = exact_by_callers(F)
    for f in F.fn_list:
        if "body" not in f or not f.get("file", "").endswith(LIN_FILE):
            continue
        params = req_param_ids(F, f)
        if f["path"] in exact_fns:
            # its requirement parameter is Exact on every path into the function
            for c in walk(f["body"]):
                if is_linearize_call(c):
                    n += 1
                    sr = classify_requirement(F, f, c["args"][1], params)
                    R.ob("P-REQ", "%s:%s.linearize(..)" % (f["path"].rsplit("::", 1)[-1], sexp(c["recv"])[:24]), sr in ("+", "exact"), F.loc(f, c), "inside a helper that every caller invokes with Exact, the requirement must be passed on unchanged (got %s)" % (sr,))
            continue
        for c in walk(f["body"]):
            if not is_linearize_call(c):
                continue
            n += 1
            R.fn(f["path"])
            sr = classify_requirement(F, f, c["args"][1], params)
            sg = result_sign(F, f, c)
            key = "%s:%s.linearize(%s)" % (f["path"].rsplit("::", 1)[-1] if "impl" not in f["path"] else "Exp::linearize", sexp(c["recv"])[:24], re.sub(r"transformers::linearizer::", "", sexp(c["args"][1])))
            # disambiguate repeated keys by the enclosing arm
            arm = enclosing_arm_label(f, c)
            key = "%s@%s" % (key, arm)
            definite = lambda x: x in ("+", "-", "exact") or (isinstance(x, tuple) and x[0] in ("scale", "const"))
            und = False
            if sr == "exact":
                ok, why = True, "Exact is sound in every context"
            elif isinstance(sr, tuple) and sr[0] == "table":
                ok = table_local_ok(F, f, sr[2])
                und = not ok     # the requirement is computed somewhere this rule does not follow (a helper, a closure)
                why = "requirement comes from the local `%s`, which is not a match table this rule can read" % sr[1]
            elif sg == "dropped":
                ok, why = True, "value discarded"
            elif sg == "exactuse":
                ok, why = False, "the linearised value is used on both sides / in emitted rows, which needs ValueRequirement::Exact"
                und = not definite(sr)
            else:
                ok = (sr == sg)
                und = not (definite(sr) and definite(sg))
                why = "value enters the result with sign %s, requirement is propagated with %s" % (sg, sr)
            R.ob("P-REQ", key, ok, F.loc(f, c),
                 "requirement polarity: %s (a dropped .reversed() under Sub/Neg/negative scale turns a relaxation the wrong way: feasible points are cut off or infeasible ones let in)" % why, undecided=und and not ok)
    # helper entry points: requirement passed through unchanged, Exact for logic operands
    for f in F.fn_list:
        if "body" not in f or not f.get("file", "").endswith(LIN_FILE):
            continue
        params = req_param_ids(F, f)
        for c in walk(f["body"]):
            if c.get("k") == "Call" and norm(c.get("callee") or "").endswith("linearizer::linearize_extreme"):
                sr = classify_requirement(F, f, c["args"][-1], params)
                R.ob("P-REQ", "linearize_extreme@%s" % sexp(c["args"][0]).rsplit("::", 1)[-1], sr == "+", F.loc(f, c), "min/max lowering must receive the caller's requirement unchanged, got %s" % (sr,))
            if c.get("k") == "Call" and norm(c.get("callee") or "").endswith("linearizer::linearize_binary_operands"):
                sr = classify_requirement(F, f, c["args"][-1], params)
                R.ob("P-REQ", "linearize_binary_operands@%s:%s" % (f["path"].rsplit("::", 1)[-1][:24], c.get("l") and enclosing_arm_label(f, c)), sr == "exact", F.loc(f, c), "logic operands are used in reified rows from both sides: requirement must be Exact, got %s" % (sr,))
    R.count("P-REQ.linearize-calls", n)


def enclosing_arm_label(f, node):
    labels = []
    for m in walk(f["body"]):
        if m.get("k") == "Match":
            for arm in m["arms"]:
                if any(x is node for x in walk(arm["body"])):
                    labels.append(re.sub(r"\(.*", "", sexp(arm["pat"])).rsplit("::", 1)[-1])
        if m.get("k") == "If" and m["cond"].get("k") == "LetExpr":
            if any(x is node for x in walk(m["then"])):
                labels.append("iflet:" + sexp(m["cond"]["init"]).replace("&", "").replace("*", ""))
    # statement index inside the innermost block for uniqueness
    idx = 0
    for b in walk(f["body"]):
        if b.get("k") == "Block":
            for i, s in enumerate(b.get("stmts", [])):
                if any(x is node for x in walk(s)):
                    idx = i
    return "/".join(labels[-3:]) + "#%d" % idx


def table_local_ok(F, f, lid):
    lf = LocalFlow(f["body"])
    defs = lf.defs.get(lid, [])
    return len(defs) == 1 and strip(defs[0]).get("k") == "Match"


# ---- T-CONVEX -------------------------------------------------------------------------

def eval_match_table(F, I, f, m, domains):
    """evaluate a match whose scrutinee mentions locals, over `domains`: {local name: [values]}.
    returns {tuple(values): result}"""
    import itertools
    ids = {}
    for x in walk(m["scrut"]):
        if x.get("k") == "Path" and x.get("res") == "local":
            ids[x["name"]] = x["id"]
    names = [n for n in domains if n in ids]
    out = {}
    for combo in itertools.product(*[domains[n] for n in names]):
        env = {ids[n]: v for n, v in zip(names, combo)}
        out[tuple(v.path.rsplit("::", 1)[-1] if isinstance(v, Var) else v for v in combo)] = I.ev(m, env)
    return names, out


def vname(v):
    if isinstance(v, Var):
        return v.path.rsplit("::", 1)[-1]
    return v


def t_convex(F, R):
    I = Interp(F)
    vr = [Var(VR + "::" + v) for v in F.variants(VR)]
    ek = [Var(EK + "::" + v) for v in F.variants(EK)]
    # 1. reversed / through_scale
    want_rev = {"PreferLower": "PreferHigher", "PreferHigher": "PreferLower", "Exact": "Exact"}
    for v in vr:
        got = vname(I.call_fn(VR + "::reversed", [v]))
        R.ob("T-CONVEX", "reversed:" + vname(v), got == want_rev[vname(v)], "packages/rooc/src/transformers/linearizer.rs", "reversed(%s) = %s, expected %s" % (vname(v), got, want_rev[vname(v)]))
        for c, rev in ((-2.0, True), (-1.0, True), (3.0, False), (1.0, False), (1e-9, False), (-1e-9, True)):
            got = vname(I.call_fn(VR + "::through_scale", [v, c]))
            want = want_rev[vname(v)] if rev else vname(v)
            R.ob("T-CONVEX", "through_scale:%s*%r" % (vname(v), c), got == want, "packages/rooc/src/transformers/linearizer.rs", "through_scale(%s, %r) = %s, expected %s (reverse exactly for negative coefficients, exact comparison)" % (vname(v), c, got, want))
    R.fn(VR + "::reversed")
    R.fn(VR + "::through_scale")
    # tables inside the lowering functions, located by the type of their scrutinee
    found = {"abs": 0, "one_sided": 0, "operand_requirement": 0, "row_direction": 0, "emit": 0, "objective": 0}
    for f in F.fn_list:
        if "body" not in f or not f.get("file", "").endswith(LIN_FILE):
            continue
        lf = LocalFlow(f["body"])
        for m in walk(f["body"]):
            if m.get("k") != "Match":
                continue
            sty = F.ty(m["scrut"]) or ""
            rty = F.ty(m) or ""
            where = F.loc(f, m)
            if base_ty(sty) == VR and rty == "bool" and m.get("m") != "matches":
                # abs: needs_exact_value
                names, tab = eval_match_table(F, I, f, m, {n: vr for n in [x["name"] for x in walk(m["scrut"]) if x.get("k") == "Path"]})
                found["abs"] += 1
                R.fn(f["path"])
                for k, v in sorted(tab.items()):
                    want = k[0] != "PreferLower"
                    R.ob("T-CONVEX", "abs-needs-exact:" + k[0], v is want, where, "abs under %s: exact encoding needed = %r, expected %r (|.| is convex: the two one-sided rows only suffice when a lower value is preferred)" % (k[0], v, want))
            elif sty == "(%s, %s)" % (EK, VR) and rty == "bool":
                scr = [x["name"] for x in walk(m["scrut"]) if x.get("k") == "Path"]
                names, tab = eval_match_table(F, I, f, m, {scr[0]: ek, scr[1]: vr})
                found["one_sided"] += 1
                R.fn(f["path"])
                for k, v in sorted(tab.items()):
                    allowed_true = k in (("Max", "PreferLower"), ("Min", "PreferHigher"))
                    ok = (v is False) or (v is True and allowed_true)
                    R.ob("T-CONVEX", "extreme-one-sided:%s,%s" % k, ok, where, "one-sided rows for %s under %s: %r (max is convex and min concave: a one-sided relaxation is only valid for (Max, PreferLower) and (Min, PreferHigher))" % (k[0], k[1], v))
            elif sty == "(%s, bool)" % EK and base_ty(rty) == VR:
                scr = [x["name"] for x in walk(m["scrut"]) if x.get("k") == "Path"]
                names, tab = eval_match_table(F, I, f, m, {scr[0]: ek, scr[1]: [True, False]})
                found["operand_requirement"] += 1
                for k, v in sorted(tab.items(), key=str):
                    got = vname(v)
                    if k[1] is True:
                        want = {"Max": ("PreferLower", "Exact"), "Min": ("PreferHigher", "Exact")}[k[0]]
                    else:
                        want = ("Exact",)
                    R.ob("T-CONVEX", "operand-requirement:%s,%s" % k, got in want, where, "operands of %s (one-sided=%s) are linearised under %s, expected one of %s" % (k[0], k[1], got, want))
            elif base_ty(sty) == EK and base_ty(rty) == CMP:
                names, tab = eval_match_table(F, I, f, m, {[x["name"] for x in walk(m["scrut"]) if x.get("k") == "Path"][0]: ek})
                found["row_direction"] += 1
                for k, v in sorted(tab.items()):
                    want = {"Min": "LessOrEqual", "Max": "GreaterOrEqual"}[k[0]]
                    R.ob("T-CONVEX", "one-sided-row:%s" % k[0], vname(v) == want, where, "one-sided rows `aux <cmp> operand` for %s use %s, expected %s" % (k[0], vname(v), want))
            elif base_ty(sty) == CMP and base_ty(rty) == VR:
                am = c04.arm_map(F, m, CMP)
                found["emit"] += 1
                R.fn(f["path"])
                want = {"LessOrEqual": "PreferLower", "Less": "PreferLower", "GreaterOrEqual": "PreferHigher", "Greater": "PreferHigher", "Equal": "Exact"}
                for v in F.variants(CMP):
                    h = table.head(am[v][0]["body"]) if v in am else None
                    got = h[1].rsplit("::", 1)[-1] if h and h[0] == "variant" else None
                    R.ob("T-CONVEX", "row-requirement:" + v, got in (want[v], "Exact"), where, "a row `lhs - rhs %s 0` linearises its left side under %s, expected %s" % (v, got, want[v]))
            elif base_ty(sty) == OPT and base_ty(rty) == VR:
                am = c04.arm_map(F, m, OPT)
                found["objective"] += 1
                R.fn(f["path"])
                want = {"Min": ("PreferLower", "Exact"), "Max": ("PreferHigher", "Exact"), "Satisfy": ("PreferLower", "PreferHigher", "Exact")}
                for v in F.variants(OPT):
                    h = table.head(am[v][0]["body"]) if v in am else None
                    got = h[1].rsplit("::", 1)[-1] if h and h[0] == "variant" else None
                    R.ob("T-OBJ", v, got in want[v], where, "objective direction %s linearises the objective under %s, expected one of %s" % (v, got, want[v]))
    for k, n in found.items():
        # a table that is no longer a `match` of the expected scrutinee type (rewritten as matches!/==, moved into a helper) is
        # not evidence of anything: T-NUM-TEMPLATES and COMPILE-EQUIV decide the same choices by evaluation
        R.ob("T-CONVEX" if k != "objective" else "T-OBJ", "table-present:" + k, n == 1, "packages/rooc/src/transformers/linearizer.rs", "expected exactly one `%s` table, found %d" % (k, n), undecided=True)


# ---- P-BIGM -----------------------------------------------------------------------------

def p_bigm(F, R):
    fl = F.fn(EXP_LIN)
    fe = F.fn("transformers::linearizer::linearize_extreme")
    if fl is None or fe is None:
        R.ob("P-BIGM", "anchor", False, "", "lowering functions not found")
        return
    # (i) big-M constants in the exact max/min rows
    for n in walk(fe["body"]):
        if n.get("k") == "Call" and norm(n.get("callee") or "").endswith("model::Exp::Number"):
            a = strip(n["args"][0])
            if a.get("k") == "Binary" and a["op"] == "-" and "bounds" in sexp(a):
                kind = None
                for m in walk(fe["body"]):
                    if m.get("k") == "Match":
                        for arm in m["arms"]:
                            if "ExtremeKind::" in sexp(arm["pat"]) and any(x is n for x in walk(arm["body"])):
                                kind = sexp(arm["pat"]).rsplit("::", 1)[-1]
                l, r = sexp(strip(a["a"])), sexp(strip(a["b"]))
                want = {"Max": ("extreme_bounds.upper", ".lower"), "Min": (".upper", "extreme_bounds.lower")}.get(kind)
                ok = want is not None and ((kind == "Max" and l == "extreme_bounds.upper" and r.endswith(".lower") and not r.startswith("extreme_bounds")) or (kind == "Min" and l.endswith(".upper") and not l.startswith("extreme_bounds") and r == "extreme_bounds.lower"))
                R.ob("P-BIGM", "extreme-bigM:%s" % kind, ok, F.loc(fe, n), "exact %s rows use the constant `%s`; it must be an upper bound of (aux - operand): U(aux) - L(operand) for max, U(operand) - L(aux) for min" % (kind, sexp(a)))
                # the row it sits in: Max -> aux <= operand + M(1-s); Min -> aux >= operand - M(1-s)
                row = None
                for c in walk(fe["body"]):
                    if c.get("k") == "Call" and norm(c.get("callee") or "").endswith("Constraint::new") and any(x is n for x in walk(c)):
                        row = c
                if row is not None:
                    cmpv = sexp(row["args"][1]).rsplit("::", 1)[-1]
                    comb = strip(row["args"][2])
                    combf = norm(comb.get("callee") or "").rsplit("::", 1)[-1] if comb.get("k") == "Call" else "?"
                    want_row = {"Max": ("LessOrEqual", "add_exp"), "Min": ("GreaterOrEqual", "sub_exp")}[kind] if kind in ("Max", "Min") else None
                    R.ob("P-BIGM", "extreme-exact-row:%s" % kind, (cmpv, combf) == want_row, F.loc(fe, row), "exact %s row is `aux %s %s(operand, M*(1-selector))`, expected %s" % (kind, cmpv, combf, want_row))
    # (ii) pruning tests
    for m in walk(fe["body"]):
        if m.get("k") == "Match" and base_ty(F.ty(m["scrut"]) or "") == EK and F.ty(m) == "bool":
            am = c04.arm_map(F, m, EK)
            if not all(strip(a[0]["body"]).get("k") == "Binary" and strip(a[0]["body"]).get("op") in (">=", "<=", ">", "<") for a in am.values()):
                continue  # the finiteness guard, checked by D-FINITE
            for kind, want in (("Max", ("other_bounds.lower", ">=", "bounds.upper")), ("Min", ("other_bounds.upper", "<=", "bounds.lower"))):
                b = strip(am[kind][0]["body"]) if kind in am else {}
                got = (sexp(strip(b.get("a", {}))) if b.get("a") else None, b.get("op"), sexp(strip(b.get("b", {}))) if b.get("b") else None)
                R.ob("P-BIGM", "prune:%s" % kind, got == want, F.loc(fe, m), "an operand of %s may be dropped only when `%s %s %s`; code tests `%s %s %s`" % ((kind,) + want + got))
    # (iii) sign-known abs shortcuts and (iv) abs rows
    abs_arm = None
    for m in walk(fl["body"]):
        if m.get("k") == "Match":
            for arm in m["arms"]:
                if sexp(arm["pat"]).startswith("Exp::Abs"):
                    abs_arm = arm
    if abs_arm is None:
        R.ob("P-BIGM", "abs-arm", False, F.loc(fl), "abs arm not found")
        return
    ifs = [n for n in walk(abs_arm["body"]) if n.get("k") == "If"]
    sc = {}
    for i in ifs:
        c = strip(i["cond"])
        if c.get("k") == "Binary" and strip(c["b"]).get("k") == "Lit" and "bounds" in sexp(c["a"]):
            sc[(sexp(strip(c["a"])).split(".")[-1], c["op"])] = i
    pos = sc.get(("lower", ">="))
    neg = sc.get(("upper", "<="))
    okp = pos is not None and any(is_linearize_call(x) and classify_requirement(F, fl, x["args"][1], req_param_ids(F, fl)) == "+" for x in walk(pos["then"])) and not any(x.get("k") == "MCall" and x["name"] == "mul_by" for x in walk(pos["then"]))
    R.ob("P-BIGM", "abs-shortcut:nonnegative", okp, F.loc(fl, pos) if pos else F.loc(fl), "|e| = e may be used only when L(e) >= 0, with the requirement unchanged")
    okn = neg is not None and any(is_linearize_call(x) and classify_requirement(F, fl, x["args"][1], req_param_ids(F, fl)) == "-" for x in walk(neg["then"])) and any(x.get("k") == "MCall" and x["name"] == "mul_by" and lit_sign(x["args"][0]) == "-" for x in walk(neg["then"]))
    R.ob("P-BIGM", "abs-shortcut:nonpositive", okn, F.loc(fl, neg) if neg else F.loc(fl), "|e| = -e may be used only when U(e) <= 0, with the requirement reversed and the value negated")
    rows = [c for c in walk(abs_arm["body"]) if c.get("k") == "Call" and norm(c.get("callee") or "").endswith("Constraint::new")]
    shapes = []
    for r in rows:
        cmpv = sexp(r["args"][1]).rsplit("::", 1)[-1]
        rhs = strip(r["args"][2])
        t = sexp(rhs)
        if "inner_bounds" in t:
            fld = "lower" if "inner_bounds.lower" in t else "upper"
            comb = norm(rhs.get("callee") or "").rsplit("::", 1)[-1]
            selector_side = "1-positive" if "sub_exp(Exp::Number(1.0)" in t.replace("model::", "") or "Number(1.0), " in t and "sub_exp" in t.split("Number(2.0")[1] else "positive"
            neg_inner = "UnOp::Neg" in t or "Neg" in t.split("mul_exp")[0]
            shapes.append((cmpv, comb, fld, selector_side, neg_inner))
        else:
            shapes.append((cmpv, "neg" if "Neg" in t else "pos"))
    want = {("GreaterOrEqual", "pos"), ("GreaterOrEqual", "neg"), ("LessOrEqual", "sub_exp", "lower", "1-positive", False), ("LessOrEqual", "add_exp", "upper", "positive", True)}
    R.table("abs_rows", [list(s) for s in shapes])
    R.ob("P-BIGM", "abs-rows", set(shapes) == want and len(shapes) == 4, F.loc(fl, abs_arm["body"]),
         "abs rows %s; expected aux >= e, aux >= -e, aux <= e - 2L(e)(1-p), aux <= -e + 2U(e)p (L-typed factor with (1-p), U-typed factor with p)" % sorted(map(str, shapes)))
    # selector rows end with sum(selectors) = 1
    last = [c for c in walk(fe["body"]) if c.get("k") == "Call" and norm(c.get("callee") or "").endswith("Constraint::new") and "sum_exps" in sexp(c["args"][0])]
    ok = len(last) == 1 and sexp(last[0]["args"][1]).endswith("Comparison::Equal") and sexp(strip(last[0]["args"][2])).endswith("Number(1.0)")
    R.ob("P-BIGM", "selectors-sum-to-one", ok, F.loc(fe), "exactly one selector must be active: sum(selectors) = 1")


# ---- D-APPLY -----------------------------------------------------------------------------

def d_apply(F, R):
    import mirlib
    n = 0
    for f in F.fn_list:
        if "body" not in f:
            continue
        calls = [x for x in walk(f["body"]) if x.get("k") == "Call" and norm(x.get("callee") or "").endswith("BoundsAnalyzer::analyze")]
        if not calls:
            continue
        body = F.mir.get(f["path"])
        if body is None:
            continue
        n += 1
        R.fn(f["path"])
        cfg = mirlib.Cfg(body)
        ap = [bi for bi, t in cfg.calls() if mirlib.callee(t).endswith("BoundsAnalyzer::apply_to_domain")]
        mk = [bi for bi, t in cfg.calls() if mirlib.callee(t).endswith("Linearizer::new_from_with_bounds")]
        ok = bool(ap) and bool(mk) and all(any(cfg.dominates(a, m) for a in ap) for m in mk)
        # same domain local: HIR
        same = False
        for x in walk(f["body"]):
            if x.get("k") == "MCall" and x["name"] == "apply_to_domain":
                did = free_locals(x["args"][0])
                for y in walk(f["body"]):
                    if y.get("k") == "Call" and norm(y.get("callee") or "").endswith("new_from_with_bounds"):
                        same = free_locals(y["args"][1]) == did and free_locals(y["args"][2]) == free_locals(x["recv"])
        R.ob("D-APPLY", f["path"], ok and same, F.loc(f), "the derived bounds must be applied to the very domain that is handed to the linearizer together with them (the rewrites assume the published ranges): apply dominates construction: %s, same domain and analyzer: %s" % (ok, same))
    R.ob("D-APPLY", "sites", n == 2, "", "expected 2 analyse->apply->construct sites, found %d" % n)
    # auxiliaries: declare_variable registers in bounds and in the domain; it is the only writer of the domain
    g = F.fn("transformers::linearizer::Linearizer::declare_variable")
    if g is not None:
        names = [x["name"] for x in walk(g["body"]) if x.get("k") == "MCall"]
        R.ob("D-APPLY", "declare_variable:bounds+domain", "insert_variable" in names and "insert" in names, F.loc(g), "an auxiliary must be registered in the bounds analyzer and in the domain: calls %s" % names)
    writers = set()
    for f in F.fn_list:
        if "body" not in f or not f.get("file", "").endswith(LIN_FILE):
            continue
        for x in walk(f["body"]):
            if x.get("k") == "MCall" and x["name"] in ("insert", "shift_remove", "swap_remove", "remove", "entry", "retain", "clear") and sexp(strip(x["recv"])).endswith(".domain"):
                writers.add(f["path"])
    R.ob("D-APPLY", "domain-writers", writers == {"transformers::linearizer::Linearizer::declare_variable"}, "packages/rooc/src/transformers/linearizer.rs", "functions that modify Linearizer::domain: %s (only declare_variable may)" % sorted(writers))


def d_offset(F, R):
    f = F.fn("transformers::linearizer::Linearizer::linearize")
    if f is None:
        return
    lf = LocalFlow(f["body"])
    c = [n for n in walk(f["body"]) if n.get("k") == "Call" and norm(n.get("callee") or "").endswith("LinearModel::new_from_parts")]
    if not c:
        return
    off = strip(c[0]["args"][2])
    defs = [sexp(d) for d in lf.defs.get(off.get("id"), [])] if off.get("k") == "Path" else [sexp(off)]
    R.ob("D-OFFSET", "linearize:offset", len(defs) == 1 and defs[0].endswith(".current_rhs") and "linearized_objective" in defs[0], F.loc(f, c[0]), "the objective offset handed to the linear model must be the constant of the linearised objective, unmodified: %s" % defs)
    co = strip(c[0]["args"][0])
    cdefs = [sexp(d) for d in lf.defs.get(co.get("id"), [])] if co.get("k") == "Path" else []
    R.ob("D-OFFSET", "linearize:coefficients", any("linearized_objective.current_vars" in d and "extract_coeffs" in d for d in cdefs), F.loc(f, c[0]), "objective coefficients must come from the linearised objective: %s" % cdefs)
    ty = strip(c[0]["args"][1])
    tdefs = [sexp(d) for d in lf.defs.get(ty.get("id"), [])] if ty.get("k") == "Path" else []
    R.ob("D-OFFSET", "linearize:direction", any("objective.objective_type" in d for d in tdefs), F.loc(f, c[0]), "the optimisation direction must be the model's own: %s" % tdefs)


def check_c01(F, R):
    t_logic_templates(F, R)
    t_num_templates(F, R)
    p_req(F, R)
    t_convex(F, R)
    p_bigm(F, R)
    d_apply(F, R)
    import c08
    c08.d_finite(F, R)


def check_c02(F, R):
    p_req(F, R)
    t_convex(F, R)
    d_offset(F, R)
    c04.d_activity_offset(F, R)
    # the one-sided lowerings are exactly what keeps optimal values right: under `lower is better` no value below f may be
    # let in (and f itself must stay reachable), dually for `higher is better`
    t_num_templates(F, R, reqs=("PreferLower", "PreferHigher"))


# ---- T-LOGIC-TEMPLATES ----------------------------------------------------------------------
# The rows emitted for logic forms are closed templates over 0/1 operands.  The lowering functions
# are evaluated from their HIR by the table interpreter, with the linearizer context replaced by a
# recorder (emit_constraint / declare_variable / reify capture what is emitted) and Boolean leaf
# operands; the captured rows are then checked on the whole Boolean cube:
#   assertion forms:  exists aux in {0,1}^m with all rows true  <=>  f(operands) == asserted value
#   reified forms:    all rows true  <=>  z == f(operands)
# This is exhaustive evaluation of an extracted finite template, not execution of rooc.

import itertools as _it
from fractions import Fraction as _Fr


class _Aff:
    def __init__(self, coeffs=None, const=0.0):
        self.c = dict(coeffs or {})
        self.k = const

    def __repr__(self):
        return "Aff(%r,%r)" % (self.c, self.k)


def _logic_models(I, F, rec):
    import c10
    EXPP = c10.EXP
    L = "transformers::linearizer::"
    LC = L + "LinearizationContext::"
    OK = "std::result::Result::Ok"
    SOME = "std::option::Option::Some"
    NONE = "std::option::Option::None"
    from interp import Var as V, Rope as Rp, ListV as LV, Unknown as Un

    def name_of(v):
        x = v.args[0]
        return x.text() if isinstance(x, Rp) else str(x)

    def bav(exp):
        if not isinstance(exp, V):
            return None
        n = exp.path.rsplit("::", 1)[-1]
        if n == "Number" and isinstance(exp.args[0], (int, float)) and exp.args[0] in (0.0, 1.0):
            return _Aff({}, float(exp.args[0]))
        if n == "Variable":
            return _Aff({name_of(exp): 1.0}, 0.0)
        if n == "Not":
            a = bav(exp.args[0])
            return None if a is None else _Aff({k: -v for k, v in a.c.items()}, 1.0 - a.k)
        if n == "UnOp" and exp.args[0].path.endswith("UnOp::Not"):
            a = bav(exp.args[1])
            return None if a is None else _Aff({k: -v for k, v in a.c.items()}, 1.0 - a.k)
        return None

    def to_exp(a):
        e = V(EXPP + "::Number", [a.k])
        for nm, co in a.c.items():
            term = V(EXPP + "::BinOp", [V("math::operators::BinOp::Mul"), V(EXPP + "::Number", [co]), V(EXPP + "::Variable", [Rp([nm])])])
            e = V(EXPP + "::BinOp", [V("math::operators::BinOp::Add"), e, term])
        return e

    def m_bav(I_, args):
        a = bav(args[0])
        return V(NONE) if a is None else V(SOME, [a])

    def m_mul(I_, args):
        a, k = args
        a.c = {n: v * k for n, v in a.c.items()}
        a.k *= k
        return ()

    def m_addrhs(I_, args):
        args[0].k += args[1]
        return ()

    def m_lbo(I_, args):
        out = []
        for e in args[0].items:
            a = bav(e)
            if a is None:
                return Un("non-leaf operand in a template evaluation")
            out.append(to_exp(a))
        return V(OK, [LV(out)])

    def m_emit(I_, args):
        rec["rows"].append((args[1], args[2], args[3]))
        return V(OK, [()])

    def m_decl(I_, args):
        nm = args[1].text() if isinstance(args[1], Rp) else str(args[1])
        rec["aux"].append(nm)
        return V(OK, [()])

    def m_reify(I_, args):
        nm = args[0].text() if isinstance(args[0], Rp) else str(args[0])
        z = V(EXPP + "::Variable", [Rp([nm])])
        for t in args[1].items:
            rec["rows"].append((z, t[0], t[1]))
        rec["aux"].append(nm)
        rec["reified"] = nm
        return V(OK, [_Aff({nm: 1.0}, 0.0)])

    I.models[L + "binary_affine_value"] = m_bav
    I.models[LC + "mul_by"] = m_mul
    I.models[LC + "add_rhs"] = m_addrhs
    I.models[L + "context_to_exp"] = lambda I_, a: to_exp(a[0])
    I.models[L + "is_binary_context"] = lambda I_, a: True
    I.models[LC + "from_var"] = lambda I_, a: _Aff({(a[0].text() if isinstance(a[0], Rp) else str(a[0])): float(a[1])}, 0.0)
    I.models[LC + "from_rhs"] = lambda I_, a: _Aff({}, float(a[0]))
    I.models[L + "Linearizer::emit_constraint"] = m_emit
    I.models[L + "Linearizer::declare_variable"] = m_decl
    I.models[L + "reify_logic_variable"] = m_reify


def _logic_forms():
    """(tree, operand names): logic expressions of depth <= 2 over Boolean leaves a, b, c"""
    import c10
    a, b, c = ("var", "a"), ("var", "b"), ("var", "c")
    leaves = [a, b, c]
    d1 = [("nary", "And", [a, b]), ("nary", "And", [a, b, c]), ("nary", "Or", [a, b]), ("nary", "Or", [a, b, c]),
          ("logic", "Implies", a, b), ("logic", "Iff", a, b), ("logic", "Xor", a, b), ("not", a)]
    out = list(d1)
    for x in d1:
        for y in (c, ("not", c)):
            out.append(("nary", "And", [x, y]))
            out.append(("nary", "Or", [x, y]))
            out.append(("logic", "Implies", x, y))
            out.append(("logic", "Implies", y, x))
            out.append(("logic", "Iff", x, y))
            out.append(("logic", "Xor", x, y))
        out.append(("not", x))
    out.append(("nary", "Or", [("nary", "And", [a, b]), ("nary", "And", [b, c])]))
    out.append(("nary", "And", [("nary", "Or", [a, b]), ("nary", "Or", [b, c])]))
    out.append(("logic", "Implies", ("nary", "And", [a, b]), ("nary", "Or", [b, c])))
    return c10.dedup(out)


def _row_holds(c10, row, env):
    lhs, cmp, rhs = row
    l = c10.evaluate(c10.from_val(lhs), env)
    r = c10.evaluate(c10.from_val(rhs), env)
    k = cmp.path.rsplit("::", 1)[-1]
    return {"LessOrEqual": l <= r, "GreaterOrEqual": l >= r, "Equal": l == r, "Less": l < r, "Greater": l > r}[k]


def t_logic_templates(F, R):
    import c10
    from interp import Interp, Var as V, Rope as Rp, ListV as LV, is_unknown
    I = Interp(F, max_depth=200)
    rec = {"rows": [], "aux": []}
    _logic_models(I, F, rec)
    L = "transformers::linearizer::"
    for p in (L + "lower_logic_assertion", L + "try_lower_affine_logic_assertion", L + "directional_logic_witness"):
        R.fn(p)

    def fresh_ctx():
        return V(L + "Linearizer", fields={k: 0 for k in ("and_count", "or_count", "xor_count", "implies_count", "iff_count", "abs_count", "min_count", "max_count", "logic_witness_count")} | {"domain": V("DOMAIN")})

    forms = _logic_forms()
    n_ok = n = 0
    for t in forms:
        ops = sorted(set(c10._vars(t)))
        for must in (True, False):
            rec["rows"], rec["aux"] = [], []
            rec.pop("reified", None)
            r = I.call_fn(L + "lower_logic_assertion", [c10.to_val(t), must, Rp(["row"]), fresh_ctx()])
            key = "assert-%s:%s" % ("true" if must else "false", c10.show(t))
            n += 1
            if is_unknown(r) or not (isinstance(r, V) and r.path.endswith("Result::Ok")):
                R.ob("T-LOGIC-TEMPLATES", key, False, "packages/rooc/src/transformers/linearizer.rs", "assertion lowering not evaluable on this form: %r" % (r,))
                continue
            bad = None
            try:
                for sig in _it.product((0, 1), repeat=len(ops)):
                    env = {o: _Fr(v) for o, v in zip(ops, sig)}
                    want = (c10.evaluate(t, env) != 0) == must
                    feasible = False
                    for aux in _it.product((0, 1), repeat=len(rec["aux"])):
                        e2 = dict(env)
                        e2.update({a_: _Fr(v) for a_, v in zip(rec["aux"], aux)})
                        if all(_row_holds(c10, row, e2) for row in rec["rows"]):
                            feasible = True
                            break
                    if feasible != want:
                        bad = "at %s the source form is %s but the emitted rows are %s" % (dict(zip(ops, sig)), "satisfied" if want else "violated", "satisfiable" if feasible else "unsatisfiable")
                        break
            except Exception as ex:  # rows mention something the evaluator does not know
                bad = "rows not evaluable: %s" % ex
            if bad is None:
                n_ok += 1
            R.ob("T-LOGIC-TEMPLATES", key, bad is None, "packages/rooc/src/transformers/linearizer.rs",
                 "asserting `%s` %s emits %d row(s) with %d auxiliar(ies): %s" % (c10.show(t), "true" if must else "false", len(rec["rows"]), len(rec["aux"]), bad or "equivalent on the whole Boolean cube"))
            if len(R.samples) < 8:
                R.sample({"form": c10.show(t), "asserted": must, "rows": ["%s %s %s" % (c10.show(c10.from_val(l)), cmp.path.rsplit("::", 1)[-1], c10.show(c10.from_val(rr))) for l, cmp, rr in rec["rows"]]})
    # reified forms (the value of a logic expression used in arithmetic)
    a, b, c = ("var", "a"), ("var", "b"), ("var", "c")
    reif = [("nary", "And", [a]), ("nary", "And", [a, b]), ("nary", "And", [a, b, c]), ("nary", "Or", [a]), ("nary", "Or", [a, b]), ("nary", "Or", [a, b, c]),
            ("logic", "Implies", a, b), ("logic", "Iff", a, b), ("logic", "Xor", a, b),
            ("nary", "And", [("not", a), b]), ("logic", "Implies", ("not", a), b), ("logic", "Xor", a, ("not", b))]
    for t in reif:
        rec["rows"], rec["aux"] = [], []
        rec.pop("reified", None)
        r = I.call_fn(EXP_LIN, [c10.to_val(t), fresh_ctx(), V(VR + "::Exact")])
        key = "reify:" + c10.show(t)
        z = rec.get("reified")
        if z is None:
            R.ob("T-LOGIC-TEMPLATES", key, False, "packages/rooc/src/transformers/linearizer.rs", "reified lowering not evaluable: %r" % (r,))
            continue
        ops = sorted(set(c10._vars(t)))
        bad = None
        for sig in _it.product((0, 1), repeat=len(ops)):
            for zv in (0, 1):
                env = {o: _Fr(v) for o, v in zip(ops, sig)}
                env[z] = _Fr(zv)
                holds = all(_row_holds(c10, row, env) for row in rec["rows"])
                want = (c10.evaluate(t, {o: _Fr(v) for o, v in zip(ops, sig)}) != 0) == (zv == 1)
                if holds != want:
                    bad = "at %s, z=%d the rows %s but z %s the value" % (dict(zip(ops, sig)), zv, "hold" if holds else "fail", "equals" if want else "differs from")
        R.ob("T-LOGIC-TEMPLATES", key, bad is None, "packages/rooc/src/transformers/linearizer.rs", "reified `%s` emits %d rows: %s" % (c10.show(t), len(rec["rows"]), bad or "rows hold iff z = value, on the whole cube"))
    R.count("T-LOGIC-TEMPLATES.forms", len(forms))
    # the stubbed helper is checked structurally: `not e` is 1 - e
    f = F.fn(L + "binary_affine_value")
    if f is not None:
        R.fn(f["path"])
        nots = 0
        for m in walk(f["body"]):
            if m.get("k") == "Match":
                for arm in m["arms"]:
                    p = sexp(arm["pat"])
                    if p.startswith("Exp::Not") or p.endswith("UnOp::Not"):
                        t = sexp(arm["body"])
                        if "mul_by(-1.0)" in t and "add_rhs(1.0)" in t:
                            nots += 1
        R.ob("T-LOGIC-TEMPLATES", "binary_affine_value:not-is-one-minus", nots == 2, F.loc(f), "`not e` must be valued 1 - e in both spellings (found %d)" % nots)
    g = F.fn(L + "reify_logic_variable")
    if g is not None:
        R.fn(g["path"])
        t = sexp(g["body"])
        R.ob("T-LOGIC-TEMPLATES", "reify:rows-and-domain", "Constraint::new(Exp::Variable(var_name.clone()), comparison, rhs" in t.replace("model::", "").replace("parser::model_transformer::", "") and "VariableType::Boolean" in t, F.loc(g), "a reified value z is tied by rows `z <cmp> rhs` and declared Boolean")


# ---- T-NUM-TEMPLATES ------------------------------------------------------------------------------------
# abs / min / max lowering: the arms of Exp::linearize and linearize_extreme are evaluated from their HIR with the
# linearizer context replaced by a recorder (declared auxiliaries with their domains, emitted rows) and the bounds oracle
# replaced by a table of operand intervals.  For every representative interval class (sign-known, sign-unknown, half
# bounded, unbounded, dominated / overlapping / equal-fixed operands) and every value requirement, the emitted rows are
# decided on a rational grid of operand values (non-integers included): with t the auxiliary, some 0/1 choice of the
# selectors satisfies all rows and t's declared domain
#     Exact         iff value = f(operands)
#     PreferLower   only if value >= f(operands), and value = f(operands) is possible
#     PreferHigher  only if value <= f(operands), and value = f(operands) is possible
# A refusal (MissingFiniteBounds) is accepted only when the needed bound is infinite.

def _has_nonfinite(t):
    if isinstance(t, tuple):
        if t and t[0] == "num" and isinstance(t[1], float) and (t[1] != t[1] or abs(t[1]) == float("inf")):
            return True
        return any(_has_nonfinite(x) for x in t[1:])
    if isinstance(t, list):
        return any(_has_nonfinite(x) for x in t)
    return False


def t_num_templates(F, R, reqs=("Exact", "PreferLower", "PreferHigher")):
    import c10
    import itertools as it
    from fractions import Fraction as Fr
    from interp import Interp, Var as V, Rope as Rp, ListV as LV, Leaf as Lf, is_unknown
    L = "transformers::linearizer::"
    LC = L + "LinearizationContext::"
    BND = "transformers::bounds::Bounds"
    INF = float("inf")
    OK = "std::result::Result::Ok"
    I = Interp(F, max_depth=200)
    rec = {"rows": [], "aux": {}, "bounds": {}}

    def name_of(v):
        x = v.args[0]
        return x.text() if isinstance(x, Rp) else str(x)

    def bounds_of_exp(e):
        n = e.path.rsplit("::", 1)[-1]
        if n == "Variable":
            return rec["bounds"][name_of(e)]
        if n == "Number":
            return (float(e.args[0]), float(e.args[0]))
        if n in ("Min", "Max"):
            bs = [bounds_of_exp(x) for x in e.args[0].items]
            f = min if n == "Min" else max
            return (f(b[0] for b in bs), f(b[1] for b in bs))
        raise KeyError(n)

    def m_bounds(I_, a):
        lo, hi = bounds_of_exp(a[1])
        return V(BND, fields={"lower": lo, "upper": hi})

    def to_exp(aff):
        e = V(c10.EXP + "::Number", [aff.k])
        for nm, co in aff.c.items():
            term = V(c10.EXP + "::BinOp", [V("math::operators::BinOp::Mul"), V(c10.EXP + "::Number", [co]), V(c10.EXP + "::Variable", [Rp([nm])])])
            e = V(c10.EXP + "::BinOp", [V("math::operators::BinOp::Add"), e, term])
        return e

    def m_mul(I_, a):
        a[0].c = {n: v * a[1] for n, v in a[0].c.items()}
        a[0].k *= a[1]
        return ()

    def m_decl(I_, a):
        nm = a[1].text() if isinstance(a[1], Rp) else str(a[1])
        rec["aux"][nm] = a[2]
        return V(OK, [()])

    def m_addc(I_, a):
        c = a[1]
        rec["rows"].append((c.fields["lhs"], c.fields["constraint_type"], c.fields["rhs"]))
        return ()
    def m_merge(sign):
        def f(I_, a):
            for n_, v_ in a[1].c.items():
                a[0].c[n_] = a[0].c.get(n_, 0.0) + sign * v_
            a[0].k += sign * a[1].k
            return ()
        return f

    def m_div(I_, a):
        a[0].c = {n_: v_ / a[1] for n_, v_ in a[0].c.items()}
        a[0].k /= a[1]
        return ()
    I.models[LC + "mul_by"] = m_mul
    I.models[LC + "div_by"] = m_div
    I.models[LC + "merge_add"] = m_merge(1.0)
    I.models[LC + "merge_sub"] = m_merge(-1.0)
    I.models[LC + "from_var"] = lambda I_, a: _Aff({(a[0].text() if isinstance(a[0], Rp) else str(a[0])): float(a[1])}, 0.0)
    I.models[LC + "from_rhs"] = lambda I_, a: _Aff({}, float(a[0]))
    I.models[L + "context_to_exp"] = lambda I_, a: to_exp(a[0])
    I.models[L + "Linearizer::declare_variable"] = m_decl
    I.models[L + "Linearizer::add_constraint"] = m_addc
    I.models[L + "variables_without_finite_bounds"] = lambda I_, a: LV([])
    for p in (EXP_LIN, L + "linearize_extreme"):
        R.fn(p)

    def fresh_ctx():
        # the bounds oracle is the crate's own BoundsAnalyzer::bounds_of over a table of variable intervals
        an = V("transformers::bounds::BoundsAnalyzer", fields={"variable_bounds": LV([(n_, V(BND, fields={"lower": lo_, "upper": hi_})) for n_, (lo_, hi_) in rec["bounds"].items()]), "tolerance": 1e-9, "reached_iteration_limit": False, "detected_infeasible": False})
        return V(L + "Linearizer", fields={"abs_count": 0, "min_count": 0, "max_count": 0, "bounds": an, "domain": V("DOMAIN")})

    def var(n):
        return V(c10.EXP + "::Variable", [Rp([n])])

    def grid(lo, hi):
        lo2 = max(lo, -6.0)
        hi2 = min(hi, 9.0)
        pts = set()
        x = Fr(int(lo2 * 2), 2)
        while x <= Fr(int(hi2 * 2), 2):
            if lo <= x <= hi:
                pts.add(x)
            x += Fr(1, 2)
        for e in (lo, hi):
            if e not in (INF, -INF):
                pts.add(Fr(e))
        m = (Fr(lo2) + Fr(hi2)) / 2 + Fr(1, 3)
        if lo <= m <= hi:
            pts.add(m)
        return sorted(pts)

    def in_domain(ty, val):
        k = ty.path.rsplit("::", 1)[-1]
        if k == "Boolean":
            return val in (0, 1)
        lo, hi = ty.args[0], ty.args[1]
        return (lo == -INF or val >= Fr(lo)) and (hi == INF or val <= Fr(hi))

    def holds(row, env):
        l = c10.evaluate(c10.from_val(row[0]), env)
        r = c10.evaluate(c10.from_val(row[1 + 1]), env)
        k = row[1].path.rsplit("::", 1)[-1]
        return {"LessOrEqual": l <= r, "GreaterOrEqual": l >= r, "Equal": l == r}[k]

    def decide(key, exp, names, f, req, where, inner_values=None):
        """evaluate the lowering of exp under req and check the rows on the grid of the operands' intervals"""
        rec["rows"], rec["aux"] = [], {}
        r = I.call_fn(EXP_LIN, [exp, fresh_ctx(), V(VR + "::" + req)])
        if is_unknown(r):
            R.ob("T-NUM-TEMPLATES", key, False, where, "lowering not evaluable: %r" % (r,))
            return
        bs = [rec["bounds"][n] for n in names]
        if isinstance(r, V) and r.path.endswith("Result::Err"):
            e = r.args[0]
            refused = isinstance(e, V) and e.path.endswith("MissingFiniteBounds")
            needs = any(b[0] == -INF or b[1] == INF for b in bs)
            R.ob("T-NUM-TEMPLATES", key, refused and needs, where, "refused with %s; an exact big-M lowering needs finite bounds and %s" % (e.path.rsplit("::", 1)[-1] if isinstance(e, V) else e, "a bound is infinite" if needs else "all bounds are finite: the refusal is not justified"))
            return
        aff = r.args[0]
        bools = [n for n, t in rec["aux"].items() if t.path.endswith("Boolean")]
        conts = [n for n in rec["aux"] if n not in bools]
        bad = None
        n_pts = 0
        # a row with a non-finite constant (an infinite big-M) is not a linear row at all
        for row in rec["rows"]:
            for side in (row[0], row[2]):
                t_ = c10.from_val(side)
                if t_ is None or _has_nonfinite(t_):
                    bad = "an emitted row has a non-finite or unreadable constant: %s %s %s" % (c10.show(c10.from_val(row[0])) if c10.from_val(row[0]) else row[0], row[1].path.rsplit("::", 1)[-1], c10.show(c10.from_val(row[2])) if c10.from_val(row[2]) else row[2])
        if bad:
            R.ob("T-NUM-TEMPLATES", key, False, where, bad)
            return
        if len(conts) > 3:
            R.ob("T-NUM-TEMPLATES", key, False, where, "more than three continuous auxiliaries: %s" % conts)
            return
        grids = [grid(*b) for b in bs]
        if len(conts) > 1:
            # nested forms: thin the operand grid, the auxiliaries multiply the candidates
            grids = [g[::2] + ([g[-1]] if len(g) % 2 == 0 else []) for g in grids]
        for pt in it.product(*grids):
            env0 = dict(zip(names, pt))
            want = f(*pt)
            base = {want, want + 1, want - 1, want + Fr(1, 2), want - Fr(1, 2)} | set(pt) | {-x for x in pt}
            if inner_values is not None:
                for v_ in inner_values(*pt):
                    base |= {v_, -v_, v_ + 1, v_ - 1}
            cands = sorted(base)
            feas = set()
            for ts in it.product(cands, repeat=len(conts)):
                if any(not in_domain(rec["aux"][c_], t_) for c_, t_ in zip(conts, ts)):
                    continue
                for sel in it.product((0, 1), repeat=len(bools)):
                    env = dict(env0)
                    env.update({b_: Fr(s_) for b_, s_ in zip(bools, sel)})
                    env.update(dict(zip(conts, ts)))
                    if all(holds(row, env) for row in rec["rows"]):
                        val = sum((Fr(co) * env[nm] for nm, co in aff.c.items()), Fr(aff.k))
                        feas.add(val)
                        break
            n_pts += 1
            if want not in feas:
                bad = "at %s the value %s = f(operands) is cut off (feasible values among the candidates: %s)" % (dict((k_, str(v_)) for k_, v_ in env0.items()), want, sorted(str(x) for x in feas))
            elif req == "Exact" and feas != {want}:
                bad = "at %s values %s other than f = %s are let in" % (dict((k_, str(v_)) for k_, v_ in env0.items()), sorted(str(x) for x in feas if x != want), want)
            elif req == "PreferLower" and any(x < want for x in feas):
                bad = "at %s a value below f = %s is let in where lower is preferred: %s" % (dict((k_, str(v_)) for k_, v_ in env0.items()), want, sorted(str(x) for x in feas))
            elif req == "PreferHigher" and any(x > want for x in feas):
                bad = "at %s a value above f = %s is let in where higher is preferred: %s" % (dict((k_, str(v_)) for k_, v_ in env0.items()), want, sorted(str(x) for x in feas))
            if bad:
                break
        R.ob("T-NUM-TEMPLATES", key, bad is None, where, "%d rows, auxiliaries %s: %s" % (len(rec["rows"]), {k_: v_.path.rsplit("::", 1)[-1] for k_, v_ in rec["aux"].items()}, bad or "correct on %d operand points" % n_pts))

    where = "packages/rooc/src/transformers/linearizer.rs"
    abs_classes = [(-3.0, 5.0), (0.0, 5.0), (-5.0, 0.0), (-3.0, -1.0), (2.0, 4.0), (-4.0, 0.5), (-0.5, 4.0), (0.0, 0.0), (-INF, 5.0), (-3.0, INF), (-INF, INF), (-INF, -1.0), (1.0, INF)]
    for b in abs_classes:
        for req in reqs:
            rec["bounds"] = {"x": b}
            decide("abs[%s,%s]:%s" % (b[0], b[1], req), V(c10.EXP + "::Abs", [var("x")]), ["x"], lambda x: abs(x), req, where)
    pair_classes = [((0.0, 5.0), (2.0, 8.0)), ((0.0, 5.0), (5.0, 8.0)), ((0.0, 5.0), (6.0, 8.0)), ((2.0, 8.0), (0.0, 5.0)), ((1.0, 1.0), (1.0, 1.0)), ((-3.0, 3.0), (-1.0, 1.0)),
                    ((-2.5, 0.5), (0.25, 4.0)), ((-INF, 5.0), (0.0, 3.0)), ((0.0, INF), (0.0, 3.0)), ((-INF, INF), (0.0, 3.0)), ((0.0, 3.0), (0.0, 3.0)), ((-4.0, -1.0), (-2.0, 6.0))]
    for kind, f in (("Max", max), ("Min", min)):
        for bx, by in pair_classes:
            for req in reqs:
                rec["bounds"] = {"x": bx, "y": by}
                decide("%s[%s,%s|%s,%s]:%s" % (kind.lower(), bx[0], bx[1], by[0], by[1], req), V(c10.EXP + "::" + kind, [LV([var("x"), var("y")])]), ["x", "y"], f, req, where)
        for req in reqs:
            rec["bounds"] = {"x": (0.0, 5.0), "y": (2.0, 8.0), "z": (-1.0, 3.0)}
            decide("%s3:%s" % (kind.lower(), req), V(c10.EXP + "::" + kind, [LV([var("x"), var("y"), var("z")])]), ["x", "y", "z"], f, req, where)
            rec["bounds"] = {"x": (0.0, 5.0)}
            decide("%s-const:%s" % (kind.lower(), req), V(c10.EXP + "::" + kind, [LV([var("x"), V(c10.EXP + "::Number", [2.0])])]), ["x"], (lambda x, f=f: f(x, 2)), req, where)
    # nested forms: the requirement handed to the inner form (reversed under a non-positive abs argument, exact under a
    # sign-unknown one) decides whether the composition is still right
    E = c10.EXP
    mx = lambda a, b: V(E + "::Max", [LV([a, b])])
    mn = lambda a, b: V(E + "::Min", [LV([a, b])])
    ab = lambda a: V(E + "::Abs", [a])
    neg = lambda a: V(E + "::UnOp", [V("math::operators::UnOp::Neg"), a])

    def bounds_of_nested(e):
        n = e.path.rsplit("::", 1)[-1]
        if n == "Abs":
            lo, hi = bounds_of_nested(e.args[0])
            return (0.0 if lo <= 0 <= hi else min(abs(lo), abs(hi)), max(abs(lo), abs(hi)))
        if n == "UnOp":
            lo, hi = bounds_of_nested(e.args[1])
            return (-hi, -lo)
        if n in ("Min", "Max"):
            bs_ = [bounds_of_nested(x) for x in e.args[0].items]
            f_ = min if n == "Min" else max
            return (f_(b[0] for b in bs_), f_(b[1] for b in bs_))
        if n == "BinOp":
            o = e.args[0].path.rsplit("::", 1)[-1]
            (a0, a1), (b0, b1) = bounds_of_nested(e.args[1]), bounds_of_nested(e.args[2])
            if o == "Add":
                return (a0 + b0, a1 + b1)
            if o == "Sub":
                return (a0 - b1, a1 - b0)
            if o == "Mul":
                ps = [a0 * b0, a0 * b1, a1 * b0, a1 * b1]
                return (min(ps), max(ps))
            if o == "Div":
                ps = [a0 / b0, a1 / b0]
                return (min(ps), max(ps))
        return bounds_of_exp(e)
    R.fn("transformers::bounds::BoundsAnalyzer::bounds_of")
    nested = [
        ("abs(max)<=0", ab(mx(var("x"), var("y"))), {"x": (-5.0, -1.0), "y": (-4.0, -2.0)}, lambda x, y: abs(max(x, y)), lambda x, y: [max(x, y)]),
        ("abs(min)<=0", ab(mn(var("x"), var("y"))), {"x": (-5.0, -1.0), "y": (-4.0, -2.0)}, lambda x, y: abs(min(x, y)), lambda x, y: [min(x, y)]),
        ("abs(max)>=0", ab(mx(var("x"), var("y"))), {"x": (1.0, 5.0), "y": (2.0, 4.0)}, lambda x, y: abs(max(x, y)), lambda x, y: [max(x, y)]),
        ("abs(max)+-", ab(mx(var("x"), var("y"))), {"x": (-3.0, 2.0), "y": (-2.0, 1.0)}, lambda x, y: abs(max(x, y)), lambda x, y: [max(x, y)]),
        ("abs(min)+-", ab(mn(var("x"), var("y"))), {"x": (-3.0, 2.0), "y": (-2.0, 1.0)}, lambda x, y: abs(min(x, y)), lambda x, y: [min(x, y)]),
        ("max(abs,y)", mx(ab(var("x")), var("y")), {"x": (-3.0, 2.0), "y": (0.0, 4.0)}, lambda x, y: max(abs(x), y), lambda x, y: [abs(x)]),
        ("min(abs,y)", mn(ab(var("x")), var("y")), {"x": (-3.0, 2.0), "y": (0.0, 4.0)}, lambda x, y: min(abs(x), y), lambda x, y: [abs(x)]),
        ("-max", neg(mx(var("x"), var("y"))), {"x": (0.0, 3.0), "y": (1.0, 4.0)}, lambda x, y: -max(x, y), lambda x, y: [max(x, y)]),
        ("-abs", neg(ab(var("x"))), {"x": (-3.0, 2.0)}, lambda x: -abs(x), lambda x: [abs(x)]),
        ("max(min,z)", mx(mn(var("x"), var("y")), var("z")), {"x": (0.0, 3.0), "y": (1.0, 4.0), "z": (0.5, 2.0)}, lambda x, y, z: max(min(x, y), z), lambda x, y, z: [min(x, y)]),
    ]
    num = lambda c: V(E + "::Number", [float(c)])
    bop = lambda o, a, b: V(E + "::BinOp", [V("math::operators::BinOp::" + o), a, b])
    xb = {"x": (-3.0, 2.0)}
    xyb = {"x": (0.0, 3.0), "y": (1.0, 4.0)}
    nested += [
        ("abs/-2", bop("Div", ab(var("x")), num(-2)), xb, lambda x: abs(x) / -2, lambda x: [abs(x)]),
        ("abs/2", bop("Div", ab(var("x")), num(2)), xb, lambda x: abs(x) / 2, lambda x: [abs(x)]),
        ("-2*max", bop("Mul", num(-2), mx(var("x"), var("y"))), xyb, lambda x, y: -2 * max(x, y), lambda x, y: [max(x, y)]),
        ("min*-0.5", bop("Mul", mn(var("x"), var("y")), num(-0.5)), xyb, lambda x, y: min(x, y) * Fr(-1, 2), lambda x, y: [min(x, y)]),
        ("3*max", bop("Mul", num(3), mx(var("x"), var("y"))), xyb, lambda x, y: 3 * max(x, y), lambda x, y: [max(x, y)]),
        ("3-min", bop("Sub", num(3), mn(var("x"), var("y"))), xyb, lambda x, y: 3 - min(x, y), lambda x, y: [min(x, y)]),
        ("max-abs", bop("Sub", mx(var("x"), var("y")), ab(var("x"))), {"x": (-2.0, 2.0), "y": (0.0, 3.0)}, lambda x, y: max(x, y) - abs(x), lambda x, y: [max(x, y), abs(x)]),
        ("abs+max", bop("Add", ab(var("x")), mx(var("x"), var("y"))), {"x": (-2.0, 2.0), "y": (0.0, 3.0)}, lambda x, y: abs(x) + max(x, y), lambda x, y: [max(x, y), abs(x)]),
        ("-(max/-4)", neg(bop("Div", mx(var("x"), var("y")), num(-4))), xyb, lambda x, y: max(x, y) / 4, lambda x, y: [max(x, y)]),
    ]
    for label, exp, bnds, f, inner in nested:
        for req in reqs:
            rec["bounds"] = bnds
            decide("nested:%s:%s" % (label, req), exp, sorted(bnds), f, req, where, inner)
