"""M-TABLE (C16): the dispatch tables of the builder's macro_rules! definitions.

macro_rules! definitions never reach the HIR (and the crate does not invoke these macros itself), so they are read
as what they are: token trees.  A small Rust tokenizer groups builder/macros.rs into token trees, every
`macro_rules! name { (matcher) => { transcriber }; ... }` is split into arms, and the rules below work on the
matchers' literal tokens and the transcribers' call trees -- not on text positions or spelling of whitespace.

constraint! / munch_constraint: the arm dispatched by a comparison token builds BuilderConstraint::new(expr!(<left
fragment>), Comparison::<variant of that token>, expr!(<right fragment>), name); `->`, `<->` and the base arm build
new_logic_assertion over the whole formula; every dispatch arm comes before the token-munching arm, the base arm last.
expr! / munch_expr: `->` -> Expr::Implies(left, right), `<->` -> Expr::Iff(left, right), base -> Expr::from.
vars!: each domain keyword maps to its VariableType constructor with ($min, $max) in that order; array forms call
add_vars(stringify!(name), count, ..), scalar forms add_var(stringify!(name), ..);
every arm continues with the rest of the declarations; named constraint: `name :` sets c.name from stringify!(name)."""
import os
import re

PUNCT3 = ["<<=", ">>=", "...", "..="]
PUNCT2 = ["<=", ">=", "==", "!=", "->", "<-", "=>", "&&", "||", "::", "..", "+=", "-=", "*=", "/=", "<<", ">>"]
OPEN = {"(": ")", "[": "]", "{": "}"}


def tokenize(src):
    toks, i, n = [], 0, len(src)
    while i < n:
        c = src[i]
        if c.isspace():
            i += 1
        elif src.startswith("//", i):
            j = src.find("\n", i)
            i = n if j < 0 else j
        elif src.startswith("/*", i):
            i = src.find("*/", i) + 2
        elif c == '"':
            j = i + 1
            while src[j] != '"':
                j += 2 if src[j] == "\\" else 1
            toks.append(("lit", src[i:j + 1]))
            i = j + 1
        elif c == "r" and src.startswith('r#"', i):
            j = src.find('"#', i + 3)
            toks.append(("lit", src[i:j + 2]))
            i = j + 2
        elif c.isalpha() or c == "_":
            j = i
            while j < n and (src[j].isalnum() or src[j] == "_"):
                j += 1
            toks.append(("id", src[i:j]))
            i = j
        elif c.isdigit():
            j = i
            while j < n and (src[j].isalnum() or src[j] in "._"):
                j += 1
            toks.append(("lit", src[i:j]))
            i = j
        elif c == "'" and i + 2 < n and src[i + 2] == "'":
            toks.append(("lit", src[i:i + 3]))
            i += 3
        else:
            for p in PUNCT3 + PUNCT2:
                if src.startswith(p, i):
                    toks.append(("p", p))
                    i += len(p)
                    break
            else:
                toks.append(("p", c))
                i += 1
    return toks


def tree(toks):
    """flat tokens -> nested token trees: ('g', open, [children])"""
    def go(i, close):
        out = []
        while i < len(toks):
            k, t = toks[i]
            if k == "p" and t in OPEN:
                sub, i = go(i + 1, OPEN[t])
                out.append(("g", t, sub))
            elif k == "p" and t == close:
                return out, i + 1
            else:
                out.append((k, t))
                i += 1
        return out, i
    return go(0, None)[0]


def flat(tt):
    out = []
    for t in tt:
        if t[0] == "g":
            out.append(t[1])
            out.extend(flat(t[2]))
            out.append(OPEN[t[1]])
        else:
            out.append(t[1])
    return out


def macros(src):
    """name -> [(matcher tree, transcriber tree)]"""
    tt = tree(tokenize(src))
    out = {}
    i = 0
    while i < len(tt):
        if tt[i] == ("id", "macro_rules") and i + 3 < len(tt) and tt[i + 1] == ("p", "!") and tt[i + 2][0] == "id" and tt[i + 3][0] == "g":
            name, body = tt[i + 2][1], tt[i + 3][2]
            arms, j = [], 0
            while j < len(body):
                if body[j][0] == "g" and j + 2 < len(body) and body[j + 1] == ("p", "=>") and body[j + 2][0] == "g":
                    arms.append((body[j][2], body[j + 2][2]))
                    j += 3
                    if j < len(body) and body[j] == ("p", ";"):
                        j += 1
                else:
                    j += 1
            out[name] = arms
            i += 4
        else:
            i += 1
    return out


def literal_tokens(matcher):
    """the literal (non-metavariable) tokens of a matcher at top level, in order; `$x:frag` and `$( .. )*` are
    reported as ('$', name-or-None)"""
    out, i = [], 0
    while i < len(matcher):
        t = matcher[i]
        if t == ("p", "$"):
            nx = matcher[i + 1]
            if nx[0] == "id":                      # $name:frag
                out.append(("$", nx[1], matcher[i + 3][1] if i + 3 < len(matcher) else None))
                i += 4
                continue
            if nx[0] == "g":                       # $( ... ) sep? rep
                inner = [x for x in literal_tokens(nx[2]) if x[0] == "$"]
                out.append(("$*", inner[0][1] if inner else None, None))
                i += 2
                while i < len(matcher) and matcher[i][0] == "p" and matcher[i][1] in "*+?,;":
                    stop = matcher[i][1] in "*+?"
                    i += 1
                    if stop:
                        break
                continue
        if t[0] == "g":
            out.append(("g", t[1], literal_tokens(t[2])))
        else:
            out.append((t[0], t[1]))
        i += 1
    return out


def calls(tt):
    """call trees of a transcriber: (path string, [argument token trees]) for every `path ( .. )` and `path ! ( .. )`"""
    out = []
    i = 0
    while i < len(tt):
        t = tt[i]
        if t[0] == "id" or t == ("p", "$"):
            j, path = i, []
            while j < len(tt) and (tt[j][0] == "id" or tt[j] in (("p", "::"), ("p", "$"), ("p", "."))):
                path.append(tt[j][1])
                j += 1
            bang = j < len(tt) and tt[j] == ("p", "!")
            if bang:
                j += 1
            if j < len(tt) and tt[j][0] == "g" and tt[j][1] in "([" and path and path[-1] not in ("::", "."):
                args, cur = [], []
                for a in tt[j][2]:
                    if a == ("p", ","):
                        args.append(cur)
                        cur = []
                    else:
                        cur.append(a)
                if cur:
                    args.append(cur)
                out.append(("".join(path).replace("$crate::", "") + ("!" if bang else ""), args))
                for a in args:
                    out.extend(calls(a))
                i = j + 1
                continue
            i = max(j, i + 1)
            continue
        if t[0] == "g":
            out.extend(calls(t[2]))
        i += 1
    return out


def frag_of(arg):
    """the metavariable an `expr!($($lhs)*)` / `Box::new(expr!(..))` argument forwards, plus literal tokens"""
    return [x for x in flat(arg) if x not in ("(", ")", "[", "]", "{", "}", "$", "*", "!", "::", "crate", "expr", "Box", "new")]


CMP_TOKENS = {"<=": "LessOrEqual", ">=": "GreaterOrEqual", "==": "Equal", "<": "Less", ">": "Greater"}
DOMAINS = {("bool", False): ("bool", []), ("real", True): ("Real", ["min", "max"]), ("real", False): ("real", []),
           ("nonneg", True): ("NonNegativeReal", ["min", "max"]), ("nonneg", False): ("non_negative_real", []), ("int", True): ("integer_range", ["min", "max"])}


def dispatch_token(lits):
    """for a muncher arm `([$($acc)*] TOK.. $($rest)*)`: the literal tokens between the accumulator and the rest"""
    if not lits or lits[0][0] != "g":
        return None, None, None
    acc = [x for x in lits[0][2] if x[0] in ("$", "$*")]
    mid = [x[1] for x in lits[1:] if x[0] in ("p", "id")]
    rest = [x for x in lits[1:] if x[0] in ("$", "$*")]
    return (acc[0][1] if acc else None), "".join(mid), [r[1] for r in rest]


def check(F, R, src_path=None):
    import facts
    src_path = src_path or os.path.join(facts.CRATE_DIR, "src", "builder", "macros.rs")
    where = "packages/rooc/src/builder/macros.rs"
    try:
        src = open(src_path).read()
    except OSError:
        R.ob("M-TABLE", "source", False, where, "builder/macros.rs not found")
        return
    M = macros(src)
    for need in ("munch_expr", "expr", "munch_constraint", "constraint", "vars"):
        R.ob("M-TABLE", "macro:" + need, need in M and len(M[need]) > 0, where, "macro_rules! %s not found" % need)
    if not all(k in M for k in ("munch_expr", "expr", "munch_constraint", "constraint", "vars")):
        return
    n = 0
    # ---- munch_constraint
    arms = M["munch_constraint"]
    seen, recurse_at, base_at = {}, None, None
    for k, (matcher, body) in enumerate(arms):
        acc, tok, rest = dispatch_token(literal_tokens(matcher))
        cs = calls(body)
        if tok == "" and rest and len(rest) == 2:
            recurse_at = k
            ok = any(p == "munch_constraint!" for p, _ in cs)
            R.ob("M-TABLE", "munch_constraint:recurse", ok, where, "the munching arm must re-enter munch_constraint! with the head token moved into the accumulator")
            continue
        if tok == "" and not rest:
            base_at = k
            c = [a for p, a in cs if p.endswith("BuilderConstraint::new_logic_assertion")]
            ok = len(c) == 1 and acc in frag_of(c[0][0])
            R.ob("M-TABLE", "munch_constraint:base", ok, where, "a formula without a comparison must become new_logic_assertion(expr!(<all tokens>), ..)")
            continue
        n += 1
        seen[tok] = k
        if tok in CMP_TOKENS:
            c = [a for p, a in cs if p.endswith("BuilderConstraint::new")]
            ok = len(c) == 1 and len(c[0]) == 4
            detail = "arm for `%s` must build exactly one BuilderConstraint::new(lhs, cmp, rhs, name)" % tok
            if ok:
                lhs, cmp_, rhs = frag_of(c[0][0]), [x for x in flat(c[0][1]) if x not in ("$", "crate", "::")], frag_of(c[0][2])
                ok = lhs == [acc] and rhs == rest[-1:] and cmp_ == ["Comparison", CMP_TOKENS[tok]]
                detail = "arm for `%s` builds new(expr!(%s), %s, expr!(%s)); expected new(expr!(%s), Comparison::%s, expr!(%s))" % (tok, " ".join(lhs), "::".join(cmp_), " ".join(rhs), acc, CMP_TOKENS[tok], rest[-1] if rest else "?")
            R.ob("M-TABLE", "munch_constraint:" + tok, ok, where, detail)
        elif tok in ("->", "<->"):
            c = [a for p, a in cs if p.endswith("BuilderConstraint::new_logic_assertion")]
            ok = len(c) == 1
            if ok:
                f = frag_of(c[0][0])
                ok = f == [acc, tok, rest[-1]] or f == [acc] + list(tok.replace("<->", "<- >").split()) + [rest[-1]] or "".join(f) == acc + tok + rest[-1]
            R.ob("M-TABLE", "munch_constraint:" + tok, ok, where, "arm for `%s` must assert the whole formula: new_logic_assertion(expr!(<left> %s <right>), ..)" % (tok, tok))
        else:
            R.ob("M-TABLE", "munch_constraint:" + tok, False, where, "unexpected dispatch token `%s`" % tok)
    R.ob("M-TABLE", "munch_constraint:tokens", set(seen) == set(CMP_TOKENS) | {"->", "<->"}, where, "dispatch tokens %s, expected %s" % (sorted(seen), sorted(set(CMP_TOKENS) | {"->", "<->"})))
    R.ob("M-TABLE", "munch_constraint:order", recurse_at is not None and base_at is not None and all(k < recurse_at for k in seen.values()) and recurse_at < base_at, where, "every dispatch arm must precede the munching arm, the base arm comes last (arms are tried in order)")
    # ---- munch_expr
    arms = M["munch_expr"]
    seen, recurse_at, base_at = {}, None, None
    for k, (matcher, body) in enumerate(arms):
        acc, tok, rest = dispatch_token(literal_tokens(matcher))
        cs = calls(body)
        if tok == "" and rest and len(rest) == 2:
            recurse_at = k
            R.ob("M-TABLE", "munch_expr:recurse", any(p == "munch_expr!" for p, _ in cs), where, "the munching arm must re-enter munch_expr!")
            continue
        if tok == "" and not rest:
            base_at = k
            c = [a for p, a in cs if p.endswith("Expr::from")]
            R.ob("M-TABLE", "munch_expr:base", len(c) == 1 and frag_of(c[0][0]) == [acc], where, "a formula without an arrow is the Rust expression itself: Expr::from(<tokens>)")
            continue
        n += 1
        seen[tok] = k
        want = {"->": "Implies", "<->": "Iff"}.get(tok)
        c = [a for p, a in cs if want and p.endswith("Expr::" + want)]
        ok = len(c) == 1 and len(c[0]) == 2 and frag_of(c[0][0]) == [acc] and frag_of(c[0][1]) == rest[-1:]
        R.ob("M-TABLE", "munch_expr:" + tok, ok, where, "arm for `%s` must build Expr::%s(Box::new(expr!(<left>)), Box::new(expr!(<right>)))" % (tok, want))
    R.ob("M-TABLE", "munch_expr:tokens", set(seen) == {"->", "<->"}, where, "dispatch tokens %s, expected -> and <->" % sorted(seen))
    R.ob("M-TABLE", "munch_expr:order", recurse_at is not None and base_at is not None and all(k < recurse_at for k in seen.values()) and recurse_at < base_at, where, "dispatch arms, then the munching arm, then the base arm")
    # ---- expr! / constraint!
    R.ob("M-TABLE", "expr:entry", len(M["expr"]) == 1 and any(p == "munch_expr!" for p, _ in calls(M["expr"][0][1])), where, "expr! enters munch_expr! with an empty accumulator")
    named = [(m_, b) for m_, b in M["constraint"] if [x[:2] for x in literal_tokens(m_)][:2] == [("$", "name"), ("p", ":")]]
    plain = [(m_, b) for m_, b in M["constraint"] if (m_, b) not in named]
    ok = len(named) == 1 and len(plain) == 1 and M["constraint"].index(named[0]) < M["constraint"].index(plain[0])
    R.ob("M-TABLE", "constraint:arms", ok, where, "constraint! has the `name: ...` arm first, then the unnamed arm")
    if ok:
        fb = flat(named[0][1])
        s = " ".join(fb)
        R.ob("M-TABLE", "constraint:name", "munch_constraint" in fb and re.search(r"c \. name = stringify ! \( \$ name \)", s) is not None, where, "the named arm must compile the rest with munch_constraint! and set the constraint's name to stringify!($name)")
        R.ob("M-TABLE", "constraint:plain", any(p == "munch_constraint!" for p, _ in calls(plain[0][1])), where, "the unnamed arm enters munch_constraint!")
    # ---- vars!
    seen = {}
    order = []
    for matcher, body in M["vars"]:
        lits = literal_tokens(matcher)
        heads = [x[:2] for x in lits]
        if heads[:1] != [("p", "@")]:
            continue
        names = [x for x in lits if x[0] == "$"]
        if ("$", "name") not in [x[:2] for x in names]:
            R.ob("M-TABLE", "vars:end", not flat(body), where, "the arm without declarations left must expand to nothing")
            continue
        is_array = any(x[0] == "g" and x[1] == "[" for x in lits)
        kw = [x[1] for x in lits if x[0] == "id" and x[1] not in ("munch",)]
        bounded = any(x[0] == "g" and x[1] == "(" for x in lits)
        key = (kw[0] if kw else "?", bounded)
        seen[(key, is_array)] = True
        order.append((key, is_array))
        n += 1
        cs = calls(body)
        want_fn, want_args = DOMAINS.get(key, (None, None))
        label = "vars:%s%s%s" % (key[0], "(min,max)" if bounded else "", "[n]" if is_array else "")
        adder = [a for p, a in cs if p.endswith(".add_vars" if is_array else ".add_var")]
        other = [a for p, a in cs if p.endswith(".add_var" if is_array else ".add_vars")]
        ok = want_fn is not None and len(adder) == 1 and not other and len(adder[0]) == (3 if is_array else 2)
        detail = "must declare through %s(stringify!($name), %s<domain>)" % ("add_vars" if is_array else "add_var", "$count, " if is_array else "")
        if ok:
            a = adder[0]
            nm = [x for x in flat(a[0]) if x not in ("(", ")", "$", "!")]
            dom = a[-1]
            domf = [x for x in flat(dom) if x not in ("$", "crate", "::")]
            args = [x for x in flat(dom)[flat(dom).index("("):] if x not in ("(", ")", "$", ",")] if "(" in flat(dom) else []
            ok = nm == ["stringify", "name"] and domf[:2] == ["VariableType", want_fn] and args == want_args and (not is_array or [x for x in flat(a[1]) if x != "$"] == ["count"])
            detail = "declares %s with VariableType::%s(%s); expected stringify!($name) with VariableType::%s(%s)" % (" ".join(nm), domf[1] if len(domf) > 1 else "?", ", ".join(args), want_fn, ", ".join(want_args))
        R.ob("M-TABLE", label, ok, where, detail)
        R.ob("M-TABLE", label + ":binds", [x for x in flat(body)[:3]] == ["let", "$", "name"], where, "the handle is bound to the declared identifier")
        R.ob("M-TABLE", label + ":continues", any(p == "vars!" for p, _ in cs), where, "the arm must go on with the remaining declarations")
    for key in DOMAINS:
        R.ob("M-TABLE", "vars:has:%s%s" % (key[0], "(min,max)" if key[1] else ""), (key, False) in seen, where, "scalar declaration form missing")
    R.count("M-TABLE.arms", n)
