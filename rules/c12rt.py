"""LINEAR-ROUND-TRIP (C12): the rendering of a compiled linear model read back, without running rooc.

A family of LinearModel values (every coefficient class at the first and at a later position, every right-hand side,
offset, optimisation type, row-name form, variable-name form and domain form) is printed by the crate's own Display impl
(evaluated from its typed HIR), the text is matched by the model of pest's matcher and converted by the crate's own
converters (roundtrip.py), and the resulting AST is read as plain affine text by a small reference reader:
objective / every row must give back exactly the coefficients, right-hand side, relation and name of the model, every
variable exactly its domain, and printing the model rebuilt from what was read gives the same text.

The reader assumes what the compiled text consists of: numbers, names, + - *, implicit multiplication, unary minus; a
name index that is an identifier is a literal fragment (compiled models have no bound identifiers)."""
import itertools
import roundtrip
from facts import norm
from interp import Var, ListV, Rope, Leaf, is_unknown
import c12

VT = "math::math_enums::VariableType"
CMP = "math::math_enums::Comparison"
OT = "math::math_enums::OptimizationType"
INF = float("inf")


def dv(t, usage=1):
    return Var("parser::model_transformer::transformer_context::DomainVariable", fields={"as_type": t, "span": roundtrip.SPAN, "usage_count": usage})


def make_model(names, domains, opt, objective, offset, rows, usage=1):
    dom = ListV([(n, dv(Var(VT + "::" + d[0], list(d[1:])), usage)) for n, d in zip(names, domains)])
    cons = ListV([Var("transformers::linear_model::LinearConstraint", fields={"name": nm, "coefficients": ListV(list(co)), "rhs": rhs, "constraint_type": Var(CMP + "::" + cmp)}) for nm, co, cmp, rhs in rows])
    return Var("transformers::linear_model::LinearModel", fields={"variables": ListV(list(names)), "domain": dom, "objective_offset": offset, "optimization_type": Var(OT + "::" + opt), "objective": ListV(list(objective)), "constraints": cons})


# ---- reference reader of the converted AST ------------------------------------------------------------------

class ReadError(Exception):
    pass


def unspan(v):
    while isinstance(v, Var) and norm(v.path).endswith("utils::Spanned") and "value" in v.fields:
        v = v.fields["value"]
    return v


def text_of(v):
    v = unspan(v)
    if isinstance(v, Rope):
        t = roundtrip.concretise(v)
        if t is None:
            raise ReadError("opaque text")
        return t
    if isinstance(v, str):
        return v
    raise ReadError("not text: %r" % (v,))


def name_of(v):
    """flattened name of a Variable / CompoundVariable node (identifier indexes are literal fragments)"""
    v = unspan(v)
    p = norm(v.path)
    if p.endswith("::Variable") and len(v.args) == 1 and not isinstance(unspan(v.args[0]), Var):
        return text_of(v.args[0])
    if p.endswith("::CompoundVariable") and v.args:
        return name_of(v.args[0])
    if p.endswith("il_problem::CompoundVariable"):
        parts = [text_of(v.fields["name"])]
        for i in v.fields["indexes"].items:
            i = unspan(i)
            ip = norm(i.path)
            if ip.endswith("PreExp::Variable"):
                parts.append(text_of(i.args[0]))
            elif ip.endswith("PreExp::Primitive"):
                pr = unspan(i.args[0])
                if norm(pr.path).endswith("Primitive::String"):
                    parts.append(text_of(pr.args[0]))
                elif norm(pr.path).rsplit("::", 1)[-1] in ("Integer", "PositiveInteger", "Number"):
                    parts.append(roundtrip.rust_f64_display(float(pr.args[0])))
                else:
                    raise ReadError("index %r" % (pr,))
            else:
                raise ReadError("computed index in a compiled name: %r" % (i,))
        return "_".join(parts)
    raise ReadError("not a name: %r" % (v,))


def affine(e, consts):
    """PreExp -> ({name: coefficient}, constant)"""
    e = unspan(e)
    p = norm(e.path)
    k = p.rsplit("::", 1)[-1]
    if k == "Primitive":
        pr = unspan(e.args[0])
        pk = norm(pr.path).rsplit("::", 1)[-1]
        if pk in ("Number", "Integer", "PositiveInteger"):
            return {}, float(pr.args[0])
        raise ReadError("primitive %s in an affine position" % pk)
    if k in ("Variable", "CompoundVariable"):
        n = name_of(e)
        if n in consts:
            return {}, consts[n]
        return {n: 1.0}, 0.0
    if k == "UnaryOperation":
        op = norm(unspan(e.args[0]).path).rsplit("::", 1)[-1]
        c, k0 = affine(e.args[1], consts)
        if op == "Neg":
            return {n: -v for n, v in c.items()}, -k0
        raise ReadError("unary " + op)
    if k == "BinaryOperation":
        op = norm(unspan(e.args[0]).path).rsplit("::", 1)[-1]
        a, ka = affine(e.args[1], consts)
        b, kb = affine(e.args[2], consts)
        if op in ("Add", "Sub"):
            s = 1.0 if op == "Add" else -1.0
            out = dict(a)
            for n, v in b.items():
                out[n] = out.get(n, 0.0) + s * v
            return out, ka + s * kb
        if op == "Mul":
            if not a:
                return {n: ka * v for n, v in b.items()}, ka * kb
            if not b:
                return {n: kb * v for n, v in a.items()}, ka * kb
        raise ReadError("non-affine %s" % op)
    raise ReadError("unexpected node %s" % k)


def read_model(ast, consts):
    f = ast.fields
    obj = f["objective"].fields
    opt = norm(obj["objective_type"].path).rsplit("::", 1)[-1]
    oc, ok = ({}, 0.0)
    if opt != "Satisfy":
        oc, ok = affine(obj["rhs"], consts)
    rows = []
    for c in f["constraints"].items:
        cf = c.fields
        if cf.get("is_logic_assertion") is True:
            raise ReadError("a row was read back as a logic assertion")
        if cf["iteration"].items:
            raise ReadError("a row was read back with an iteration")
        nm = ""
        ne = cf["name_exp"]
        if isinstance(ne, Var) and ne.path.endswith("Some"):
            nm = name_of(unspan(ne.args[0]))
        l, kl = affine(cf["lhs"], consts)
        r, kr = affine(cf["rhs"], consts)
        co = dict(l)
        for n, v in r.items():
            co[n] = co.get(n, 0.0) - v
        rows.append((nm, {n: v for n, v in co.items() if v != 0.0}, norm(cf["constraint_type"].path).rsplit("::", 1)[-1], kr - kl))
    doms = {}
    for d in f["domains"].items:
        df = d.fields
        if df["iteration"].items:
            raise ReadError("a declaration was read back with an iteration")
        t = df["as_type"]
        tk = norm(t.path).rsplit("::", 1)[-1]
        vals = []
        for a in t.args:
            if isinstance(a, Var) and a.path.endswith("None"):
                vals.append(None)
                continue
            if isinstance(a, Var) and a.path.endswith("Some"):
                a = a.args[0]
            c, k = affine(a, consts)
            if c:
                raise ReadError("domain bound is not a constant: %r" % (c,))
            vals.append(k)
        for v in df["variables"].items:
            doms[name_of(unspan(v))] = (tk, tuple(vals))
    return opt, {n: v for n, v in oc.items() if v != 0.0}, ok, rows, doms


DEFAULT_BOUNDS = {"Real": (-INF, INF), "NonNegativeReal": (0.0, INF)}


def expected_domain(d):
    k = d[0]
    if k == "Boolean":
        return ("Boolean", ())
    return (k, tuple(float(x) for x in d[1:]))


def same_domain(read, want):
    k, vals = read
    if k != want[0]:
        return False
    if k == "Boolean":
        return True
    lo, hi = (vals + (None, None))[:2]
    dlo, dhi = DEFAULT_BOUNDS.get(k, (None, None))
    lo = dlo if lo is None else lo
    hi = dhi if hi is None else hi
    return (lo, hi) == want[1]


# ---- the family ------------------------------------------------------------------------------------------

COEFFS = [1.0, -1.0, 2.5, -2.5, 1e-7, -1e-7, 1e9, 3.0, 0.0, 1.0000001, -0.9999999, 0.5, -1e-9, 1e19, -1e20, 9.3e18, 1.5e30]
NAMES = ["x", "y_1", "$abs_0", "z_A_2", "set_A__2", "$max_1_select_0", "w"]
DOMAINS = [("Boolean",), ("IntegerRange", 0, 10), ("IntegerRange", -5, 5), ("Real", -INF, INF), ("Real", -INF, 3.5), ("Real", -2.0, INF), ("Real", -2.0, 2.0),
           ("NonNegativeReal", 0.0, INF), ("NonNegativeReal", 0.0, 10.0), ("NonNegativeReal", 2.0, INF), ("Real", 0.0, INF), ("Real", -INF, -1.5), ("Real", -1e20, 1e20), ("NonNegativeReal", 0.0, 1e19)]


def family(tier):
    models = []
    n = len(NAMES)
    base_dom = [DOMAINS[i % len(DOMAINS)] for i in range(n)]
    # every coefficient class at the first position and at a later one, in the objective and in a row
    for i, c in enumerate(COEFFS):
        for first in (True, False):
            co = [0.0] * n
            if first:
                co[0] = c
                co[2] = 2.0
            else:
                co[0] = 2.0
                co[3] = c
            rows = [("c%d" % i, co, "LessOrEqual", 5.0), ("", list(reversed(co)), "GreaterOrEqual", -2.5)]
            models.append(("coeff:%r:%s" % (c, "first" if first else "later"), make_model(NAMES, base_dom, "Min", co, 0.0, rows), (NAMES, base_dom, "Min", co, 0.0, rows)))
    # right-hand sides, relations, names
    for rhs in (0.0, 5.0, -5.0, 2.5, 1e-7, -1e-7, 1e9, 1e20, -1e30, 9223372036854775808.0):
        for cmp in ("LessOrEqual", "GreaterOrEqual", "Equal"):
            rows = [("", [1.0, 1.0] + [0.0] * (n - 2), cmp, rhs)]
            models.append(("rhs:%r:%s" % (rhs, cmp), make_model(NAMES, base_dom, "Max", [1.0] + [0.0] * (n - 1), 0.0, rows), (NAMES, base_dom, "Max", [1.0] + [0.0] * (n - 1), 0.0, rows)))
    for nm in ("", "c1", "row_2", "cap__2", "$r", "set_A_1"):
        rows = [(nm, [1.0, -1.0] + [0.0] * (n - 2), "LessOrEqual", 1.0), ("", [0.0] * n, "Equal", 0.0)]
        models.append(("rowname:%s" % (nm or "<none>"), make_model(NAMES, base_dom, "Min", [0.0] * n, 0.0, rows), (NAMES, base_dom, "Min", [0.0] * n, 0.0, rows)))
    # user-written names that are the labels an exporter would generate for the unnamed rows next to them, once and again
    for tag, nms in (("once", ("c2", "", "c1")), ("twice", ("c2", "", "c2_1")), ("thrice", ("c2_1", "", "c2", "c2_1_1")), ("own-position", ("", "c1", "c1_1", "")), ("chain", ("c3", "c3_1", "", "", "c4"))):
        rows = [(nm, [float(k + 1), -1.0] + [0.0] * (n - 2), "LessOrEqual", float(k)) for k, nm in enumerate(nms)]
        models.append(("rowname-generated:%s" % tag, make_model(NAMES, base_dom, "Min", [1.0] + [0.0] * (n - 1), 0.0, rows), (NAMES, base_dom, "Min", [1.0] + [0.0] * (n - 1), 0.0, rows)))
    # offsets and optimisation types
    for opt in ("Min", "Max", "Satisfy"):
        for off in (0.0, 3.5, -3.5, 1e-7, -1e-7, 1e19):
            for obj in ([0.0] * n, [1.0, -2.5] + [0.0] * (n - 2)):
                if opt == "Satisfy" and (off != 0.0 or any(obj)):
                    continue
                rows = [("", [1.0] + [0.0] * (n - 1), "LessOrEqual", 1.0)]
                models.append(("objective:%s:%r:%s" % (opt, off, "zero" if not any(obj) else "terms"), make_model(NAMES, base_dom, opt, obj, off, rows), (NAMES, base_dom, opt, obj, off, rows)))
    # every domain form for every name form
    for k in range(len(DOMAINS)):
        dom = [DOMAINS[(i + k) % len(DOMAINS)] for i in range(n)]
        rows = [("", [1.0] * n, "LessOrEqual", 1.0)]
        models.append(("domains:rot%d" % k, make_model(NAMES, dom, "Min", [1.0] * n, 0.0, rows), (NAMES, dom, "Min", [1.0] * n, 0.0, rows)))
    # groups: several variables with the same domain are printed on one line
    dom = [("Boolean",)] * 3 + [("Real", -INF, INF)] * 2 + [("IntegerRange", 0, 10)] * 2
    rows = [("", [1.0] * n, "LessOrEqual", 1.0)]
    models.append(("domains:grouped", make_model(NAMES, dom, "Min", [1.0] * n, 0.0, rows), (NAMES, dom, "Min", [1.0] * n, 0.0, rows)))
    # domains that differ by less than any tolerance the crate uses: two variables are written on one line only when their
    # domains are the same domain
    dom = [("Real", 0.0, 0.000001), ("Real", 0.0, 0.000003), ("NonNegativeReal", 0.0, 1.0), ("NonNegativeReal", 0.0, 1.000004), ("NonNegativeReal", 0.0, INF), ("NonNegativeReal", 0.000002, INF), ("Real", -1e-9, 5.0)]
    rows = [("", [1.0] * n, "LessOrEqual", 1.0)]
    models.append(("domains:near", make_model(NAMES, dom, "Max", [1.0] * n, 0.0, rows), (NAMES, dom, "Max", [1.0] * n, 0.0, rows)))
    # a model assembled through the public API (LinearModel::add_variable, DomainVariable::new): the usage marks the
    # compile pipeline keeps are all zero, the model is the same model
    for k in range(len(DOMAINS)):
        dom = [DOMAINS[(i + k) % len(DOMAINS)] for i in range(n)]
        rows = [("r", [1.0, -2.0] + [1.0] * (n - 2), "GreaterOrEqual", -1.0)]
        models.append(("api-built:rot%d" % k, make_model(NAMES, dom, "Max", [1.0, 0.5] + [0.0] * (n - 2), 1.5, rows, usage=0), (NAMES, dom, "Max", [1.0, 0.5] + [0.0] * (n - 2), 1.5, rows)))
    return models


def check(F, R, Gm, tier="quick"):
    RT = roundtrip.RoundTrip(F, Gm)
    consts = c12.std_number_constants(F)
    R.fn("<transformers::linear_model::LinearModel as std::fmt::Display>::fmt")
    fam = family(tier)
    R.count("LINEAR-ROUND-TRIP.models", len(fam))
    fails = {}
    n_ok = 0
    for label, model, spec in fam:
        names, doms, opt, obj, off, rows = spec
        group = label.rsplit(":", 1)[0] if label.startswith(("coeff", "rhs")) else label
        r = RT.I.display(model)
        if is_unknown(r):
            fails.setdefault(("print", group), (label, "printer not evaluable: %r" % (r,)))
            continue
        text = roundtrip.concretise(r)
        if text is None:
            fails.setdefault(("print", group), (label, "opaque value in the rendering"))
            continue
        ast = RT.parse_text(text)
        shown = text.replace("\n", "\\n")[:220]
        if isinstance(ast, tuple):
            fails.setdefault(("reparse", group), (label, "rendering `%s`: %s" % (shown, ast[1][:200])))
            continue
        try:
            ropt, rc, rk, rrows, rdoms = read_model(ast, consts)
        except ReadError as e:
            fails.setdefault(("read", group), (label, "rendering `%s` is not plain affine text: %s" % (shown, e)))
            continue
        bad = None
        if ropt != opt:
            bad = "optimisation type %s read back as %s" % (opt, ropt)
        want_obj = {n: c for n, c in zip(names, obj) if c != 0.0}
        if bad is None and opt != "Satisfy" and (rc != want_obj or rk != off):
            bad = "objective %s + %r read back as %s + %r" % (want_obj, off, rc, rk)
        if bad is None and len(rrows) != len(rows):
            bad = "%d rows read back as %d" % (len(rows), len(rrows))
        if bad is None:
            for (nm, co, cmp, rhs), (rnm, rco, rcmp, rrhs) in zip(rows, rrows):
                want = {n: c for n, c in zip(names, co) if c != 0.0}
                if (nm, want, cmp, rhs) != (rnm, rco, rcmp, rrhs):
                    bad = "row (%r, %s %s %r) read back as (%r, %s %s %r)" % (nm, want, cmp, rhs, rnm, rco, rcmp, rrhs)
                    break
        if bad is None:
            used = [n for n in names]
            for n_, d in zip(names, doms):
                if n_ not in rdoms:
                    bad = "variable %s has no declaration in the rendering" % n_
                    break
                if not same_domain(rdoms[n_], expected_domain(d)):
                    bad = "domain of %s %r read back as %r" % (n_, expected_domain(d), rdoms[n_])
                    break
        if bad:
            fails.setdefault(("same-model", group), (label, "rendering `%s`: %s" % (shown, bad)))
            continue
        n_ok += 1
    R.count("LINEAR-ROUND-TRIP.ok", n_ok)
    for stage in ("print", "reparse", "read", "same-model"):
        bad = {g: v for (s, g), v in fails.items() if s == stage}
        if not bad:
            R.ob("LINEAR-ROUND-TRIP", stage, True, "packages/rooc/src/transformers/linear_model.rs", "holds on all %d linear models of the family" % len(fam))
        for g, (label, why) in sorted(bad.items()):
            R.ob("LINEAR-ROUND-TRIP", "%s:%s" % (stage, g), False, "packages/rooc/src/transformers/linear_model.rs", "model %s: %s" % (label, why))
