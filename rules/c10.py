"""C10 Algebraic rewrites and constant spelling preserve meaning.

The rewrite functions Exp::simplify / Exp::flatten are evaluated from their typed HIR by the table
interpreter on an exhaustive family of small symbolic trees; the result tree is compared with
the input tree under the language's (independent) evaluation semantics on a grid of exact rational
assignments large enough to decide identity of the low-degree rational functions involved, and
by a syntactic hazard rule (a division by zero or by a non-constant must survive).
Also: NORMALISE-FIRST (shape-sensitive consumers must see normalised trees).
Nothing of rooc is executed.
"""
import itertools
from fractions import Fraction
from facts import norm, walk, strip, sexp
from interp import Interp, Var, Rope, Sym, ListV, Unknown, is_unknown
import mirlib

EXP = "parser::model_transformer::model::Exp"
BINOP = "math::operators::BinOp::"
UNOP = "math::operators::UnOp::"
ARITH = ("Add", "Sub", "Mul", "Div")
LOGIC2 = ("Xor", "Implies", "Iff")


# ---- trees: ('num', Fraction) | ('var', name) | ('bin', op, l, r) | ('neg', x) | ('not', x) |
#             ('nary', 'And'|'Or', [..]) | ('logic', 'Xor'|'Implies'|'Iff', l, r) | ('abs', x)
def to_val(t):
    k = t[0]
    if k == "num":
        return Var(EXP + "::Number", [float(t[1])])
    if k == "var":
        return Var(EXP + "::Variable", [Rope([t[1]])])
    if k == "bin":
        return Var(EXP + "::BinOp", [Var(BINOP + t[1]), to_val(t[2]), to_val(t[3])])
    if k == "neg":
        return Var(EXP + "::UnOp", [Var(UNOP + "Neg"), to_val(t[1])])
    if k == "not":
        return Var(EXP + "::Not", [to_val(t[1])])
    if k == "nary":
        return Var(EXP + "::" + t[1], [ListV([to_val(x) for x in t[2]])])
    if k == "logic":
        return Var(EXP + "::" + t[1], [to_val(t[2]), to_val(t[3])])
    if k == "abs":
        return Var(EXP + "::Abs", [to_val(t[1])])
    raise ValueError(k)


def from_val(v):
    if not isinstance(v, Var):
        return None
    name = v.path.rsplit("::", 1)[-1]
    a = v.args
    try:
        if name == "Number":
            x = a[0]
            if isinstance(x, (int, float)):
                return ("num", Fraction(x)) if x == x and abs(x) != float("inf") else ("num", x)
            return None
        if name == "Variable":
            return ("var", a[0].text() if isinstance(a[0], Rope) else str(a[0]))
        if name == "BinOp":
            op = a[0].path.rsplit("::", 1)[-1]
            l, r = from_val(a[1]), from_val(a[2])
            if l is None or r is None:
                return None
            if op in ARITH:
                return ("bin", op, l, r)
            if op in ("And", "Or"):
                return ("nary", op, [l, r])
            return ("logic", op, l, r)
        if name == "UnOp":
            x = from_val(a[1])
            if x is None:
                return None
            return ("neg", x) if a[0].path.endswith("Neg") else ("not", x)
        if name == "Not":
            x = from_val(a[0])
            return ("not", x) if x is not None else None
        if name in ("And", "Or", "Min", "Max"):
            xs = [from_val(x) for x in a[0].items]
            return ("nary", name, xs) if None not in xs else None
        if name in LOGIC2:
            l, r = from_val(a[0]), from_val(a[1])
            return ("logic", name, l, r) if l is not None and r is not None else None
        if name == "Abs":
            x = from_val(a[0])
            return ("abs", x) if x is not None else None
    except Exception:
        return None
    return None


def show(t):
    k = t[0]
    if k == "num":
        return str(t[1])
    if k == "var":
        return t[1]
    if k == "bin":
        return "%s(%s,%s)" % (t[1], show(t[2]), show(t[3]))
    if k in ("neg", "not", "abs"):
        return "%s(%s)" % (k.capitalize(), show(t[1]))
    if k == "nary":
        return "%s[%s]" % (t[1], ",".join(show(x) for x in t[2]))
    if k == "logic":
        return "%s(%s,%s)" % (t[1], show(t[2]), show(t[3]))
    return "?"


class Undefined(Exception):
    pass


def evaluate(t, env):
    """the language's semantics over exact rationals; raises Undefined on division by zero"""
    k = t[0]
    if k == "num":
        if not isinstance(t[1], Fraction):
            raise Undefined()
        return t[1]
    if k == "var":
        return env[t[1]]
    if k == "bin":
        a, b = evaluate(t[2], env), evaluate(t[3], env)
        if t[1] == "Add":
            return a + b
        if t[1] == "Sub":
            return a - b
        if t[1] == "Mul":
            return a * b
        if b == 0:
            raise Undefined()
        return a / b
    if k == "neg":
        return -evaluate(t[1], env)
    if k == "abs":
        return abs(evaluate(t[1], env))
    tr = lambda x: evaluate(x, env) != 0
    one = lambda b: Fraction(1 if b else 0)
    if k == "not":
        return one(not tr(t[1]))
    if k == "nary" and t[1] in ("Min", "Max"):
        vals = [evaluate(x, env) for x in t[2]]
        return min(vals) if t[1] == "Min" else max(vals)
    if k == "nary":
        vals = [tr(x) for x in t[2]]  # all operands are evaluated: an undefined operand is undefined
        return one(all(vals) if t[1] == "And" else any(vals))
    if k == "logic":
        a, b = tr(t[2]), tr(t[3])
        if t[1] == "Xor":
            return one(a != b)
        if t[1] == "Implies":
            return one((not a) or b)
        return one(a == b)
    raise ValueError(k)


def const_value(t):
    try:
        if any(x for x in _vars(t)):
            return None
        return evaluate(t, {})
    except Undefined:
        return "undef"


def _vars(t):
    k = t[0]
    if k == "var":
        yield t[1]
    elif k in ("bin", "logic"):
        yield from _vars(t[2])
        yield from _vars(t[3])
    elif k in ("neg", "not", "abs"):
        yield from _vars(t[1])
    elif k == "nary":
        for x in t[2]:
            yield from _vars(x)


def hazards(t):
    """number of divisions whose denominator is zero or not a constant"""
    k = t[0]
    n = 0
    if k == "bin":
        n += hazards(t[2]) + hazards(t[3])
        if t[1] == "Div":
            c = const_value(t[3])
            if c is None or c == "undef" or c == 0:
                n += 1
    elif k == "logic":
        n += hazards(t[2]) + hazards(t[3])
    elif k in ("neg", "not", "abs"):
        n += hazards(t[1])
    elif k == "nary":
        n += sum(hazards(x) for x in t[2])
    return n


GRID = [Fraction(v) for v in (-4, -3, -2, -1, 0, 1, 2, 3, 4)]


def logic_position_vars(t, in_logic=False, out=None):
    """variables used directly as operands of a logic form: the type checker only admits
    Boolean (0/1) values there"""
    if out is None:
        out = set()
    k = t[0]
    if k == "var":
        if in_logic:
            out.add(t[1])
    elif k == "bin":
        logic_position_vars(t[2], False, out)
        logic_position_vars(t[3], False, out)
    elif k in ("neg", "abs"):
        logic_position_vars(t[1], False, out)
    elif k == "not":
        logic_position_vars(t[1], True, out)
    elif k == "logic":
        logic_position_vars(t[2], True, out)
        logic_position_vars(t[3], True, out)
    elif k == "nary":
        for x in t[2]:
            logic_position_vars(x, t[1] in ("And", "Or"), out)
    return out


BOOL = [Fraction(0), Fraction(1)]


def close(a, b):
    if a == b:
        return True
    # folded constants are f64: rounding of constant arithmetic is not decided here
    return abs(a - b) <= Fraction(1, 10**9) * (1 + abs(a))


def equivalent(t, t2):
    """(ok, witness): t2 is defined and equal wherever t is defined"""
    vs = sorted(set(_vars(t)) | set(_vars(t2)))
    lv = logic_position_vars(t)
    for point in itertools.product(*[(BOOL if v in lv else GRID) for v in vs]):
        env = dict(zip(vs, point))
        try:
            a = evaluate(t, env)
        except Undefined:
            continue
        try:
            b = evaluate(t2, env)
        except Undefined:
            return False, "%s: original = %s, rewritten undefined" % (env_str(env), a)
        if not close(a, b):
            return False, "%s: original = %s, rewritten = %s" % (env_str(env), a, b)
    return True, ""


def env_str(env):
    return "{" + ", ".join("%s=%s" % kv for kv in sorted(env.items())) + "}"


# ---- enumeration -------------------------------------------------------------------
def leaves():
    return [("var", "x"), ("var", "y"), ("num", Fraction(0)), ("num", Fraction(1)), ("num", Fraction(2)), ("num", Fraction(-1))]


def arith_trees(depth, small=False):
    L = leaves()
    if depth == 0:
        return list(L)
    sub = arith_trees(depth - 1, small)
    out = list(sub)
    for op in ARITH:
        for a in sub:
            for b in (L if small else sub):
                out.append(("bin", op, a, b))
                if small and a not in L:
                    out.append(("bin", op, b, a))
    for a in sub:
        if a[0] != "neg":
            out.append(("neg", a))
    return out


def logic_trees():
    L = [("var", "x"), ("var", "y"), ("num", Fraction(0)), ("num", Fraction(1)), ("num", Fraction(2))]
    out = []
    mids = list(L)
    for op in LOGIC2:
        for a in L:
            for b in L:
                mids.append(("logic", op, a, b))
    for a in L:
        mids.append(("not", a))
    for op in ("And", "Or"):
        for a in L:
            for b in L:
                mids.append(("nary", op, [a, b]))
    out.extend(mids)
    # one more level over a reduced operand set
    # operands of logic forms are Boolean valued (the type checker rejects anything else):
    # variables (read as 0/1), constants (incl. the non-0/1 truthy 2) and logic forms
    red = [m for m in mids if m[0] != "num"][:24] + [("num", Fraction(0)), ("num", Fraction(1)), ("num", Fraction(2))]
    for op in ("And", "Or"):
        for a in red:
            for b in red[:12]:
                out.append(("nary", op, [a, b]))
        for a in red[:10]:
            for b in red[:6]:
                for c in red[:4]:
                    out.append(("nary", op, [a, ("nary", op, [b, c])]))
    for op in LOGIC2:
        for a in red:
            for b in red[:10]:
                out.append(("logic", op, a, b))
    for a in red:
        out.append(("not", a))
        out.append(("bin", "Mul", a, ("num", Fraction(0))))
        out.append(("bin", "Add", a, ("num", Fraction(1))))
    return out


def hidden_hazards():
    """a division by zero / by a variable wrapped in abs, min, max (forms the printers treat as leaves) under a zero factor,
    a zero numerator, a subtraction from itself: every rewrite that makes the division disappear hides an error"""
    x, y, zero, one = ("var", "x"), ("var", "y"), ("num", Fraction(0)), ("num", Fraction(1))
    cores = [("bin", "Div", x, zero), ("bin", "Div", x, y), ("bin", "Div", one, x)]
    out = []
    for h in cores:
        wraps = [("abs", h), ("nary", "Min", [h, one]), ("nary", "Max", [h, one]), ("neg", ("abs", h)), ("bin", "Add", y, ("nary", "Max", [h, one])), ("abs", ("neg", h)), ("nary", "Min", [one, ("abs", h)])]
        for w in wraps:
            out.append(("bin", "Mul", zero, w))
            out.append(("bin", "Mul", w, zero))
            out.append(("bin", "Add", x, ("bin", "Mul", zero, w)))
            out.append(("bin", "Sub", w, w))
            out.append(("bin", "Div", zero, w))
    return out


def piecewise_trees():
    """abs / min / max over operands with signed constant factors (a factor may only be pulled out of abs with its absolute
    value, out of min / max only when it is positive; a negative one swaps min and max)"""
    x, y = ("var", "x"), ("var", "y")
    N = lambda v: ("num", Fraction(v))
    out = []
    for c in (Fraction(-2), Fraction(-1), Fraction(-1, 2), Fraction(0), Fraction(1, 2), Fraction(2)):
        ops = [("bin", "Mul", N(c), x), ("bin", "Mul", x, N(c)), ("bin", "Mul", N(c), ("bin", "Add", x, y)), ("bin", "Sub", N(c), x), ("bin", "Mul", ("bin", "Sub", N(0), N(c)), x), ("bin", "Add", ("bin", "Mul", N(c), x), N(1))]
        if c != 0:
            ops.append(("bin", "Div", x, N(c)))
        for o in ops:
            out += [("abs", o), ("neg", ("abs", o)), ("bin", "Mul", N(c), ("abs", o)), ("nary", "Min", [o, y]), ("nary", "Max", [o, N(1)]), ("nary", "Min", [y, o, N(3)]), ("nary", "Max", [N(-1), o, y]),
                    ("bin", "Mul", N(c), ("nary", "Max", [x, y])), ("bin", "Mul", ("nary", "Min", [x, N(2)]), N(c)), ("abs", ("nary", "Min", [o, y])), ("bin", "Sub", y, ("abs", o))]
    out += [("abs", ("neg", x)), ("abs", ("abs", x)), ("abs", ("neg", ("abs", x))), ("nary", "Max", [x, ("neg", x)]), ("nary", "Min", [("neg", x), ("neg", y)]), ("neg", ("nary", "Max", [("neg", x), ("neg", y)])), ("abs", ("bin", "Sub", x, x))]
    return out


def dedup(ts):
    seen = set()
    out = []
    for t in ts:
        s = show(t)
        if s not in seen:
            seen.add(s)
            out.append(t)
    return out


def classify(t):
    """a short class name for a failing tree, so that one defect is one key"""
    k = t[0]
    if k == "bin":
        l = "0" if t[2] == ("num", Fraction(0)) else ("c" if t[2][0] == "num" else "e")
        r = "0" if t[3] == ("num", Fraction(0)) else ("c" if t[3][0] == "num" else "e")
        return "%s(%s,%s)" % (t[1], l, r)
    if k == "nary":
        return "%s[..]" % t[1]
    if k == "logic":
        return t[1]
    return k


def check(F, R, tier, only=None):
    I = Interp(F, max_depth=120)
    simp = EXP + "::simplify"
    flat = EXP + "::flatten"
    for p in (simp, flat, "parser::model_transformer::model::simplify_logic_nary", "parser::model_transformer::model::num_truthy", "parser::model_transformer::model::logic_number"):
        R.fn(p)
    trees = dedup(arith_trees(2, small=(tier != "thorough")) + logic_trees() + hidden_hazards() + piecewise_trees())
    R.count("REWRITE.trees", len(trees))
    fails = {}
    n_eval = 0
    for t in trees:
        v = to_val(t)
        for name, fn in (("simplify", lambda x: I.call_fn(simp, [x])), ("flatten", lambda x: I.call_fn(flat, [x])),
                         ("flatten+simplify", lambda x: (lambda y: y if is_unknown(y) else I.call_fn(simp, [y]))(I.call_fn(flat, [x])))):
            out = fn(v)
            if is_unknown(out):
                # Min/Max constant folding and non-finite results are outside the evaluated fragment
                fails.setdefault(("REWRITE-EVAL", name + ":" + classify(t)), (t, None, "rewrite not evaluable: %s" % out.why))
                continue
            t2 = from_val(out)
            if t2 is None:
                fails.setdefault(("REWRITE-EVAL", name + ":" + classify(t)), (t, None, "result not convertible: %r" % (out,)))
                continue
            n_eval += 1
            ok, wit = equivalent(t, t2)
            if not ok:
                fails.setdefault(("REWRITE-SEM", name + ":" + classify(t)), (t, t2, wit))
            if hazards(t) > 0 and hazards(t2) == 0:
                fails.setdefault(("REWRITE-HAZARD", name + ":" + classify(t)), (t, t2, "a division by zero / by a non-constant present in the input is gone from the result"))
            if name == "simplify":
                out2 = I.call_fn(simp, [out])
                t3 = from_val(out2) if not is_unknown(out2) else None
                if t3 is None or show(t3) != show(t2):
                    fails.setdefault(("IDEMPOTENT", "simplify:" + classify(t)), (t, t2, "simplify(simplify(e)) = %s" % (show(t3) if t3 else out2)))
            if len(R.samples) < 10 and show(t) != show(t2):
                R.sample({"rewrite": name, "in": show(t), "out": show(t2)})
    R.count("REWRITE.evaluations", n_eval)
    rules = ("REWRITE-EVAL", "REWRITE-SEM", "REWRITE-HAZARD", "IDEMPOTENT") if only is None else tuple(only)
    where = F.loc(F.fn(simp)) if F.fn(simp) else ""
    for rule in rules:
        these = {k: v for k, v in fails.items() if k[0] == rule}
        if not these:
            R.ob(rule, "all-%d-trees" % len(trees), True, where, "holds on every enumerated tree")
        for (r_, key), (t, t2, wit) in sorted(these.items()):
            R.ob(rule, key, False, where, "%s: %s -> %s; %s" % (key, show(t), show(t2) if t2 else "?", wit))
    if only is not None:
        return
    truthy_tables(F, R, I)
    normalise_first(F, R)


def truthy_tables(F, R, I):
    nt = "parser::model_transformer::model::num_truthy"
    ln = "parser::model_transformer::model::logic_number"
    for v, want in ((0.0, False), (-0.0, False), (1.0, True), (2.0, True), (-3.5, True)):
        got = I.call_fn(nt, [v])
        R.ob("T-FOLD", "num_truthy(%r)" % v, got is want, "packages/rooc/src/parser/model_transformer/model.rs", "num_truthy(%r) = %r, expected %r (every non-zero number is true)" % (v, got, want))
    for v, want in ((True, 1.0), (False, 0.0)):
        got = I.call_fn(ln, [v])
        R.ob("T-FOLD", "logic_number(%r)" % v, got == want, "packages/rooc/src/parser/model_transformer/model.rs", "logic_number(%r) = %r, expected %r" % (v, got, want))


def normalise_first(F, R):
    """BoundsAnalyzer::analyze recognises literal coefficients by shape (AffineForm::from_exp): the
    constraints it is given must have passed through flatten().simplify() first"""
    sites = []
    for f in F.fn_list:
        if "body" not in f:
            continue
        for n in walk(f["body"]):
            if n.get("k") == "Call" and norm(n.get("callee") or "").endswith("BoundsAnalyzer::analyze"):
                sites.append((f, n))
    R.ob("NORMALISE-FIRST", "sites", len(sites) >= 2, "", "expected the two BoundsAnalyzer::analyze call sites of the linearizer, found %d" % len(sites))
    from flow import LocalFlow, free_locals
    for f, n in sites:
        R.fn(f["path"])
        lf = LocalFlow(f["body"])
        arg = n["args"][1]
        # the constraints argument (or a local it derives from) is produced by an expression that
        # calls flatten and simplify (directly or through a helper that does)
        texts = [sexp(arg)]
        for i in lf.roots(arg) | free_locals(arg):
            for d in lf.defs.get(i, []):
                texts.append(sexp(d))
        helper_ok = False
        for x in walk(f["body"]):
            if x.get("k") in ("Call", "MCall"):
                g = F.fns.get(x.get("resolved") or x.get("callee") or "")
                if g is not None and "body" in g:
                    names = {y.get("name") for y in walk(g["body"]) if y.get("k") == "MCall"}
                    if {"flatten", "simplify"} <= names and any(sexp(x) in t for t in texts):
                        helper_ok = True
        direct = any("flatten()" in t and "simplify()" in t for t in texts)
        R.ob("NORMALISE-FIRST", f["path"], direct or helper_ok, F.loc(f, n),
             "BoundsAnalyzer::analyze is given constraints `%s` that were not normalised with flatten().simplify(): bound inference recognises literal coefficients only, so `-2 * x <= 4` (Mul(Neg(2), x)) yields no bound while `-2x <= 4` does, and an exact lowering that needs the bound is accepted for one spelling and rejected for the other" % sexp(arg))
