"""C17 LP export denotes the same model -- tables of the LP writer.

Decides: T-SENSE, T-REL, T-SECTIONS (per VariableType: section membership, bounds entry with
(min, name, max) order, `free` only for (-inf, inf), default NonNegativeReal range omitted),
SIGN-SPLIT on lp_terms / the offset, NUM-SPELL of bounds (lp_bound table), NAME-NS on generated
row names.  Not decided: what an independent LP reader accepts beyond these tables.
"""
import re
from facts import norm, base_ty, walk, strip, sexp
from flow import LocalFlow, pat_binds, free_locals
import table
import c04
import c12

CMP = c04.CMP
OPT = c04.OPT
VT = c04.VT
FN = "transformers::linear_model::LinearModel::to_lp_format"


def lit_of(n):
    n = strip(n)
    if n.get("k") == "Lit":
        return n.get("v")
    return None


def check(F, R):
    f = F.fn(FN)
    if f is None:
        R.ob("T-SENSE", "anchor", False, "", "to_lp_format not found")
        return
    R.fn(FN)
    lf = LocalFlow(f["body"])
    # ---- sense and relation tables -------------------------------------------------
    for m in [n for n in walk(f["body"]) if n.get("k") == "Match"]:
        ty = table.scrut_type(F, m)
        if ty == OPT:
            am = c04.arm_map(F, m, OPT)
            want = {"Max": "Maximize", "Min": "Minimize", "Satisfy": "Minimize"}
            for v, w in want.items():
                got = lit_of(am[v][0]["body"]) if v in am else None
                R.ob("T-SENSE", v, got == w, F.loc(f, m), "OptimizationType::%s is exported as %r, expected %r" % (v, got, w))
        elif ty == CMP:
            am = c04.arm_map(F, m, CMP)
            want = {"LessOrEqual": "<=", "Less": "<=", "GreaterOrEqual": ">=", "Greater": ">=", "Equal": "="}
            for v, w in want.items():
                got = lit_of(am[v][0]["body"]) if v in am else None
                R.ob("T-REL", v, got == w, F.loc(f, m), "Comparison::%s is exported as %r, expected %r" % (v, got, w))
    # ---- sections --------------------------------------------------------------------
    roles = {}
    for n in walk(f["body"]):
        if n.get("k") == "If":
            heads = [lit_of(x["args"][0]) for x in walk(n["then"]) if x.get("k") == "MCall" and x["name"] == "push_str" and x.get("args")]
            for h in heads:
                if h in ("Bounds\n", "Binary\n", "General\n"):
                    ids = free_locals(n["cond"])
                    if len(ids) == 1 and "is_empty" in sexp(n["cond"]):
                        roles[h.strip()] = next(iter(ids))
    R.ob("T-SECTIONS", "section-vectors", set(roles) == {"Bounds", "Binary", "General"}, F.loc(f), "section headers guarded by non-empty vectors: %s" % sorted(roles))
    inv = {v: k for k, v in roles.items()}
    for m in [n for n in walk(f["body"]) if n.get("k") == "Match" and table.scrut_type(F, n) == VT]:
        am = c04.arm_map(F, m, VT)
        for v in F.variants(VT):
            arm, alt = am.get(v, (None, None))
            if arm is None:
                R.ob("T-SECTIONS", v, False, F.loc(f, m), "no arm")
                continue
            pushes = {}
            for x in walk(arm["body"]):
                if x.get("k") == "MCall" and x["name"] == "push":
                    r = strip(x["recv"])
                    if r.get("k") == "Path" and r.get("id") in inv:
                        pushes.setdefault(inv[r["id"]], []).append(x)
            ids = c04._binder_ids(alt) if alt.get("k") == "PTupleStruct" else []
            where = F.loc(f, arm["body"])
            if v == "Boolean":
                R.ob("T-SECTIONS", v, set(pushes) == {"Binary"}, where, "Boolean variables must be listed under Binary only; pushes to %s" % sorted(pushes))
                continue
            if v == "IntegerRange":
                R.ob("T-SECTIONS", v, set(pushes) == {"General", "Bounds"}, where, "integer variables need a General entry and a Bounds entry; pushes to %s" % sorted(pushes))
            else:
                R.ob("T-SECTIONS", v, set(pushes) == {"Bounds"}, where, "real variables only get Bounds entries; pushes to %s" % sorted(pushes))
            # bounds templates: `<lo> <= name <= <hi>` with lo from min, hi from max
            for b in pushes.get("Bounds", []):
                mac = [x for x in walk(b["args"][0]) if x.get("k") == "Macro" and x.get("name") == "format"]
                if not mac:
                    R.ob("T-SECTIONS", v + ":bounds-template", False, where, "bounds entry is not a format!")
                    continue
                mac = mac[0]
                tm = re.search(r'"((?:[^"\\]|\\.)*)"', mac["snippet"])
                t = tm.group(1) if tm else ""
                args = mac["args"]
                if t == " {} <= {} <= {}":
                    ok = len(args) == 3 and len(ids) == 2 and free_locals(args[0]) == {ids[0]} and free_locals(args[2]) == {ids[1]} and "name" in sexp(args[1])
                    if v != "IntegerRange":
                        ok = ok and all("lp_bound" in sexp(a) for a in (args[0], args[2]))
                    R.ob("T-SECTIONS", v + ":bounds-template", ok, F.loc(f, mac), "bounds entry %s must read `min <= name <= max` with infinities spelled by lp_bound" % sexp(mac))
                elif t == " {} free":
                    # only under the (-inf, inf) test
                    cond = None
                    for i in walk(arm["body"]):
                        if i.get("k") == "If" and any(x is mac for x in walk(i["then"])):
                            cond = sexp(i["cond"])
                    ok = v == "Real" and cond is not None and "NEG_INFINITY" in cond and "INFINITY" in cond.replace("NEG_INFINITY", "") and "&&" in cond
                    R.ob("T-SECTIONS", v + ":free", ok, F.loc(f, mac), "`free` may only be written for Real(-inf, +inf); condition: %s" % cond)
                else:
                    R.ob("T-SECTIONS", v + ":bounds-template", False, F.loc(f, mac), "unknown bounds template %r" % t)
            if v == "NonNegativeReal":
                conds = [sexp(i["cond"]) for i in walk(arm["body"]) if i.get("k") == "If"]
                ok = any("0.0" in c and "INFINITY" in c and c.startswith("!") for c in conds)
                R.ob("T-SECTIONS", v + ":default-omitted", ok, where, "the bounds entry may be omitted only for the default range [0, +inf): conditions %s" % conds)
    # ---- lp_bound table ---------------------------------------------------------------
    lb = F.fn("transformers::linear_model::lp_bound")
    if lb is not None:
        R.fn(lb["path"])
        from interp import Interp, Sym
        tab = {}
        for n in walk(lb["body"]):
            if n.get("k") == "If":
                c = sexp(n["cond"])
                lit = [lit_of(x["recv"]) for x in walk(n["then"]) if x.get("k") == "MCall" and x["name"] == "to_string"]
                if "NEG_INFINITY" in c:
                    tab["-inf"] = lit[0] if lit else None
                elif "INFINITY" in c:
                    tab["+inf"] = lit[0] if lit else None
        R.table("lp_bound", tab)
        R.ob("NUM-SPELL", "lp_bound", tab == {"+inf": "+infinity", "-inf": "-infinity"}, F.loc(lb), "lp_bound spells infinities as %s" % tab)
    else:
        R.ob("NUM-SPELL", "lp_bound", False, "", "lp_bound not found", undecided=True)
    # ---- SIGN-SPLIT ---------------------------------------------------------------------
    c12.sign_split(F, R, prop_filter=lambda g: g.get("file", "").endswith("linear_model.rs") and ("lp_" in g["path"] or "to_lp_format" in g["path"]))
    c12.tolerant_in_printer(F, R, prop_filter=lambda g: g.get("file", "").endswith("linear_model.rs") and ("lp_" in g["path"] or "to_lp_format" in g["path"]))
    # every magnitude printed by the LP writer has its sign decided by an exact comparison
    for p in (FN, "transformers::linear_model::lp_terms"):
        g = F.fn(p)
        if g is None:
            R.ob("SIGN-SPLIT", p + ":anchor", False, "", "not found", undecided=True)
            continue
        R.fn(p)
        for a in [n for n in walk(g["body"]) if n.get("k") == "MCall" and n["name"] == "abs"]:
            v = sexp(strip(a["recv"])).lstrip("*")
            exact = [n for n in walk(g["body"]) if n.get("k") == "Binary" and n["op"] == "<" and sexp(strip(n["a"])).lstrip("*") == v and lit_of(n["b"]) in ("0.0", "0")]
            R.ob("SIGN-SPLIT", "%s:%s:exact-sign" % (p, v), bool(exact), F.loc(g, a), "`%s.abs()` is printed; its sign must come from an exact `%s < 0.0` test" % (v, v), undecided=True)
    # ---- NAME-NS ------------------------------------------------------------------------
    gen = []
    for n in walk(f["body"]):
        if n.get("k") == "Macro" and n.get("name") == "format":
            tm = re.search(r'"((?:[^"\\]|\\.)*)"', n["snippet"])
            if tm and re.match(r"^[A-Za-z_]+\{[^}]*\}$", tm.group(1)):
                gen.append((n, tm.group(1)))
    R.ob("NAME-NS", "generator-sites", len(gen) == 1, F.loc(f), "expected one generated row-name template, found %s" % [g[1] for g in gen])
    for n, t in gen:
        # the generated name must be tested against the user-written names
        tests = [x for x in walk(f["body"]) if x.get("k") == "MCall" and x["name"] in ("contains", "contains_key", "insert") and "HashSet" in (F.ty(strip(x["recv"])) or "") + "" or (x.get("k") == "MCall" and x["name"] in ("contains", "contains_key") and ("Set" in (F.ty(strip(x["recv"])) or "") or "Map" in (F.ty(strip(x["recv"])) or "")))]
        R.ob("NAME-NS", "row-name:" + t, bool(tests), F.loc(f, n),
             "unnamed rows are labelled with the template %r without testing it against the user-written row names: an unnamed first row and a user row called `c1` are both exported as `c1`" % t)
