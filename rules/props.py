"""property registry: which rule modules decide which property, and the evidence text"""
import importlib
import facts
import engine
import grammar

PROPS = {}


def prop(pid, **kw):
    def deco(fn):
        PROPS[pid] = dict(fn=fn, **kw)
        return fn
    return deco


_cache = {}


def get_facts(config="default"):
    if config not in _cache:
        path, tag, regenerated = facts.build_facts(config)
        _cache[config] = facts.Facts(path)
        _cache[config].regenerated = regenerated
    return _cache[config]


def get_grammar():
    if "grammar" not in _cache:
        _cache["grammar"] = grammar.Grammar()
    return _cache["grammar"]


COMMON_NOT_ANALYSABLE = [
    "cfg(target_family=wasm) code paths (wasm32 target not installed)",
    "native solver features coin_cbc/highs/lpsolve/scip/scip_bundled/lp-solvers/cplex-rs (their -sys crates cannot build offline)",
    "#[cfg(test)] modules (out of scope by construction)",
]
COMMON_ASSUMPTIONS = [
    "rustc name/type resolution and MIR construction (nightly 1.97) are trusted",
    "pest_meta's grammar front end is trusted to read grammar.pest the way pest_derive does",
]


def G(fn, F, R, *a, **k):
    """run one rule module; an exception inside the checker is not evidence about the tree: the module's rules are
    reported undecided (loudly, with the place) and the other modules of the property still run.  A check in which nothing
    at all is decided fails as BLIND (engine)."""
    import traceback
    try:
        return fn(F, R, *a, **k)
    except Exception as ex:   # noqa
        tb = traceback.extract_tb(ex.__traceback__)
        last = tb[-1] if tb else None
        name = "%s.%s" % (getattr(fn, "__module__", "?"), getattr(fn, "__name__", "?"))
        R.undecided("CHECKER-ERROR", name, "%s:%s" % (last.filename.replace("/verif/", ""), last.lineno) if last else "", "not evaluable: the rule module raised %s: %s" % (type(ex).__name__, str(ex)[:300]))


def run(pid, tier):
    spec = PROPS[pid]
    R = engine.Report(pid, tier)
    R.not_analysable = list(COMMON_NOT_ANALYSABLE)
    R.assumptions = list(COMMON_ASSUMPTIONS) + spec.get("assumptions", [])
    F = get_facts("default")
    R.configs.append({"config": "default", "features": F.features, "tag": F.tag, "body_owners": F.counts["body_owners"], "hir_bodies": F.counts["hir_bodies"], "mir_bodies": F.counts["mir_bodies"]})
    # the interpreter behind the evaluated families is checked against its fixture on every run (independent of /repo)
    import selftest
    selftest.check(R)
    spec["fn"](F, R, tier)
    return R.finish(spec["explanation"], spec["technique"])


def _load():
    for m in ("p09",):
        importlib.import_module(m)


@prop("C09",
      technique="static: Pratt-table extraction from typed HIR vs documented order; grammar/table/mapper three-way set agreement; PEG structure lints on pest_meta AST; positional data-flow of operands",
      explanation="Decides the structural clauses of C09: (T-PRATT) the operator table extracted from the PrattParser::new().op(..) chain equals the documented levels and associativities; (S-3WAY) grammar binary_op/unary_op alternatives = Pratt-table rules = rules handled by map_infix/map_prefix, with a name-preserving Rule->BinOp/UnOp mapping; (G-*) operator spellings and aliases live in the same grammar rule, alphabetic operators and keywords are atomic with an identifier-boundary look-ahead, no ordered-choice alternative shadows a later one, implicit_mul is a leaf tried before parenthesis/primitive, exp has the token shape the Pratt loop expects; (H-IMPLICIT) implicit multiplication folds left with Mul only; (H-INTOEXP) each operator is lowered to the same-named Exp form with lhs/rhs in place; (G-TAG) the converters fetch the parts of a pair by node tag: for each of the 37 (rule, tag) declarations, either no pair that can precede the intended one in document order (an earlier sibling element, or any sibling when the element may be absent or may match without producing a pair) can derive a nested pair with the same tag, or every converter that reads that tag for that rule searches the direct children only -- pest's find_first_tagged searches nested pairs first-come; every group of tag look-ups on one receiver must be the direct tag set of some grammar rule; (CONVERT-EXP) ~700 fully parenthesised expression texts written from operator trees (every parent/child operator pair and side, arithmetic grandchild chains, leaves alternating identifiers and numeric literals) plus the documented implicit-multiplication and sign forms are matched by the model of pest's matcher and converted by the crate's own parse_exp / parse_exp_leaf (closures included) evaluated from their typed HIR: the PreExp must be the tree the text was written from. NOT decided: pest's PEG/Pratt engine, numeric evaluation of operators.",
      assumptions=["pest 2.9 Pratt semantics as read from its source (expr loops while rbp < lbp; Left rhs rbp=prec, Right rbp=prec-1)"])
def c09(F, R, tier):
    import c09 as mod
    G(mod.check, F, R, get_grammar())
@prop("C11",
      technique="static: symbolic evaluation of the extracted printer tables on operator trees, re-read by a model of the extracted PEG choice order and Pratt table; Display/FromStr table agreement; bounded symbolic round trip text -> pest-matcher model -> converters (HIR) -> printers (HIR) -> text over grammar-generated program families",
      explanation="Decides (PRINT-PARSE) for PreExp: for every parent/child operator pair and side (and every grandchild chain whose pairs pass) the text produced by the printer functions, evaluated from their typed HIR on symbolic trees, is re-read by the extracted grammar literals (ordered choice) and the extracted Pratt table into a tree equal to the original modulo real/Boolean associativity identities; (T-PREC/T-ASSOC) precedence() is order-isomorphic to the Pratt levels and is_left_associative() agrees with the table; (S-TOKENS) for every fieldless enum with both Display and FromStr, from_str(display(v)) = v, and displayed operator/comparison tokens are selected by the grammar rule that maps back to the same variant; (OBJ-HEADER) the objective line the PreObjective printer writes for each OptimizationType is a sentence of an alternative of the grammar rule `objective` (keyword, body or no body) whose keyword parses back to the same variant; (NUM-FORMAT) every float written by a function reachable from the formatter's Display impl (following resolved callees and the Display impls of formatted values) uses the decimal `{}`/`{:.N}` form, never Debug or an exponent form, which the grammar's number rule does not contain. (ROUND-TRIP) for every text of three bounded families -- (A) the ~200 program texts the repository itself contains, (B) one text per choice alternative / optional part / repetition of the grammar, (C) ~190 expression forms placed in every expression slot of the grammar, nested one level (quick: ~2 200 programs, thorough: ~8 600) -- the text is matched by a model of pest's matcher over the dumped grammar (ordered choice, implicit whitespace, atomicity, node tags as pest assigns them), converted by the crate's own converters and printed by the crate's own Display impls, both evaluated from their typed HIR with pest's Pair/Pairs/PrattParser API modelled; obligations: the converters do not panic (pest's Pratt loop) on an accepted text, the formatted text is accepted and converted again, its AST equals the original up to spans, numeric literal kinds and literal name fragments, and formatting it again gives the same text. NOT decided: programs outside the families (deeper nestings), comments (dropped by the grammar), that equal ASTs compile to equal models (that is the transformer).",
      assumptions=["pest 2.9 Pratt semantics as read from its source"])
def c11(F, R, tier):
    import c11 as mod
    import objhdr
    G(mod.check, F, R, get_grammar())
    G(objhdr.check, F, R, get_grammar(), "C11")
    import c12
    G(c12.num_format, F, R, ["<parser::pre_model::PreModel as std::fmt::Display>::fmt"])
    import c11rt
    G(c11rt.check, F, R, get_grammar(), tier)
@prop("C12",
      technique="static: symbolic evaluation of the extracted Exp printer on operator trees re-read by the extracted grammar/Pratt model; sign/abs pairing rule; float-rendering guard rule; generated-name templates vs grammar",
      explanation="Decides (PRINT-PARSE) for the compiled-model printer Exp::to_string_with_precedence/Display/logic_operand_to_string over all parent/child operator pairs incl. abs/min/max blocks and all grandchild chains whose pairs pass; (SIGN-SPLIT) every printer that renders v.abs() chooses the sign with an exact test (a tolerant float_lt loses the sign of tiny negatives); (NUM-SPELL) every f64 rendered by Display for Exp / VariableType is guarded by an infinity test or spelled Infinity/MinusInfinity; (G-NAMES) every compiler-generated name template ($abs_n, $max_n_select_i, name__n, ...) instantiates to a string derivable from simple_variable/compound_variable with underscore_literal fragments; (OBJ-HEADER) the objective line written by Display for Objective and for LinearModel for each OptimizationType is a sentence of an alternative of the grammar rule `objective`; (T-DOMAIN-SPELL) Display for VariableType, evaluated on one representative of every class of bounds it can distinguish (-inf, negative, 0, positive, +inf), writes each infinite bound as the standard-library constant whose extracted value is that bound and the bare type name only for the default bounds; (NUM-FORMAT) as in C11, for the functions reachable from Display for Model and LinearModel. (LINEAR-ROUND-TRIP) a family of 79 LinearModel values (every coefficient class -- unit, negative, fractional, 1e-7, 1e9, zero -- at the first and at a later position, every right-hand side and relation, row-name form, offset, optimisation type, variable-name form incl. generated `$` and `__` names, every domain form, grouped declarations) is printed by the crate's Display impl evaluated from its HIR, matched by the model of pest's matcher, converted by the crate's own converters, and read back by a reference reader of plain affine text: optimisation type, objective coefficients and offset, every row's name, coefficients, relation and right-hand side and every variable's domain must be exactly those of the model; (COMPILE-RENDER) the same reading is applied to the ~220 linear models that the emulated compile step (C01 COMPILE-EQUIV) produces, whose domains must also be non-crossed (a domain with its lower end above its upper end is rejected when the rendering is recompiled). NOT decided: that the transformer and linearizer compile such plain affine text to that model (C01/C10); textual idempotence of the rendering after a full recompilation (auxiliary naming and row order belong to the compiler); finiteness of linear-model numbers (that is C08).",
      assumptions=["pest 2.9 Pratt semantics as read from its source", "Rust's default f64 Display prints non-finite values as inf/-inf/NaN"])
def c12(F, R, tier):
    import c12 as mod
    import objhdr
    G(mod.check, F, R, get_grammar())
    G(objhdr.check, F, R, get_grammar(), "C12")
    G(mod.num_format, F, R, ["<parser::model_transformer::model::Model as std::fmt::Display>::fmt", "<transformers::linear_model::LinearModel as std::fmt::Display>::fmt"])
    import c12rt
    G(c12rt.check, F, R, get_grammar(), tier)
    import c01rt
    G(c01rt.check_render, F, R, get_grammar(), tier)
    import c12rc
    G(c12rc.check, F, R, get_grammar(), tier)
@prop("C15",
      technique="static: must-check rule (status read, status table, data-flow to with_status on typed HIR; dominance of value reads by the status call on MIR)",
      explanation="Decides for every call of microlp::Problem::solve_with whose options are not provably default, and for the good_lp bridge: (a) Solution::status() is read; (b) its match maps Interrupted to Err, Feasible to SolutionStatus::Feasible, distinct from Optimal; (c) the mapped status flows into LpSolution::with_status; (d) on MIR the status() call dominates every read of the solution's objective/values, including closures that read them; (OPT-FORWARD) user options are stored into SolveOptions unmodified. NOT decided: what microlp does under a limit (documented dependency contract: limits return Ok with Status::Feasible/Interrupted; SolveOptions::validate rejects bad gaps).",
      assumptions=["microlp 0.5.0 documented contract of solve_with/Status/var_value", "good_lp SolutionStatus contract"])
def c15(F, R, tier):
    import c15 as mod
    G(mod.check, F, R)
    import c04rt
    G(c04rt.check, F, R, tier, props=("C15",))
@prop("C05",
      technique="static: enum-to-enum conversion tables located by type (match tables and variant-blind closures), who-may-construct for verdict variants",
      explanation="Decides (T-VERDICT) every match that converts a back-end error enum having an Infeasible/Unbounded/limit variant (microlp::Error, good_lp::ResolutionError, SimplexError, CanonicalTransformError) into SolverError keeps the verdict and never turns a non-verdict into one; (ENUM-MAP) no variant-blind closure converts such an enum into a single SolverError; Clarabel DualInfeasible/AlmostDualInfeasible -> Unbounded; infinite/NaN microlp objective -> Unbounded/Infeasible; (W-PRODUCER) the only producer of CanonicalTransformError::Infesible is guarded by float_ne(value, 0.0) and the only producer of SimplexError::Unbounded by the absence of a leaving row; (L, W-STATE from C14) the pivot loops are bounded by the iteration counter, Bland's rule is switched on by the stall counter, and that counter is reset only when the objective moved, so that the simplex-based solvers reach a verdict instead of cycling. NOT decided: that optima and verdicts are numerically right.",
      assumptions=["variant lists of microlp::Error and good_lp::ResolutionError as in the vendored sources"])
def c05(F, R, tier):
    import c05 as mod
    G(mod.check, F, R)
    import c14
    G(c14.canonical_start, F, R)
    G(c14.loops, F, R)
    import c04rt
    G(c04rt.check, F, R, tier, props=("C05",))
    import c05rt
    G(c05rt.check, F, R, tier, props=("C05",))
    import c20rt
    G(c20rt.check, F, R, tier, props=("C05",))
@prop("C04",
      technique="static: mapping tables located by scrutinee type, positional data-flow of bounds, adapter white-list on column iteration, data-flow of activities/offset on typed HIR",
      explanation="Decides (T-MAP) Comparison->microlp ComparisonOp / good_lp leq,geq,eq with strict comparisons rejected; OptimizationType->direction; VariableType->column constructor with bounds in (min,max) order for microlp (2 sites) and good_lp, and the VariableType->MILPValue read-back kinds; (H-COLUMNS) one unconditional column push per variable, no reordering/filtering adapter in the three bridge functions, one Assignment per variable; (D-ACTIVITY) row activities are computed on `lp` from the returned solution's values; (D-OFFSET) every reported objective includes objective_offset (directly or via calc_objective), the tableau flips the value and not the offset; (S-SPLIT reader) the tableau read-back drops exactly $sl_/$su_/$a_ and rebuilds x = $p x - $m x; (EARLY-OK) no public solver entry returns Ok without a back-end call unless it consulted the rows. NOT decided: that the numbers returned by microlp/Clarabel/the tableau satisfy the rows within 1e-6 (numeric, in dependencies); `value as i32` relies on microlp's documented exact rounding of integer columns.",
      assumptions=["microlp::Solution::var_value returns exactly rounded integers for integer columns (documented)"])
def c04(F, R, tier):
    import c04 as mod
    G(mod.check, F, R)
    import c15
    G(c15.check, F, R)
    import c14
    G(c14.canonical_start, F, R)
    import c04rt
    G(c04rt.check, F, R, tier, props=("C04",))
    import c05rt
    G(c05rt.check, F, R, tier, props=("C04",))
    import c20rt
    G(c20rt.check, F, R, tier, props=("C04",))
@prop("C17",
      technique="static: writer tables extracted from the typed HIR of to_lp_format (sense, relation, section membership per VariableType, positional data-flow of bounds), sign/abs pairing, generated-name namespace rule",
      explanation="Decides (T-SENSE) OptimizationType->Maximize/Minimize; (T-REL) Comparison-><=,>=,=; (T-SECTIONS) per VariableType: Boolean only under Binary, IntegerRange under General with a `min <= name <= max` bounds entry, reals with a bounds entry built by lp_bound in (min, name, max) order, `free` only under the (-inf,+inf) test, the entry omitted only for the default NonNegativeReal range; (NUM-SPELL) lp_bound spells +-infinity; (SIGN-SPLIT) every printed magnitude has its sign decided by an exact `< 0.0`; (NAME-NS) generated row labels are tested against user-written names. (LP-ROUND-TRIP) to_lp_format, evaluated from its typed HIR on a family of 87 linear models (every coefficient class at the first and at a later position, right-hand sides, relations, named and unnamed rows incl. names that collide with generated labels, offsets, senses, every domain form for every name form), is read by an independent reference reader of the LP format written from the format's rules (default bounds 0 <= x < +inf, a bounds line overrides only the side it states, `free`, Binary/General); sense, objective and constant, every row and every variable's bounds and integrality must be the model's. NOT decided: acceptance by an independent LP reader beyond these tables; finiteness of coefficients (C08).")
def c17(F, R, tier):
    import c17 as mod
    G(mod.check, F, R)
    import c17rt
    G(c17rt.check, F, R, get_grammar(), tier)
@prop("C13",
      technique="static: writer tables and write-set/pairing rules on the typed HIR of the standardizer; writer/reader prefix-set agreement",
      explanation="Decides (T-BOUNDROWS) per Real/NonNegativeReal arm: a finite min gives a GreaterOrEqual row and a finite max a LessOrEqual row, each guarded by its own finiteness test, with coefficient 1.0 at the variable's own index, no row for the default range; (W-PUSHPAIR) in the free-variable loop every container (variables, each constraint, objective) receives exactly two unconditional appends (+c,-c)/($p,$m) in that order and the four removals use the same index list; (T-SLACK) <= gets +1.0 named $sl_, >= gets -1.0 named $su_, = nothing, strict comparisons are rejected, total_variables is bumped per column; (T-FLIP) Max negates the objective and sets the flip flag, the offset is never negated, a negated rhs negates all coefficients; (S-SPLIT) prefixes written by the standardizer/two-phase start equal the prefixes the tableau read-back understands; (SIGN-SPLIT) the rhs normalisation uses an exact sign test. (STD-EQUIV) to_standard_form with normalize_constraint, EqualityConstraint::new and remove_many is evaluated from its typed HIR on a family of 54 continuous models covering every case the code distinguishes (each domain class alone and on either side of free variables, 2-4 adjacent free variables, every relation with positive / zero / negative / tiny-negative right-hand side, both senses, offsets); the result must be exactly the textbook standard form of the model: the model's rows followed by one row per non-default bound, each scaled by -1 iff its right-hand side is negative, one $sl/$su column of the right sign per inequality used by that row only, every free variable replaced by a $p/$m pair with opposite coefficients in every row and in the objective, costs negated for Max with the flip flag set, offset kept; Boolean / integer models are refused. NOT decided: point-wise equivalence of the two feasible sets and objective values.")
def c13(F, R, tier):
    import c13 as mod
    G(mod.check, F, R)
    import c04
    G(c04.tableau_readback, F, R)
    import c05rt
    G(c05rt.check, F, R, tier, props=("C04", "C05"))
@prop("C19",
      technique="static: sibling agreement of the static (can_apply_*, get_type) and runtime (apply_*_op) operator tables extracted from typed HIR and evaluated over the full finite kind x operator x kind domain; error-conversion rule; inventory of Any escapes; bounded symbolic evaluation of the type checker and the transformer (typed HIR) on a family of ill-typed programs",
      explanation="Decides (S-OPS) for all 10 x 9 x 12 (kind, binary operator, kind) and 10 x 2 unary cells: whenever PrimitiveKind::can_apply_* accepts, the runtime arm selected in the ApplyOp impls cannot build a type-class OperatorError; (S-RESULT) for the 4 x 4 x 4 numeric cells and negation, the kind PreExp::get_type predicts is the Primitive variant the runtime arm builds (through checked_i64/checked_u64/checked_div); (ERR-KIND) no variant-blind `Err(_)` arm converts an error enum that has data-dependent variants (DivisionByZero, Overflow, ...) into a type-class TransformError; (S-ANY) every construct where the checker waves PrimitiveKind::Any through is enumerated (each is a hole in soundness by construction); (D-SCOPE-USE) in every type-checking function that opens one frame per iteration and pops them in a loop, every use of the checker context with a part of the checked item other than the iteration list (sides, name indexes) lies between the pushes and the pops, as it does when the item is transformed -- a check outside the frames sees the iteration variables unbound and accepts what the transformer rejects. (TYPE-SOUND) a family of programs with perturbed types -- 21 value kinds (integer, float, string, boolean, array, nested array, string array, graph, range, literals, node, edge, row, element, tuple part, array element, len) x ~120 positions (operands of + - * / in constants and constraints, negation, comparison sides, the five logic operators, compound-variable indexes, range ends, iteration and quantifier sets with and without use of the element, destructuring of 2 and 3 names, array access target and indexes, block and scoped block bodies, domain bounds and sets, every argument position of the 11 builtin functions incl. one argument too many or too few, unknown function, nested scopes; quick ~820 programs, thorough ~2 470): the type checker (create_type_checker and everything it calls, with the per-function type_check overrides) and the transformer are both evaluated from typed HIR; a program the checker accepts must not fail in the transformer with WrongArgument, WrongExpectedArgument, WrongFunctionSignature, WrongNumberOfArguments, BinOpError, UnOpError, Unspreadable, SpreadError, NonExistentFunction or UndeclaredVariable. During development the emulated verdicts (accept / reject / error kind) were identical to the real compiler's on all 2 466 programs. NOT decided: programs outside the family, user-supplied functions and constants.")
def c19(F, R, tier):
    import c19 as mod
    G(mod.check, F, R)
    import c19rt
    G(c19rt.check, F, R, get_grammar(), tier)
@prop("C20",
      technique="static: purity (no arithmetic) of every hop of the dual-value path, positional pairing of (name, constraint reference) inside one loop iteration, filter shape, on typed HIR",
      explanation="THIN CLAIM: decides only that the bridge is a pure forwarder. (PURE-FORWARD) collect_good_lp_duals, LpSolution::with_shadow_prices/shadow_prices, DualValues::shadow_price, BuilderSolution::shadow_price and the Clarabel extraction closure perform no arithmetic on the dual and pass it on unmodified; (PAIRING) the stored value is dual.dual(reference) of the reference paired with that name in the same tuple, the pair is built from add_constraint(row) and row.name() in the same loop iteration, rows with an empty name are filtered by is_empty and nothing else is filtered or reordered; (T-MAP, shared with C04) the bridge hands good_lp the model's own direction and builds every row as `expression <relation> right-hand side` with the relation of the model (good_lp defines a dual as the sensitivity to the constant on the right: a row written the other way round returns the dual with the opposite sign). NOT decided: that the dual value reported by good_lp/Clarabel equals the sensitivity of the optimum, its sign convention for min/max and <=/>= rows, zero for inactive rows -- all numeric facts of the dependencies.")
def c20(F, R, tier):
    import c20 as mod
    G(mod.check, F, R)
    # good_lp derives the sign convention of its duals from the direction flag: the bridge must hand over
    # the model's own direction (Max -> Maximisation), not a re-normalised objective
    import c04
    G(c04.t_map_direction, F, R)
    # ... and from the orientation of each row: the constant must stay on the right of the relation it was written with
    G(c04.t_map_comparison, F, R)
    import c20rt
    G(c20rt.check, F, R, tier, props=("C20",))
@prop("C10",
      technique="static: symbolic evaluation of the extracted rewrite functions (typed HIR) on an exhaustive family of small expression trees, compared under an independent semantics on an exact rational grid; syntactic hazard-preservation rule; must-precede data-flow rule for normalisation",
      explanation="Decides, for every arithmetic tree of depth <= 2 over {x, y, 0, 1, 2, -1} with + - * / and unary minus (quick: one operand of the second level a leaf; thorough: full) and a family of ~1.5k logic/n-ary trees incl. non-0/1 truthy constants and division hazards: (REWRITE-SEM) simplify, flatten and flatten+simplify, evaluated from their HIR by the table interpreter, return a tree that is defined and equal to the input wherever the input is defined, on a 9-point-per-variable exact grid (enough to decide identity of the rational functions of these degrees); (REWRITE-HAZARD) a division by zero or by a non-constant never disappears; (IDEMPOTENT) simplify(simplify(e)) = simplify(e) on the family; (T-FOLD) num_truthy / logic_number tables; (NORMALISE-FIRST) every BoundsAnalyzer::analyze call receives constraints that went through flatten().simplify(). (COMPILE-EQUIV, spellings part) two families of equivalent spellings of one constraint (a negated group written with unary minus, -1 *, 0 -, a negative divisor, or moved across the relation; a doubling written as 2*x, x*2, x+x, x/0.5, -(-2*x), 2*(x+1)) are compiled by the emulated compile step: all spellings must give the variable the same domain and the same feasible set on a grid. NOT decided: trees beyond the bound, Min/Max constant folding (outside the evaluated fragment), float rounding of folded constants, equality of compiled linear models under re-spelling beyond the normalisation-order clause.")
def c10(F, R, tier):
    import c10 as mod
    G(mod.check, F, R, tier)
    import c01rt
    G(c01rt.check, F, R, tier, "C10")
@prop("C08",
      technique="static: must-precede / dominance rules on MIR, local data-flow and who-may-write rules on typed HIR, guard/field-set agreement for big-M constants",
      explanation="Decides (D-SORTED) the variable list handed to LinearModel::new_from_parts is the local sorted once (sort dominates construction on MIR), never mutated, derived from the unique keys of the domain marked used; the domain is filtered by membership in it and column indexes enumerate it; (D-USAGE) every Exp::Variable built in PreExp::into_exp is dominated by increment_domain_variable_usage of the same name, auxiliaries are marked used on declaration, the builder marks all; (D-FINITE) each of the 4 big-M constants built from bound end-points uses only end-points that the MissingFiniteBounds guard of the same lowering (and the same min/max arm) tests finite; (FINITE-SANITISE) a finiteness test exists between linearised expressions and the rows / objective offset; (N-NAMES) row-name de-duplication tests user and assigned names and keeps the first use, declare_variable rejects existing names, all auxiliary templates start with `$`, every name counter is incremented; (W-COEFF) LinearizationContext::add_var, which merges, is the only writer of coefficients. (COMPILE-EQUIV, well-formedness part) every linear model produced on the C01 family by the emulated compile step has sorted distinct variables, one coefficient per variable in every row and in the objective, finite numbers only, distinct non-empty row names and a domain for exactly its variables. NOT decided: nothing numeric is needed; the D-rules follow helpers one level only.")
def c08(F, R, tier):
    import c08 as mod
    G(mod.check, F, R)
    import c01rt
    G(c01rt.check, F, R, tier, "C08")
    import c08rt
    G(c08rt.check, F, R, get_grammar(), tier)
@prop("C01",
      technique="static: sign/variance typing of the requirement argument of every recursive linearize call against the post-processing applied to its result; relaxation tables evaluated over their finite domains; end-point polarity of big-M constants; dominance (apply_to_domain before construction); guard/field-set agreement",
      explanation="PARTIAL (necessary structure). Decides (P-REQ) for each of the 19 recursive Exp::linearize calls and the helper entries: the requirement passed down equals the sign with which the returned value enters the caller's result (merge_sub / mul_by(-1) / mul_by(k) / div_by(k) tracked; `reversed`, `through_scale(k)`, `through_scale(1/k)` normalised), Exact accepted everywhere; (T-CONVEX) reversed/through_scale tables, abs exact-vs-one-sided table, (ExtremeKind, requirement)->one_sided table true only for (Max,PreferLower),(Min,PreferHigher), operand requirement table, one-sided row direction, row comparison->requirement table; (P-BIGM) big-M constants are U(aux)-L(operand) for max and U(operand)-L(aux) for min, abs factors 2L with (1-p) and 2U with p, exact rows' direction and combinator, pruning tests L(other)>=U(this) / U(other)<=L(this), sign-known abs shortcuts on L>=0 / U<=0 with the matching requirement, selectors sum to one; (D-APPLY) derived bounds are applied to the domain handed to the linearizer, declare_variable is the only writer of the domain and registers bounds too; (D-FINITE) big-M end-points are tested finite by the guard of the same arm. (T-NUM-TEMPLATES) the abs / min / max lowering arms of Exp::linearize and linearize_extreme (and the arithmetic arms that hand a requirement down: +, -, scale, division, negation) are evaluated from their HIR with the linearizer context replaced by a recorder and the bounds oracle being the crate's own BoundsAnalyzer::bounds_of over a table of variable intervals; for 13 interval classes of abs, 12 of binary min/max (dominated, overlapping, equal-fixed, half-bounded, unbounded), ternary and constant operands and 19 nested forms (abs of a sign-known or sign-unknown min/max, min/max of abs, negative scales and divisors, differences), each under the three value requirements (153 templates), the emitted rows and auxiliary domains are decided on a rational grid of operand values including non-integers: Exact -- some 0/1 selectors satisfy all rows iff the value equals f(operands); PreferLower/PreferHigher -- f(operands) stays reachable and nothing on the wrong side of it is let in; a refusal is accepted only when a needed bound is infinite; a row with a non-finite constant is rejected. (COMPILE-EQUIV, feasible-set part) the whole compile step Linearizer::linearize (normalisation, bounds analysis and write-back, every lowering, the constraint loop with logic normalisation and contradiction rows, naming, variable filtering, assembly) is evaluated from its typed HIR on a family of two-variable models (pairs of constraints drawn from 21 left-hand forms incl. cancelling and constant-only ones x relation x right-hand side, three declared boxes incl. integer and Boolean); for every point of a rational grid of the declared box the source constraints and domains hold iff some auxiliary values satisfy every row and domain of the linear model (continuous auxiliaries eliminated exactly by Fourier-Motzkin over the rationals, Boolean ones enumerated); quick ~220 models, thorough ~640. During development the emulation gave text-identical linear models to the real compiler on 300 random models of the family. NOT decided: that the rows are an exact encoding -- big-M magnitudes with the right polarity (2L vs L), ties between equal fixed operands, interplay with bound propagation, real (non-grid) points, and the logic-lowering templates (not built).")
def c01(F, R, tier):
    import c01 as mod
    G(mod.check_c01, F, R)
    import c01rt
    G(c01rt.check, F, R, tier, "C01")
@prop("C02",
      technique="static: requirement polarity typing and relaxation tables (shared with C01), objective-direction table, data-flow of the objective offset from the linearised objective into the linear model and into every solver's reported value",
      explanation="PARTIAL. Decides P-REQ and T-CONVEX as for C01 (a wrong polarity in the objective makes the relaxed auxiliary unbounded or the optimum wrong); (T-OBJ) Min->PreferLower, Max->PreferHigher; (D-OFFSET) the constant of the linearised objective reaches LinearModel::new_from_parts unmodified together with its coefficients and the model's own direction, and every solver entry adds objective_offset (or uses calc_objective) when reporting the value, the tableau flipping the value but not the offset. (T-NUM-TEMPLATES, one-sided part) as in C01 for the PreferLower / PreferHigher requirements: on the grid the one-sided abs/min/max lowerings never let a value on the objective's good side of f(operands) in and keep f(operands) itself feasible, through negative scales, divisors and differences too. (COMPILE-EQUIV, objective part) on the same family and grid as C01: at every feasible point the best value of the linear objective over the auxiliaries (exact elimination) equals the value of the source objective. NOT decided: equality of optimal values and optimal assignments (numeric).")
def c02(F, R, tier):
    import c01 as mod
    G(mod.check_c02, F, R)
    import c01rt
    G(c01rt.check, F, R, tier, "C02")
@prop("C07",
      technique="static: end-point polarity type system over the interval constructors; forward/inverse operation tables extracted from typed HIR; field-use and who-may-write rules; loop-bound and freeze rules",
      explanation="PARTIAL. Decides (P-IVL) every Bounds::new / struct literal in bounds.rs builds its lower end-point from lower bounds (L) or exact constants and its upper from upper bounds, under the typing rules L+L=L, U+U=U, -L=U, branch-known sign of scale factors, min/max of equal polarity, loosening by the tolerance, ceil/floor only for integer ranges, max(L,0) only for non-negative variables; (T-BOUNDSOF) each Exp form is enclosed by the interval operation of the same name, min/max fold both end-points with min/max, products and quotients only by (non-zero) literals, everything else unbounded, logic forms [0,1]; (T-INVERSE) reverse propagation uses the inverse operation with the other operand's enclosure (Add, Sub, Mul c!=0, Div d!=0, Neg, affine rows), requirement table per comparison, intersect-first; (W-REVERSE) abs and max read only required.upper, min only required.lower, logic forms tighten nothing; (W-NANFREE) no raw end-point sums outside lower_sum/upper_sum, zero factors short-circuit; (W-WRITE) only tighten_variable stores ranges and it stores the intersection; (D-FREEZE, L-STEPS) propagation stops at the step limit and on a contradiction. (T-IVL-SEM) BoundsAnalyzer::bounds_of with the Bounds arithmetic is evaluated from its typed HIR on 21 expression forms (negation, abs, sums, differences, positive / negative / zero scales and divisors, min, max, nestings) over 10 interval classes per variable (sign-known, sign-unknown, point, half-bounded, unbounded): every interval returned is well formed (no NaN, lower <= upper) and contains the form's value at every point of a rational operand grid. (BOUNDS-SOUND) the whole analysis -- BoundsAnalyzer::analyze with AffineForm extraction, the propagation queue, forward and reverse rules, tighten_variable, the infeasibility flag -- and apply_to_domain are evaluated from their typed HIR on a family of two-variable models: single constraints and pairs drawn from 180 templates (18 left-hand forms incl. abs, min, max, nested and negatively scaled ones x relation x right-hand side) under four declared boxes (bounded, half-bounded, integer, free); on a rational grid of the declared box every point satisfying the constraints lies inside the derived range of each variable and inside the domain written back (integer rounding included), no bound is NaN, and the infeasibility flag is raised only when no grid point is feasible (quick ~1 100 models, thorough ~10 000). NOT decided: the algebra of prefix/suffix sums, float rounding of propagated bounds, the published-range soundness as a whole (numeric).")
def c07(F, R, tier):
    import c07 as mod
    G(mod.check, F, R, tier)
@prop("C06",
      technique="static: constructor tables per block kind and fold-shape rules on typed HIR, range-operator tables (parser and runtime), scope open/close pairing, adapter white-list, sibling agreement of name spelling, grammar separator; bounded symbolic evaluation of the front end (typed HIR) on construct / hand-unrolled program pairs",
      explanation="PARTIAL. Decides (T-BLOCKS) for both BlockFunctionKind and BlockScopedFunctionKind each kind builds the documented form (min->Min, max->Max, all->And, any->Or, xor->left Xor fold with 0, sum->right Add fold with identity 0, prod->right Mul fold with identity 1, avg->sum divided by the count taken before the pop), folds iterate the remaining operands in reverse with the newest operand on the left (source order kept), kinds shared by the two enums agree; (T-RANGE) `..`->exclusive, `..=`->inclusive in the parser, and both integer branches of range() build Range/RangeInclusive accordingly from `from` to `to`; (D-SCOPE) in every function that opens scope frames, opens and Ok-path closes pair up (same iteration list) and iteration variables are declared after the frame is opened; (W-ORDER) no order-changing or filtering adapter between to_primitives() and the loops / folds / declaration expansion; (S-NAMES) the run-time and the static flattening of an indexed name spell every Primitive kind the same way, joined with `_`, which is the grammar's separator. (EXPAND-EQUIV) a family of programs written with the constructs (31 written-out pairs plus template x data pairs: range ends incl. empty and single-element ranges, arrays, nested arrays, enumerate / zip / len, union / intersection / difference, five graphs with and without weights, neighbour sets, tuple destructuring, (1,23)/(12,3) index flattening, string indexes, sibling and dependent scopes, named constraints, quantified declarations, every aggregation block and scoped form incl. empty ones; quick ~170 pairs, thorough ~560) and the text unrolled by hand in iteration order both go through the emulated front end -- model of pest's matcher, converters, transform_parsed_problem, Linearizer::linearize, all evaluated from their typed HIR -- and must give the same linear model line for line (rows, order, names, coefficients, right-hand sides, variables, domains). NOT decided: programs outside the family; intersection / difference of a first operand with repeated elements (the text does not fix whether repeats survive).")
def c06(F, R, tier):
    import c06 as mod
    G(mod.check, F, R, get_grammar())
    import c06rt
    G(c06rt.check, F, R, get_grammar(), tier)
@prop("C16",
      technique="static: symbolic evaluation of the extracted builder translation and operator impls on operand samples of every type combination; call-graph must-pass-through over MIR; handle resolution data-flow; token-tree tables of the macro_rules! definitions; bounded symbolic evaluation of builder call sequences against the emulated text front end",
      explanation="PARTIAL. Decides (H-TOEXP) to_exp maps every Expr variant (13, with all 9 BinOps and 2 UnOps) to the same-named Exp form with operands in place and indexes resolved through the name table; (H-OPS) each of the 76 expanded std::ops impls for Expr/Var/f64/i32/bool builds the same-named operator with self on the left and rhs on the right (evaluated from their HIR), plus implies/iff; (S-EVAL) eval_expr agrees with the language's operator semantics on all operator x {0,1,2,-1}^2 constant cells, truthy/bool_num tables; (FUNNEL) only Linearizer::linearize assembles a LinearModel, the builder (linearize, solve_with), the one-shot solver and the pipes reach it, text entries reach parse_problem_source / transform_parsed_problem, pest is entered only from the pre-model parser; (D-HANDLE) handle -> variable_names[index] -> value_of(name), first duplicate wins, the solution carries the builder's name table, into_model marks every declared variable used and defaults to satisfy. (M-TABLE) the builder's macro_rules! definitions, read as token trees: in munch_constraint each comparison token builds BuilderConstraint::new(expr!(left), Comparison::<its variant>, expr!(right), ..), `->`, `<->` and the base arm assert the whole formula, dispatch arms precede the munching arm; munch_expr maps `->`/`<->` to Implies/Iff with operands in place; constraint! sets the name from stringify!(name); every vars! arm (6 scalar, 6 array forms) declares stringify!(name) through add_var / add_vars(.., count, ..) with the VariableType constructor of its keyword and ($min, $max) in order, binds the handle and continues. (FRONT-DOOR-EQUIV) ~115 models (32 numeric forms on either side of each comparison, 19 logic forms as assertions and as values, objectives, strict comparisons, satisfy / no objective, unbounded domains, a mixed model) are written once as source text and once as the builder calls a user would write -- the operator impl chosen by the Rust operand types (Var, Expr, f64, i32, bool), abs / min / max / sum / all / any, implies / iff, BuilderConstraint::new / new_logic_assertion, with / with_all, objective before or after the constraints; both sides are evaluated from typed HIR down to the printed LinearModel (ModelBuilder::linearize against matcher model + converters + transform_parsed_problem + Linearizer::linearize) and must agree line for line. NOT decided: the staged pipe runner and one-shot solver as whole programs (covered by FUNNEL only), solver verdicts and values, macro hygiene / expansion by rustc itself.")
def c16(F, R, tier):
    import c16 as mod
    G(mod.check, F, R)
    import macrotab
    G(macrotab.check, F, R)
    import c16rt
    G(c16rt.check, F, R, get_grammar(), tier)
@prop("C03",
      technique="static: stage-order dominance on MIR, error-propagation discipline on typed HIR, type-level infallibility of bound inference, arm-shape rule for detected contradictions",
      explanation="THIN CLAIM (pipeline shape only). Decides (D-STAGES) in RoocSolver::solve_with_data_using the calls create_type_checker -> transform -> Linearizer::linearize -> solver callback each dominate the next, the solver receives the linearised model, and in lib.rs, the pipes and the builder every Result of a stage call (parse, type check, transform, linearize, standardise, tableau, solver entries) is propagated with `?`/an Err arm and never discarded (.ok(), unwrap_or, let _, wrapped in Ok); (T-CONTRADICTION) BoundsAnalyzer::analyze/analyze_with_options/propagate/apply_to_domain do not return Result and no function of bounds.rs does; a constraint normalised to a contradiction and a constant assertion of the wrong truth value emit the row 0 = 1 and continue; an empty rounded integer range keeps the declared domain; (EARLY-OK) no public solver entry returns Ok without a back-end call unless it consulted the rows. (T-LOGIC-TEMPLATES, shared with C01) the rows emitted for every logic form (assertions and reified values, 115 forms) are decided on the whole Boolean cube. NOT decided: everything semantic -- that returned values satisfy the text, that the objective is optimal, that infeasible texts get the infeasible verdict. Static analysis contributes least here; see C01, C02, C04, C05, C09 for the tables this property leans on.")
def c03(F, R, tier):
    import c03 as mod
    G(mod.check, F, R)
    # a wrong row in a logic lowering is a wrong answer end to end: the template cube check of C01 is shared
    import c01
    G(c01.t_logic_templates, F, R)
    import c05rt
    G(c05rt.check, F, R, tier, props=("C03",))
    # a rewrite of a constraint or objective that changes its value is a wrong answer end to end (simplify runs on every
    # constraint before bound inference and lowering): the value-preservation rule of C10 is shared
    import c10
    G(c10.check, F, R, tier, only=("REWRITE-SEM",))
    # ... and so is a constant of the text that is evaluated to another number than the one it denotes
    import c06rt
    G(c06rt.check, F, R, get_grammar(), tier, only="constant:")
    # ... and so is a compilation error on a well-formed model over bounded domains (COMPILE-EQUIV's refusals)
    import c01rt
    G(c01rt.check, F, R, tier, "C03")
@prop("C14",
      technique="static: loop-bound rule and state write-set/ordering rule on typed HIR; tolerance predicates evaluated from their HIR over value pairs around the tolerance; abstract interpretation of into_tableau + Tableau::solve_step_by_step from their typed HIR on a bounded family of programs, with the tableau invariants checked after every recorded pivot (no compiled code of the crate runs)",
      explanation="PARTIAL (termination, state discipline, step invariants on a bounded family). Decides (L) both solve loops are `while iteration < limit` and every arm of the step match either increments the counter or returns, leaving by the limit reports IterationLimitReached; (T-PRED) the six float predicates, evaluated from their HIR on 169 value pairs around the 1e-5 tolerance, satisfy: exactly one of lt/eq/gt, le = lt|eq, ge = gt|eq, ne = !eq, lt(a,b) = gt(b,a); (W-STATE) pivot writes all five state components with the documented formulas, eliminates with factors a[i][h]/pivot and c[h]/pivot, skips the pivot row, and normalises the pivot row only after all other updates; optimality test (all costs float_ge 0) and entering rule (costs float_lt 0, non-basic) are complementary; Bland's rule is enabled by the stall counter and picks the smallest index; the ratio test runs over positive entries with smallest-basis-index tie break; a step tests optimality first. (STEP-INVARIANT) the crate's step-wise entry point (StandardLinearModel::into_tableau, then Tableau::solve_step_by_step, which records the tableau before every pivot) is evaluated from its typed HIR with IEEE doubles on the SIMPLEX-EQUIV family; for every tableau T_k of every sequence: the basic columns are unit columns with reduced cost 0 and no column is basic twice, the right-hand sides are non-negative, the basic solution of T_k satisfies the equations of T_0 and the basic solutions of all tableaux of the sequence satisfy the equations of T_k (equivalence on the points the method visits), the objective of T_0 at the basic solution never gets worse from one pivot to the next, and when the method stops with a solution no reduced cost is negative (1e-6 relative). Independent of how current_value is signed or stored; undecided when the step record is laid out differently. NOT decided: these invariants outside the family (they are numeric facts about every tableau), cycling beyond the Beale / Chvatal examples.")
def c14(F, R, tier):
    import c14 as mod
    G(mod.check, F, R)
    import c05rt
    G(c05rt.check, F, R, tier, props=("C14", "C05", "C04"))
@prop("C18",
      technique="static: panic census over the functions reachable (MIR call graph, dyn calls expanded) from the public stages -- every indexing, unwrap/expect, panic!/unreachable!, integer arithmetic and panicking Vec/str operation in their typed HIR must be discharged by a recognised structural guard or by the reviewed table; loop-bound rule; recursion / mutual recursion inventory with reviewed measures; allocation-bound rule for user-sized ranges",
      explanation="Decides for the 42 entry points (parse, format, type-check, transform, linearize, standardise, tableau, the five solver entries, RoocSolver, PipeRunner, error renderers and Display of the model types) and the ~550 functions reachable from them: (C-GUARD/C-TABLE/C-PANIC) each of the ~270 constructs that can panic is either discharged automatically (index bound by a 0..len loop or enumerate of the same collection, constant index / remove(0) / unwrap after an `is_empty()/is_none()/len() <` early return, contains_key, full-range slices, len+1 ...) or matches an entry of rules/c18_sites.json that names the guard or invariant justifying it (multiset semantics: a new site with the same text is new); anything else is reported; (L) each of the 10 non-for loops has a counter-bounded exit, consumes a collection it does not grow, or has a reviewed variant; (R, R-SCC) every directly or mutually recursive group is a structural descent on an owned/borrowed tree (recognised) or has a reviewed measure; (UNBOUNDED-ALLOC) a Range whose bounds come from call arguments and that is collected must be preceded by a length test. The MIR panic-terminator count of the same functions is reported next to the HIR census as a cross-check. NOT decided: stack depth (nesting is bounded by the input, not by the code), running time, memory use, panics inside dependencies (pest, microlp, clarabel, indexmap) and inside derive-generated code.")
def c18(F, R, tier):
    import c18 as mod
    G(mod.check, F, R, tier)
    G(mod.unbounded_alloc, F, R)
    G(mod.cast_sign, F, R)
# ---- additions after the false-alarm campaign (DESIGN 9.9): the evaluated rules each property gained, appended to its claim
POLICY = (" VERDICTS: every obligation is discharged, violated (a counterexample of an evaluated family, or a recognised construct with the wrong content) or undecided"
          " (the rule could not find, recognise or evaluate what it looks at -- after a refactoring, say); only violations fail the check; undecided obligations are printed and counted in"
          " the evidence; a property of which nothing could be decided fails as BLIND. Clauses that recognise one spelling of the code can confirm it; when they miss they are undecided and"
          " the evaluated rules named below decide. ENGINE-SELFTEST: the interpreter behind the evaluated rules is checked on every run against a fixture crate whose results are known.")
EXTRA = {
    "C18": "(CAST-SIGN) every cast of a signed integer to an unsigned type sits under a test that the value is not negative (a conjunct `x >= 0` of an enclosing if, the else of / the code after a diverging `if x < 0`): 3 casts.",
    "C06": "(EXPAND-EQUIV addition) ten constant-arithmetic programs (quotients of whole numbers in a `let`, a domain bound, an index expression, an iteration). Quantified declarations that produce one name twice: accepted when the domains agree, rejected like the hand-unrolled text when they differ. (EXPAND-EQUIV addition) set functions on operands of different numeric kinds (a range against an array literal, whole numbers against an array with a fractional entry): elements are compared by value.",
    "C11": "(ROUND-TRIP addition) quoted string indexes that spell a bound name (`x_{\"i\"}` inside `sum(i in ..)`); an identifier index equals the literal fragment of the same text only when the program binds that name nowhere. Explicit range(..) calls whose inclusive flag is a name or an expression. Graph literals with edge weights 0, 0.0 and negative ones.",
    "C02": "(COMPILE-EQUIV additions) the shared-operand models of C01: the best linear objective over the auxiliaries is the source objective also when an operand's auxiliary serves a one-sided and an exact position. The pruned-operand-first and nested-abs models of C01.",
    "C01": "(COMPILE-EQUIV additions) one nonlinear operand used several times in positions that ask different things of its auxiliary (one-sided in the objective, exact in a row; both signs in one sum; <=, >= and = rows on the same operand), and rows trivialised by a bound they imply themselves next to a contradiction (the source is infeasible everywhere: so must the linear model be). Near-touching operand ranges of a min / max (an operand may only be left out when it can never be the extreme), the declared end points are grid points; logic operators over operands that are affine in a Boolean but not 0/1 valued (compiled to the truthiness reading or refused). Three-operand min / max of which pruning removes an operand written before the others; abs whose operand contains another abs.",
    "C03": "(SIMPLEX-EQUIV, BRIDGE-EQUIV shared with C04/C05) verdict and optimum of the crate's simplex path equal the exact answer on the small-program family. (REWRITE-SEM, shared with C10) Exp::simplify / flatten, evaluated from their HIR, preserve the value of every enumerated arithmetic and logic tree (constant operands on either side included). (EXPAND-EQUIV, constant group, shared with C06) ten programs whose constants are defined by arithmetic (quotients of whole numbers, in a `let`, a domain bound, an index expression, an iteration) compile to the model of the text with the numbers written out. (COMPILE-EQUIV, refusals, shared with C01) none of the ~300 well-formed models over bounded domains is refused by the compile step with anything but the missing-bounds / non-binary-operand errors.",
    "C04": "(BRIDGE-EQUIV) both MicroLP bridges evaluated against a recording stand-in for the MicroLP API on 12 models: one column per variable in order with its kind, declared bounds and objective coefficient (also when the domain map is ordered differently from the variable list), rows, direction, each variable reported with its own column's value in its kind, objective plus constant, row activities. (GOODLP-BRIDGE-EQUIV) the same for the good_lp / Clarabel bridge. (SIMPLEX-EQUIV) the point the slow simplex returns names every variable once, lies in every declared range, satisfies every row and reproduces the reported value, on 42 (thorough 186) programs. (SIMPLEX-EQUIV addition) variables of the model whose names start with `$` come back with a value. (SIMPLEX-EQUIV addition) half-bounded ranges whose finite end is the binding one at the optimum: the returned point lies in the declared range.",
    "C05": "(SIMPLEX-EQUIV) solve_real_lp_problem_slow_simplex evaluated from typed HIR with IEEE doubles on 42 (thorough 186) programs of 1-7 variables -- bounded / free / half-bounded ranges, two-phase starts, redundant and degenerate rows, narrow infeasibility next to large right-hand sides, unbounded rays, ratio ties at small and large magnitude, tiny pivot-column entries, Beale's and Chvatal's cycling examples: the verdict is the exact one (Fourier-Motzkin over the rationals) and the optimum agrees to 1e-6; during development the evaluated path gave bit-identical values to the compiled crate on all programs. (BRIDGE-EQUIV / GOODLP-BRIDGE-EQUIV) solver errors and statuses map to the same verdicts. (SIMPLEX-EQUIV addition) programs with as many own columns as rows but not one per row (an = / >= / negative <= row without a column of its own). Infeasible programs with a variable that occurs in no row and improves the objective without limit (infeasible, not unbounded); two-phase starts whose first phase meets a structural row with the smallest ratio before an artificial one; thorough: 400 pseudo-random small equality systems (fixed seed). (GOODLP-BRIDGE-EQUIV addition) at Clarabel's (Almost)DualInfeasible the solution vector is a certificate, not a point: the scripted one violates rows and ranges and the verdict stays Unbounded. (SIMPLEX-EQUIV addition) phase one ending with an artificial variable basic at level zero in a later row whose leaving column occurs in an earlier row.",
    "C07": "(BOUNDS-SOUND additions) tiny coefficients on very wide variables; the published domain is held to exact containment of feasible end points in the inexact-arithmetic family. (BOUNDS-SOUND addition) eleven rows of four to six variables (every relation, mixed signs, integer ranges, a second row), sound on the corner/middle grid of the box. T-IVL-SEM / BOUNDS-SOUND: min and max of three and four operands with the deciding operand in the middle, over three variables of different ranges (forward enclosure, reverse rules, published domains). (BOUNDS-SOUND addition) quotients and products by a constant below and above a piecewise form (max(x/4,y), abs(x)/4, min(x/-3,y), abs(3x-y), max(x,y)/0.5): the reverse rules undo them.",
    "C08": "(WELL-FORMED-SRC) 22 source programs compiled by the emulated front end and compile step: repeated and generated-looking row names stay distinct with the first use kept, cancelling / multiplying infinities are refused or leave finite numbers only, missing-bounds errors name exactly the variables without two finite ends, every used variable is a sorted, duplicate-free column. (WELL-FORMED-SRC addition, collisions) for every auxiliary name the lowering generates on five base programs (exact abs / max / min, logic value, logic assertion), the program is compiled again with a user declaration of that very name as IntegerRange(3, 7), once used in a row and once never used: it is refused, or the name keeps the user's domain. Contents: a variable that occurs only under a zero factor (`0 * y`, `0y`, a zero entry of a cost table, `y * 0`, `y - y`) is still a column of the model.",
    "C09": "(CONVERT-EXP addition) a binary minus glued to its operands (`2(y)-3`, `7-2`, `x-1`) is the binary minus. (CONVERT-EXP additions) implicit products with negated parenthesised factors (`(-2)(-3)`, `(-x)(-y)`, `12 / (-2)(-3)`, ...); for the documented forms a tree other than the written one is accepted when it has the same value on every probe assignment. (G-BOUNDARY addition) every rule below exp_leaf that matches only words (the boolean literal) is atomic with the identifier boundary; (CONVERT-EXP addition) names that start with a keyword or a literal word (truex, falsey, notx, andy, orz, xory, iffy, minx, inx) are names.",
    "C10": "(REWRITE-HAZARD addition) divisions by zero / by a variable hidden in abs, min, max under a zero factor, a zero numerator or a self-difference must survive simplify and flatten. (REWRITE-SEM addition) abs / min / max over operands with signed constant factors (-2x, x*-2, (0-2)x, x/-2, c - x, c(x+y)) and scaled abs / min / max: about 480 more trees. (COMPILE-EQUIV spelling addition) a negative constant written on either side of max / min / abs, as a factor, a divisor or a negation, in the convenient and in the exact direction: same domain and feasible set as the plain spelling.",
    "C12": "(RECOMPILE-EQUIV) 91 (thorough 667) programs: the printed linear model is accepted by grammar, converters, type checker and transformer and compiles to the very same text again, incl. names that collide with index fragments. (LINEAR-ROUND-TRIP addition) magnitudes up to 1e30. Known findings: empty `s.t.` section, non-idempotent bound propagation, zero-coefficient variable dropped on recompilation. (LINEAR-ROUND-TRIP addition) models assembled through the public API (usage marks all zero). (LINEAR-ROUND-TRIP addition) domains that differ by less than 1e-5 at both ends are different domains.",
    "C13": "(SIMPLEX-EQUIV shared) the standard form is exercised end to end by the simplex family. (STD-EQUIV addition) range ends that differ from 0 or from each other by less than the crate's comparison tolerance (4e-6, [1, 1.000004]) are bounds all the same: their rows are there.",
    "C14": "(SIMPLEX-EQUIV) see C05; all clauses above recognise source text of the pivot / ratio test / canonical start and are undecided when it is written differently. Two-phase starts whose first phase meets a structural row with the smallest ratio before an artificial one. Phase one ending with an artificial variable basic at level zero in a later row whose leaving column occurs in an earlier row.",
    "C15": "(BRIDGE-EQUIV) 8 option sets (none, gap, limit, both, zero / negative / NaN gap) x 3 solver statuses: mip_gap and time_limit reach SolveOptions unchanged, nothing else differs from SolveOptions::default() (microlp 0.5), Optimal -> Optimal, Feasible -> Feasible, Interrupted -> Err(LimitReached) whatever the options. The status scripts run on a maximised and a minimised model with the solver's proven bound away from the incumbent (Stats::best_bound modelled): Feasible stays Feasible. The builder's MicroLP solver: with_mip_gap / with_time_limit in either order, repeated, alone -- every option set reaches SolveOptions. (BRIDGE-EQUIV addition) gaps of every magnitude (5e-324, 1e-9, 1e-6, 1e-4, 0.75, 1, 2.5, infinity, -0.0) reach the solver as given: no floor, ceiling or rounding.",
    "C16": "(FRONT-DOOR-EQUIV addition) constants written in the text or supplied through the API: the type checker accepts and the transformer compiles the same model when a text constant is defined from an API constant. (FRONT-DOOR-EQUIV addition) objectives without variables (a bare number, a constant expression, x - x) keep direction and constant through the builder as in the text. Builder call orders now include rows added one by one followed by two with_all batches, and an objective replaced by a later call (satisfy then the opposite sense then the model's objective; maximize then satisfy): the last call is the objective. The comparison includes the objective constant and coefficients as stored (LinearModel::objective_offset / objective evaluated from HIR), which the printed text of a feasibility model does not show.",
    "C17": "(LP-ROUND-TRIP addition) coefficients, right-hand sides, offsets and bounds up to 1e30 and at 2^63. Models assembled through the public API (usage marks all zero) export like compiled ones. User-written row names that are the labels the exporter generates for the unnamed rows next to them (c2 next to an unnamed second row, c2_1 as well, chains): the exported labels stay unique.",
    "C19": "(TYPE-SOUND addition) elements of union / intersection / difference / zip / enumerate results used in the kind the checker gives them. (TYPE-SOUND addition, scoping) 23 programs that use a name where it is not (yet) bound: an iterator / quantifier / domain quantifier that mentions the name it binds or a later one, a block name used after the block or in a sibling, constants defined from later constants or from iteration names.",
    "C20": "(GOODLP-BRIDGE-EQUIV) solve_real_lp_problem_clarabel -> solve_with_good_lp -> collect_good_lp_duals evaluated against a recording model of good_lp (variables, expressions built with good_lp's overloaded operators, constraints, direction, scripted values / duals / statuses) on 4 models: every named row's shadow price is the dual held for that row's own constraint reference, unchanged (duals of both signs, tiny ones, binding rows with right-hand side 0); unnamed rows are left out; the objective keeps the model's direction and sign; rows keep their expression on the left with the matching comparison. (GOODLP-BRIDGE-EQUIV addition) rows far from unit scale (coefficients 5000 / 1e6 / 5e-4): a row may be handed over at another scale k (relation turned round for k < 0), the reported price must then be k times the solver's dual. Row names with leading underscores, a `$`, a generated-looking suffix are names like any other: their prices are reported.",
}
for _pid, _spec in PROPS.items():
    _spec["explanation"] = _spec["explanation"] + (" " + EXTRA[_pid] if _pid in EXTRA else "") + POLICY
