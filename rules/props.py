"""property registry: which rule modules decide which property, and the evidence text"""
import importlib
import facts
import engine
import grammar

PROPS = {}


def prop(pid, **kw):
    def deco(fn):
        PROPS[pid] = dict(fn=fn, **kw)
        return fn
    return deco


_cache = {}


def get_facts(config="default"):
    if config not in _cache:
        path, tag, regenerated = facts.build_facts(config)
        _cache[config] = facts.Facts(path)
        _cache[config].regenerated = regenerated
    return _cache[config]


def get_grammar():
    if "grammar" not in _cache:
        _cache["grammar"] = grammar.Grammar()
    return _cache["grammar"]


COMMON_NOT_ANALYSABLE = [
    "cfg(target_family=wasm) code paths (wasm32 target not installed)",
    "native solver features coin_cbc/highs/lpsolve/scip/scip_bundled/lp-solvers/cplex-rs (their -sys crates cannot build offline)",
    "#[cfg(test)] modules (out of scope by construction)",
]
COMMON_ASSUMPTIONS = [
    "rustc name/type resolution and MIR construction (nightly 1.97) are trusted",
    "pest_meta's grammar front end is trusted to read grammar.pest the way pest_derive does",
]


def run(pid, tier):
    spec = PROPS[pid]
    R = engine.Report(pid, tier)
    R.not_analysable = list(COMMON_NOT_ANALYSABLE)
    R.assumptions = list(COMMON_ASSUMPTIONS) + spec.get("assumptions", [])
    F = get_facts("default")
    R.configs.append({"config": "default", "features": F.features, "tag": F.tag, "body_owners": F.counts["body_owners"], "hir_bodies": F.counts["hir_bodies"], "mir_bodies": F.counts["mir_bodies"]})
    spec["fn"](F, R, tier)
    return R.finish(spec["explanation"], spec["technique"])


def _load():
    for m in ("p09",):
        importlib.import_module(m)


@prop("C09",
      technique="static: Pratt-table extraction from typed HIR vs documented order; grammar/table/mapper three-way set agreement; PEG structure lints on pest_meta AST; positional data-flow of operands",
      explanation="Decides the structural clauses of C09: (T-PRATT) the operator table extracted from the PrattParser::new().op(..) chain equals the documented levels and associativities; (S-3WAY) grammar binary_op/unary_op alternatives = Pratt-table rules = rules handled by map_infix/map_prefix, with a name-preserving Rule->BinOp/UnOp mapping; (G-*) operator spellings and aliases live in the same grammar rule, alphabetic operators and keywords are atomic with an identifier-boundary look-ahead, no ordered-choice alternative shadows a later one, implicit_mul is a leaf tried before parenthesis/primitive, exp has the token shape the Pratt loop expects; (H-IMPLICIT) implicit multiplication folds left with Mul only; (H-INTOEXP) each operator is lowered to the same-named Exp form with lhs/rhs in place. NOT decided: pest's PEG/Pratt engine, numeric evaluation of operators.",
      assumptions=["pest 2.9 Pratt semantics as read from its source (expr loops while rbp < lbp; Left rhs rbp=prec, Right rbp=prec-1)"])
def c09(F, R, tier):
    import c09 as mod
    mod.check(F, R, get_grammar())
