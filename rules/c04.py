"""C04 Returned solutions are feasible and self-consistent -- back-end mapping tables and flows.

Decides: T-MAP (Comparison / OptimizationType / VariableType mapping tables into microlp and
good_lp, bounds in (min,max) order, value read-back kinds), H-COLUMNS (one column per variable,
no reordering/filtering adapters between the variable list and the solver columns), D-ACTIVITY
(row activities are computed from the returned values), D-OFFSET (objective offset reaches the
reported value; the tableau flips the value but not the offset), S-SPLIT reader side, EARLY-OK
(no solver entry returns Ok without consulting the rows).  Status handling is C15.
Not decided: that the back-ends' numbers satisfy the rows within 1e-6.
"""
import re
from facts import norm, base_ty, walk, strip, sexp
from flow import LocalFlow, pat_binds, free_locals
import table

CMP = "math::math_enums::Comparison"
OPT = "math::math_enums::OptimizationType"
VT = "math::math_enums::VariableType"
MILPV = "solvers::milp_solver::MILPValue"
SOLVER_FNS = ("solvers::milp_solver::solve_milp_lp_problem_with", "solvers::simplex::simplex_solver::solve_real_lp_problem_micro_lp", "solvers::good_lp::solve_with_good_lp")
ORDER_BREAKERS = {"filter", "skip", "rev", "step_by", "take", "sort", "sort_by", "sort_by_key", "sort_unstable", "dedup", "retain", "swap_remove", "filter_map", "skip_while", "take_while", "reverse", "chain", "cycle"}


def arm_map(F, m, enum_path):
    """variant -> arm (first match), wildcard/binding arms cover the rest"""
    out = {}
    vs = F.variants(enum_path) or []
    for arm in m["arms"]:
        for alt in table.pat_alternatives(arm["pat"]):
            h = table.pat_head(alt)
            if h[0] == "variant":
                out.setdefault(h[1].rsplit("::", 1)[-1], (arm, alt))
            elif h[0] == "any":
                for v in vs:
                    out.setdefault(v, (arm, alt))
    return out


def diverges_err(body, variant_suffix=None):
    # the arm's value is itself `Err(..)` (a table inside a fallible helper whose caller propagates it)
    h0 = table.head(body)
    if h0[0] == "variant" and h0[1].endswith("Result::Err"):
        if variant_suffix is None or any((y.get("path") or "").endswith(variant_suffix) for y in walk(body)):
            return True
    for x in walk(body):
        if x.get("k") == "Ret" and x.get("e") is not None:
            h = table.head(x["e"])
            if h[0] == "variant" and h[1].endswith("Result::Err"):
                if variant_suffix is None:
                    return True
                return any((y.get("path") or "").endswith(variant_suffix) for y in walk(x["e"]))
    return False


def dollar_literals(F, f, depth=2, seen=None):
    """string literals starting with `$` in f, in the constants it names and in the local functions it calls (a table of
    prefixes kept in a `const`, a helper that tests them)"""
    seen = seen if seen is not None else set()
    out = set()
    if f is None or "body" not in f or f["path"] in seen:
        return out
    seen.add(f["path"])
    for n in walk(f["body"]):
        if n.get("k") == "Lit" and n.get("lk") == "str" and str(n.get("v", "")).startswith("$"):
            out.add(n["v"])
        if depth > 0:
            tgt = None
            if n.get("k") == "Path" and n.get("res") in ("def", None) and n.get("path"):
                tgt = F.fns.get(n["path"]) or F.fns.get(norm(n["path"]))
            elif n.get("k") in ("Call", "MCall"):
                c = n.get("resolved") or n.get("callee")
                tgt = F.fns.get(c) if c else None
            if tgt is not None and tgt.get("file") == f.get("file"):
                out |= dollar_literals(F, tgt, depth - 1, seen)
    return out


def check(F, R):
    t_map_comparison(F, R)
    t_map_direction(F, R)
    t_map_columns(F, R)
    h_columns(F, R)
    d_activity_offset(F, R)
    tableau_readback(F, R)
    early_ok(F, R)
    h_positional(F, R)


def t_map_comparison(F, R):
    want_op = {"LessOrEqual": "Le", "GreaterOrEqual": "Ge", "Equal": "Eq"}
    want_m = {"LessOrEqual": "leq", "GreaterOrEqual": "geq", "Equal": "eq"}
    n = 0
    for f, m in table.find_matches(F, scrut_ty=CMP):
        am = arm_map(F, m, CMP)
        heads = {v: table.head(a[0]["body"], unwrap_ok=True) for v, a in am.items()}
        is_mlp = any(h[0] == "variant" and "ComparisonOp" in h[1] for h in heads.values())
        is_glp = any(h[0] == "mcall" and h[2]["name"] in ("leq", "geq", "eq") for h in heads.values())
        if not (is_mlp or is_glp):
            continue
        n += 1
        R.fn(f["path"])
        for v in F.variants(CMP):
            h = heads.get(v)
            key = "%s:Comparison::%s" % (f["path"], v)
            if v in want_op:
                if is_mlp:
                    got = h[1].rsplit("::", 1)[-1] if h and h[0] == "variant" else str(h and h[:2])
                    R.ob("T-MAP", key, got == want_op[v], F.loc(f, m), "Comparison::%s -> ComparisonOp::%s, expected %s" % (v, got, want_op[v]))
                else:
                    got = h[2]["name"] if h and h[0] == "mcall" else str(h and h[:2])
                    rhs_ok = h and h[0] == "mcall" and "rhs" in sexp(h[2]["args"][0])
                    R.ob("T-MAP", key, got == want_m[v] and rhs_ok, F.loc(f, m), "Comparison::%s -> expression.%s(..), expected %s(constraint.rhs())" % (v, got, want_m[v]))
            else:
                arm = am.get(v)
                R.ob("T-MAP", key, arm is not None and diverges_err(arm[0]["body"], "UnavailableComparison"), F.loc(f, m), "strict comparison %s must be rejected with UnavailableComparison" % v)
    # a mapping written in another form than a `match` on the comparison is not seen by this rule: undecided, not wrong
    R.ob("T-MAP", "comparison-sites", n == 3, "", "expected 3 Comparison mapping sites (2 microlp, 1 good_lp), found %d" % n, undecided=True)


def t_map_direction(F, R):
    want = {"Max": ("Maximize", "Maximisation"), "Min": ("Minimize", "Minimisation")}
    n = 0
    for f, m in table.find_matches(F, scrut_ty=OPT):
        am = arm_map(F, m, OPT)
        heads = {v: table.head(a[0]["body"]) for v, a in am.items()}
        if not any(h[0] == "variant" and ("OptimizationDirection" in h[1] or "ObjectiveDirection" in h[1]) for h in heads.values()):
            continue
        n += 1
        R.fn(f["path"])
        for v in ("Max", "Min", "Satisfy"):
            h = heads.get(v)
            got = h[1].rsplit("::", 1)[-1] if h and h[0] == "variant" else None
            if v in want:
                R.ob("T-MAP", "%s:OptimizationType::%s" % (f["path"], v), got in want[v], F.loc(f, m), "OptimizationType::%s -> %s, expected one of %s" % (v, got, want[v]))
            else:
                arm = am.get(v)
                ok = got in ("Minimize", "Minimisation", "Maximize", "Maximisation") or (arm is not None and diverges_err(arm[0]["body"]))
                R.ob("T-MAP", "%s:OptimizationType::Satisfy" % f["path"], ok, F.loc(f, m), "Satisfy -> %s (any direction or an explicit error)" % got)
    R.ob("T-MAP", "direction-sites", n == 3, "", "expected 3 optimisation-direction mapping sites, found %d" % n, undecided=True)


def _binder_ids(alt):
    """binding ids of a VariableType::X(min, max) pattern, in order"""
    ids = []
    for p in alt.get("pats", []):
        b = pat_binds(p)
        ids.append(b[0][0] if len(b) == 1 else None)
    return ids


def t_map_columns(F, R):
    n_cols = 0
    n_vals = 0
    for f, m in table.find_matches(F, scrut_ty=VT):
        am = arm_map(F, m, VT)
        heads = {v: table.head(a[0]["body"]) for v, a in am.items()}
        lf = LocalFlow(f["body"])
        # microlp column constructors
        if any(h[0] == "mcall" and h[2]["name"] in ("add_var", "add_binary_var", "add_integer_var") for h in heads.values()):
            n_cols += 1
            R.fn(f["path"])
            want = {"Boolean": "add_binary_var", "IntegerRange": "add_integer_var", "Real": "add_var", "NonNegativeReal": "add_var"}
            for v in F.variants(VT):
                arm, alt = am.get(v, (None, None))
                h = heads.get(v)
                key = "%s:VariableType::%s" % (f["path"], v)
                if h is None or h[0] != "mcall":
                    # the real-only solver rejects integer kinds with InvalidDomain
                    ok = arm is not None and diverges_err(arm["body"], "InvalidDomain") and v in ("Boolean", "IntegerRange")
                    R.ob("T-MAP", key, ok, F.loc(f, m), "VariableType::%s has no column constructor (only acceptable as an InvalidDomain error for integer kinds)" % v)
                    continue
                got = h[2]["name"]
                ok = got == want[v]
                detail = "VariableType::%s -> %s, expected %s" % (v, got, want[v])
                if v != "Boolean":
                    tup = [x for x in h[2]["args"] if strip(x).get("k") == "Tup"]
                    ids = _binder_ids(alt) if alt.get("k") == "PTupleStruct" else []
                    if len(tup) == 1 and len(ids) == 2 and None not in ids:
                        es = strip(tup[0])["es"]
                        r0 = free_locals(es[0])
                        r1 = free_locals(es[1])
                        okb = r0 == {ids[0]} and r1 == {ids[1]}
                        ok = ok and okb
                        detail += "; bounds tuple %s must be (min, max) in that order" % sexp(strip(tup[0]))
                    else:
                        ok = False
                        detail += "; bounds tuple not found"
                R.ob("T-MAP", key, ok, F.loc(f, arm["body"]), detail)
        # good_lp variable definition
        if any(h[0] == "mcall" and "VariableDefinition" in (F.ty(h[2]) or "") for h in heads.values()):
            n_cols += 1
            R.fn(f["path"])
            for v in F.variants(VT):
                arm, alt = am.get(v, (None, None))
                if arm is None:
                    R.ob("T-MAP", "%s:VariableType::%s" % (f["path"], v), False, F.loc(f, m), "no arm")
                    continue
                chain = [x for x in walk(arm["body"]) if x.get("k") == "MCall"]
                names = [x["name"] for x in chain]
                ids = _binder_ids(alt) if alt.get("k") == "PTupleStruct" else []
                ok = True
                detail = "builder chain %s" % list(reversed(names))
                if v == "Boolean":
                    ok = "binary" in names and "integer" not in names
                else:
                    ok = ("integer" in names) == (v == "IntegerRange") and "binary" not in names and "min" in names and "max" in names
                    for x in chain:
                        if x["name"] in ("min", "max") and len(ids) == 2:
                            want_id = ids[0] if x["name"] == "min" else ids[1]
                            if free_locals(x["args"][0]) != {want_id}:
                                ok = False
                                detail += "; .%s(%s) takes the wrong bound" % (x["name"], sexp(x["args"][0]))
                R.ob("T-MAP", "%s:VariableType::%s" % (f["path"], v), ok, F.loc(f, arm["body"]), "VariableType::%s -> %s" % (v, detail))
        # read-back kinds
        if any(h[0] == "variant" and h[1].startswith(MILPV) for h in heads.values()):
            n_vals += 1
            R.fn(f["path"])
            want = {"Real": "Real", "NonNegativeReal": "Real", "IntegerRange": "Int", "Boolean": "Bool"}
            for v in F.variants(VT):
                h = heads.get(v)
                got = h[1].rsplit("::", 1)[-1] if h and h[0] == "variant" else None
                R.ob("T-MAP", "%s:readback:%s" % (f["path"], v), got == want[v], F.loc(f, m), "value of a %s variable is reported as MILPValue::%s, expected %s" % (v, got, want[v]))
    R.ob("T-MAP", "column-sites", n_cols == 3, "", "expected 3 VariableType->column sites (2 microlp, 1 good_lp), found %d" % n_cols, undecided=True)
    R.ob("T-MAP", "readback-sites", n_vals == 1, "", "expected 1 VariableType->MILPValue site, found %d" % n_vals, undecided=True)


def h_columns(F, R):
    for p in SOLVER_FNS:
        f = F.fn(p)
        if f is None:
            R.ob("H-COLUMNS", p + ":anchor", False, "", "solver entry not found", undecided=True)
            continue
        R.fn(p)
        # only adapters applied to a sequence that is indexed like the columns (variables, domains, coefficients, values):
        # `.filter` on an Option, or on the list of row names, does not move a column
        def columnar(n):
            if base_ty(F.ty(strip(n["recv"])) or "").endswith("option::Option"):
                return False
            root = n
            while root.get("k") == "MCall":
                root = strip(root["recv"])
            return re.search(r"variables|domain|coefficients|objective|values|assignment", sexp(n["recv"])) is not None
        bad = [(n["name"], n.get("l")) for n in walk(f["body"]) if n.get("k") == "MCall" and n["name"] in ORDER_BREAKERS and columnar(n)]
        R.ob("H-COLUMNS", p + ":no-reordering", not bad, F.loc(f), "order-changing/filtering adapters between the model's variable list and the solver columns: %s" % bad)
        # one unconditional push of a column per variable inside the loop over the variables
        ok = False
        detail = "no loop over the variables that pushes one column per iteration"
        for n in walk(f["body"]):
            if n.get("k") == "For" and "variables" in sexp(n["iter"]):
                body = strip(n["body"])
                stmts = body.get("stmts", []) + ([{"k": "Expr", "e": body["e"]}] if body.get("e") else [])
                pushes = [s for s in stmts if s.get("k") in ("Expr", "Semi") and strip(s["e"]).get("k") == "MCall" and strip(s["e"])["name"] == "push"]
                if len(pushes) == 1:
                    ok = True
                    detail = "loop over %s pushes %s once per variable" % (sexp(n["iter"]), sexp(strip(pushes[0]["e"])["recv"]))
        # columns created by an iterator chain instead of a `for` loop are not seen by this clause (undecided); the
        # adapters of such a chain are still checked by the no-reordering clause above
        R.ob("H-COLUMNS", p + ":one-column-per-variable", ok, F.loc(f), detail, undecided=True)
        # the assignment is a map over the columns zipped with the variables, no filter (checked above)
        asg = [n for n in walk(f["body"]) if n.get("k") == "Struct" and norm(n.get("path") or "").endswith("common::Assignment")]
        R.ob("H-COLUMNS", p + ":assignment-per-variable", len(asg) == 1, F.loc(f), "%d Assignment constructions (one value per variable expected)" % len(asg), undecided=(len(asg) == 0))


def d_activity_offset(F, R):
    n_act = 0
    for p in SOLVER_FNS:
        f = F.fn(p)
        if f is None:
            continue
        lf = LocalFlow(f["body"])
        sol_ids = {n["id"] for n in walk(f["body"]) if n.get("k") == "PBind" and (base_ty(F.tyi(n.get("t")) or "") in ("microlp::Solution",) or n["name"] in ("solution",))}
        lp_ids = {n["id"] for prm in f.get("params", []) for n in walk(prm) if n.get("k") == "PBind" and (base_ty(F.tyi(n.get("t")) or "").endswith("LinearModel"))}
        for n in walk(f["body"]):
            if n.get("k") == "Call" and norm(n.get("callee") or "").endswith("make_constraints_map_from_assignment"):
                n_act += 1
                a0 = free_locals(n["args"][0])
                r1 = lf.roots(n["args"][1], stop=sol_ids)
                R.ob("D-ACTIVITY", p, a0 <= lp_ids and bool(r1 & sol_ids), F.loc(f, n),
                     "row activities must be computed on the model being solved from the returned solution's values: args %s; value sources %s" % (sexp(n), sorted(str(lf.names.get(i, i)) for i in r1)))
        # objective value: second argument of LpSolution::new
        for n in walk(f["body"]):
            if n.get("k") == "Call" and norm(n.get("callee") or "").endswith("LpSolution::new") and len(n["args"]) == 3:
                v = n["args"][1]
                txt = sexp(v)
                for i in free_locals(v):
                    for d in lf.defs.get(i, []):
                        txt += " <- " + sexp(d)
                ok = "objective_offset()" in txt or "calc_objective(" in txt
                R.ob("D-OFFSET", p, ok, F.loc(f, n), "reported objective `%s` must include the model's constant offset" % txt[:200])
    R.ob("D-ACTIVITY", "sites", n_act == 3, "", "expected 3 activity computations, found %d" % n_act, undecided=True)
    # calc_objective adds the offset exactly once
    f = F.fn("transformers::linear_model::LinearModel::calc_objective")
    if f is not None:
        R.fn(f["path"])
        adds = [n for n in walk(f["body"]) if n.get("k") == "Binary" and n["op"] == "+" and "objective_offset" in sexp(n["b"])]
        R.ob("D-OFFSET", "calc_objective", len(adds) == 1, F.loc(f), "calc_objective must add self.objective_offset once")
    # auto solver's variable-free shortcut reports the offset
    f = F.fn("solvers::simplex::optimal_tableau::OptimalTableau::optimal_value")
    if f is not None:
        R.fn(f["path"])
        ok = False
        detail = "no `<flipped value> + value_offset()` found"
        for n in walk(f["body"]):
            if n.get("k") == "Binary" and n["op"] == "+":
                a, b = sexp(n["a"]), sexp(n["b"])
                if "value_offset" in b and "flip" not in b and "current_value" in a and "flip" in a and "value_offset" not in a:
                    ok = True
                elif "value_offset" in a and "flip" not in a and "current_value" in b and "flip" in b:
                    ok = True
                detail = "optimal_value = %s" % sexp(n)
        R.ob("D-OFFSET", "tableau:flip-value-not-offset", ok, F.loc(f), detail)
        # flip is -1 exactly when flip_result is set
        for n in walk(f["body"]):
            if n.get("k") == "If" and "flip_result" in sexp(n["cond"]):
                t, e = sexp(n["then"]), sexp(n.get("else"))
                R.ob("D-OFFSET", "tableau:flip-sign", "-1.0" in t and e in ("{1.0}", "1.0"), F.loc(f, n), "flip factor: then %s else %s" % (t, e))


def tableau_readback(F, R):
    """S-SPLIT reader side: x = value($p x) - value($m x); only $sl_/$su_/$a_ columns are dropped"""
    f = F.fn("solvers::simplex::optimal_tableau::OptimalTableau::as_lp_solution")
    if f is None:
        R.ob("S-SPLIT", "reader:anchor", False, "", "as_lp_solution not found", undecided=True)
        return
    R.fn(f["path"])
    dropped = set()
    stripped = set()

    def strip_prefix_literals(g, depth=2, seen=None):
        """`$..` literals that the function (or a same-file helper it calls) peels off with strip_prefix: the halves of
        a split variable, which are recombined rather than dropped"""
        seen = seen if seen is not None else set()
        if g is None or "body" not in g or g["path"] in seen:
            return
        seen.add(g["path"])
        for n in walk(g["body"]):
            if n.get("k") == "MCall" and n["name"] == "strip_prefix":
                a = strip(n["args"][0])
                if a.get("k") == "Lit":
                    stripped.add(a["v"])
            if depth > 0 and n.get("k") in ("Call", "MCall"):
                c = n.get("resolved") or n.get("callee")
                tgt = F.fns.get(c) if c else None
                if tgt is not None and tgt.get("file") == g.get("file"):
                    strip_prefix_literals(tgt, depth - 1, seen)
    strip_prefix_literals(f)
    # every other `$..` literal the function reaches is a prefix it tests for (directly, through a list of prefixes, a
    # constant or a helper)
    dropped = {v for v in dollar_literals(F, f) if v not in stripped}
    R.table("tableau_dropped_prefixes", sorted(dropped))
    # the prefixes are read off `name.starts_with("..")` tests; written another way (a table of prefixes, a helper) they
    # are not seen: undecided.  A recognised but different set is evidence.
    R.ob("S-SPLIT", "reader:dropped-prefixes", dropped == {"$su_", "$sl_", "$a_"}, F.loc(f), "prefixes dropped from the solution %s, expected exactly the slack/surplus/artificial prefixes" % sorted(dropped), undecided=not dropped)
    R.ob("S-SPLIT", "reader:split-prefixes", stripped == {"$p", "$m"}, F.loc(f), "split prefixes %s" % sorted(stripped), undecided=not stripped)
    # reconstruction is `positive - negative`
    ok = False
    detail = "no reconstruction `*val - *minus` found"
    for n in walk(f["body"]):
        if n.get("k") == "Struct" and norm(n.get("path") or "").endswith("Assignment"):
            for fld in n["fields"]:
                if fld["name"] == "value" and strip(fld["e"]).get("k") == "Binary":
                    b = strip(fld["e"])
                    detail = "value = %s" % sexp(b)
                    ok = b["op"] == "-" and "minus" not in sexp(b["a"]) and "minus" in sexp(b["b"])
    R.ob("S-SPLIT", "reader:p-minus-m", ok, F.loc(f), detail)


def early_ok(F, R):
    """a solver entry that returns Ok(LpSolution) without a back-end call must have consulted the rows"""
    entries = [p for p in F.fns if p.startswith("solvers::") and F.fns[p].get("vis") == "Public" and "LpSolution" in (F.tyi(F.fns[p].get("output")) or "") and "Result" in (F.tyi(F.fns[p].get("output")) or "") and "body" in F.fns[p]]
    for p in sorted(entries):
        f = F.fns[p]
        if not any((F.tyi(t) or "").endswith("LinearModel") for t in f.get("inputs", [])):
            continue
        for n in walk(f["body"]):
            if n.get("k") == "Ret" and n.get("e") is not None:
                h = table.head(n["e"])
                if h[0] == "variant" and h[1].endswith("Result::Ok") and any(x.get("k") == "Call" and norm(x.get("callee") or "").endswith("LpSolution::new") for x in walk(n["e"])):
                    # find the guarding condition
                    cond = None
                    for i in walk(f["body"]):
                        if i.get("k") == "If" and any(x is n for x in walk(i["then"])):
                            cond = i["cond"]
                    ctxt = sexp(cond) if cond else ""
                    R.fn(p)
                    R.ob("EARLY-OK", p, "constraints()" in ctxt, F.loc(f, n),
                         "returns Ok(..) without calling a back-end, guarded only by `%s`: the rows are never consulted, so a variable-free contradictory model (0 = 1) is reported as solved" % ctxt)


def h_positional(F, R):
    """H-POSITIONAL: calc_objective / calc_constraints / make_constraints_map_from_assignment read their value vector by
    position in the model's variable order: every vector handed to them must be built by iterating that model's variable
    list (directly, or zipped with the solver's columns), never taken in another component's order"""
    sinks = ("LinearModel::calc_objective", "LinearModel::calc_constraints", "make_constraints_map_from_assignment")
    n = 0
    for f in F.fn_list:
        if "body" not in f or f["path"].endswith(tuple(sinks)):
            continue
        lf = None
        for c in walk(f["body"]):
            if c.get("k") not in ("Call", "MCall"):
                continue
            cal = norm(c.get("resolved") or c.get("callee") or "")
            if not cal.endswith(sinks):
                continue
            arg = c["args"][-1]
            if lf is None:
                lf = LocalFlow(f["body"])
            # transitive definition text of the argument
            seen, todo, texts = set(), list(free_locals(arg)), [sexp(arg)]
            while todo:
                i = todo.pop()
                if i in seen:
                    continue
                seen.add(i)
                for d in lf.defs.get(i, []):
                    texts.append(sexp(d))
                    todo.extend(free_locals(d))
            is_param = any(strip(arg).get("k") == "Path" and strip(arg).get("id") == p_["id"] for prm in f.get("params", []) for p_ in walk(prm) if p_.get("k") == "PBind")
            if is_param:
                continue  # a forwarding helper: its callers are checked
            n += 1
            joined = " <- ".join(texts)
            ok = re.search(r"\bvariables\(\)|\bvariables\b", joined) is not None
            # the rule recognises a vector that is visibly built from the model's variable list; a chain that goes through
            # another function or another spelling is not evidence of a wrong order (BRIDGE-EQUIV / SIMPLEX-EQUIV recompute
            # objective and row activities from the returned point and decide)
            R.ob("H-POSITIONAL", "%s:%s" % (f["path"], cal.rsplit("::", 1)[-1]), ok, F.loc(f, c), "the value vector `%s` is not visibly built in the model's variable order (not analysable by this rule); its definition chain is: %s" % (sexp(arg)[:60], joined[:300]), undecided=True)
    R.ob("H-POSITIONAL", "sites", n >= 4, "", "expected at least 4 positional evaluation sites, found %d" % n, undecided=True)
