"""C08 Compiled linear models are well-formed; no guessed or non-finite constants.

Decides: D-SORTED, D-USAGE, D-FINITE (big-M constants are built only from bound fields tested
finite by the MissingFiniteBounds guard of the same lowering), FINITE-SANITISE (some finiteness
test lies between the linearised rows/objective and the LinearModel), N-NAMES (row-name
de-duplication, auxiliary declaration, `$` name space, counters), W-COEFF (one coefficient per
variable).  Nothing numeric is needed for these clauses.
"""
import re
from facts import norm, base_ty, walk, strip, sexp
from flow import LocalFlow, pat_binds, free_locals
import table
import mirlib

LIN = "transformers::linearizer::Linearizer::linearize"
BOUNDS_TY = "transformers::bounds::Bounds"



def S(R, rule, key, ok, where="", detail=""):
    """a clause that recognises one spelling of the construction of the linear model: it can confirm, a miss is undecided.
    The well-formedness itself is decided on every model the emulated compile step produces (COMPILE-EQUIV, C08 part)."""
    return R.ob(rule, key, ok, where, detail, undecided=True)

def check(F, R):
    d_sorted(F, R)
    d_usage(F, R)
    d_finite(F, R)
    finite_sanitise(F, R)
    n_names(F, R)
    w_coeff(F, R)


def d_sorted(F, R):
    f = F.fn(LIN)
    if f is None:
        S(R, "D-SORTED", "anchor", False, "", "Linearizer::linearize not found")
        return
    R.fn(LIN)
    lf = LocalFlow(f["body"])
    calls = [n for n in walk(f["body"]) if n.get("k") == "Call" and norm(n.get("callee") or "").endswith("LinearModel::new_from_parts")]
    if not S(R, "D-SORTED", "constructor", len(calls) == 1 and len(calls[0]["args"]) == 6, F.loc(f), "expected one LinearModel::new_from_parts(objective, type, offset, rows, variables, domain) call"):
        return
    c = calls[0]
    v = strip(c["args"][4])
    ok_local = v.get("k") == "Path" and v.get("res") == "local"
    S(R, "D-SORTED", "variables-is-local", ok_local, F.loc(f, c), "the variable list handed to the model must be the sorted local, got `%s`" % sexp(v))
    if not ok_local:
        return
    vid = v["id"]
    sorts = [n for n in walk(f["body"]) if n.get("k") == "MCall" and n["name"] in ("sort", "sort_unstable") and strip(n["recv"]).get("id") == vid]
    muts = [n["name"] for n in walk(f["body"]) if n.get("k") == "MCall" and strip(n["recv"]).get("id") == vid and n["name"] in ("push", "insert", "retain", "dedup", "reverse", "swap", "truncate", "remove", "swap_remove", "extend", "append", "drain", "clear", "sort_by", "sort_by_key", "rotate_left", "rotate_right")]
    S(R, "D-SORTED", "sorted", len(sorts) == 1, F.loc(f, sorts[0]) if sorts else F.loc(f), "the variable list must be sorted exactly once with the natural order (found %d sort calls)" % len(sorts))
    S(R, "D-SORTED", "not-mutated", not muts, F.loc(f), "the sorted variable list is mutated afterwards: %s" % muts)
    defs = [sexp(d) for d in lf.defs.get(vid, [])]
    S(R, "D-SORTED", "from-used-variables", any("used_variables()" in d for d in defs), F.loc(f), "variable list defined by %s, expected the used-variable filter" % defs)
    # MIR: the sort dominates the construction
    body = F.mir.get(LIN)
    if body is not None:
        cfg = mirlib.Cfg(body)
        sb = [bi for bi, t in cfg.calls() if mirlib.callee(t).endswith("::sort") or mirlib.callee(t).endswith("slice::<impl [T]>::sort")]
        cb = [bi for bi, t in cfg.calls() if mirlib.callee(t).endswith("LinearModel::new_from_parts")]
        S(R, "D-SORTED", "sort-dominates-construction", bool(sb) and bool(cb) and all(any(cfg.dominates(s, c_) for s in sb) for c_ in cb), F.loc(f), "the sort must run on every path to the construction of the model (sort blocks %s, construction blocks %s)" % (sb, cb))
    # domain filtered by membership in the same list; indexes enumerate the same list
    d = strip(c["args"][5])
    ddefs = [dd for dd in lf.defs.get(d.get("id"), [])] if d.get("k") == "Path" else []
    okd = any(any(x.get("k") == "MCall" and x["name"] == "contains" and strip(x["recv"]).get("id") == vid for x in walk(dd)) and any(x.get("k") == "MCall" and x["name"] == "filter" for x in walk(dd)) for dd in ddefs)
    S(R, "D-SORTED", "domain-filtered-by-variables", okd, F.loc(f), "the model's domain must be the linearizer domain filtered by membership in the variable list: %s" % [sexp(x)[:120] for x in ddefs])
    idx_ok = False
    for i, dl in lf.defs.items():
        for dd in dl:
            t = sexp(dd)
            if "enumerate()" in t and any(strip(x.get("recv", {})).get("id") == vid for x in walk(dd) if x.get("k") == "MCall" and x["name"] == "iter"):
                # (i, name) -> (name.clone(), i)
                cl = [x for x in walk(dd) if x.get("k") == "Closure"]
                for cc in cl:
                    b = [bb for p in cc["params"] for bb in pat_binds(p)]
                    tup = strip(cc["body"])
                    if len(b) == 2 and tup.get("k") == "Tup" and len(tup["es"]) == 2:
                        idx_ok = free_locals(tup["es"][0]) == {b[1][0]} and free_locals(tup["es"][1]) == {b[0][0]}
    S(R, "D-SORTED", "indexes-enumerate-variables", idx_ok, F.loc(f), "column indexes must be the positions of the sorted variable list (name -> enumerate index)")
    # duplicate free: used_variables draws keys of the domain map
    g = F.fn("transformers::linearizer::Linearizer::used_variables")
    if g is not None:
        R.fn(g["path"])
        t = sexp(g["body"])
        S(R, "D-SORTED", "used_variables:keys-of-domain", "self.domain.iter()" in t and ".filter(" in t and "is_used()" in t and "push" not in t, F.loc(g), "used_variables must list the keys of the domain map (unique) that are marked used: %s" % t[:160])


def d_usage(F, R):
    """every Exp::Variable built by the transformer is preceded by a usage increment of that name"""
    p = "parser::il::il_exp::PreExp::into_exp"
    body = F.mir.get(p)
    f = F.fn(p)
    if body is None or f is None:
        S(R, "D-USAGE", "anchor", False, "", "PreExp::into_exp not found")
        return
    R.fn(p)
    cfg = mirlib.Cfg(body)
    inc = [bi for bi, t in cfg.calls() if mirlib.callee(t).endswith("TransformerContext::increment_domain_variable_usage")]
    sites = []
    for b in body["blocks"]:
        for s in b["stmts"]:
            rv = s["rv"]
            if rv.get("k") == "Aggregate" and rv.get("ak") == "Adt" and rv.get("adt", "").endswith("model::Exp") and rv.get("variant") == "Variable":
                sites.append((b["i"], s.get("l")))
    S(R, "D-USAGE", "sites", len(sites) == 2, F.loc(f), "expected 2 constructions of Exp::Variable in into_exp, found %d" % len(sites))
    for bi, line in sites:
        dom = [i for i in inc if cfg.dominates(i, bi)]
        S(R, "D-USAGE", "into_exp:Exp::Variable@%d" % sites.index((bi, line)), bool(dom), "%s:%s" % (F.loc(f).rsplit(":", 1)[0], line),
             "an Exp::Variable is produced without a dominating increment_domain_variable_usage: the variable is filtered out of the linear model and its coefficient silently dropped")
    # HIR: same name
    lf = LocalFlow(f["body"])
    for n in walk(f["body"]):
        if n.get("k") == "Call" and norm(n.get("callee") or "").endswith("model::Exp::Variable"):
            arg_roots = lf.roots(n["args"][0])
            # the increment call in the same arm names the same source
            arm = None
            for m in walk(f["body"]):
                if m.get("k") == "Match":
                    for a in m["arms"]:
                        if any(x is n for x in walk(a["body"])):
                            arm = a
            incs = [x for x in walk(arm["body"])] if arm else []
            incs = [x for x in incs if x.get("k") == "MCall" and x["name"] == "increment_domain_variable_usage"]
            same = any(lf.roots(x["args"][0]) & arg_roots for x in incs)
            S(R, "D-USAGE", "into_exp:same-name:%s" % sexp(n["args"][0]), same, F.loc(f, n), "the usage increment must be on the very name that becomes the Exp::Variable")
    # auxiliary variables are marked used when declared
    g = F.fn("transformers::linearizer::Linearizer::declare_variable")
    if g is not None:
        R.fn(g["path"])
        names = [x["name"] for x in walk(g["body"]) if x.get("k") == "MCall"]
        ok = "increment_usage" in names and "insert" in names and names.index("increment_usage") < len(names)
        S(R, "D-USAGE", "declare_variable:marks-used", ok, F.loc(g), "auxiliary variables must be marked used when declared (calls: %s)" % names)
    h = None
    for p2, ff in F.fns.items():
        if p2.endswith("builder::model::Model::into_model") or p2 == "builder::model::Model::into_model":
            h = ff
    if h is not None and "body" in h:
        R.fn(h["path"])
        t = sexp(h["body"])
        S(R, "D-USAGE", "builder:into_model-marks-all", "increment_usage" in t or "increment_domain_variable_usage" in t, F.loc(h), "the builder must mark every declared variable used")


def _bounds_field_uses(F, node):
    """(object text, local id, field) for every `.lower`/`.upper` read of a Bounds value inside node"""
    out = []
    for x in walk(node):
        if x.get("k") == "Field" and x["name"] in ("lower", "upper") and base_ty(F.ty(strip(x["a"])) or "") == BOUNDS_TY:
            a = strip(x["a"])
            out.append((sexp(a), a.get("id"), x["name"]))
    return out


def _element_source(f, lid, F=None):
    """if local `lid` is bound by iterating a collection (for pattern / closure param over
    `coll.iter()`), return the name of that collection local"""
    for n in walk(f["body"]):
        if n.get("k") == "For" and any(i == lid for i, _ in pat_binds(n["pat"])):
            # which zipped iterator yields a Bounds? choose the iterated locals of Bounds type
            names = []
            for x in walk(n["iter"]):
                if x.get("k") == "Path" and x.get("res") == "local":
                    if _F[0] is None or BOUNDS_TY in (_F[0].ty(x) or ""):
                        names.append(x["name"])
            return names
        if n.get("k") == "MCall" and n["name"] in ("all", "any", "map", "for_each", "filter") and n["args"]:
            c = strip(n["args"][0])
            if c.get("k") == "Closure" and any(i == lid for p in c["params"] for i, _ in pat_binds(p)):
                return [x["name"] for x in walk(n["recv"]) if x.get("k") == "Path" and x.get("res") == "local" and (_F[0] is None or BOUNDS_TY in (_F[0].ty(x) or ""))]
    return None


_F = [None]


def d_finite(F, R):
    _F[0] = F
    n_sites = 0
    for f in F.fn_list:
        if "body" not in f or not f.get("file", "").endswith("transformers/linearizer.rs"):
            continue
        sites = []
        for n in walk(f["body"]):
            if n.get("k") == "Call" and norm(n.get("callee") or "").endswith("model::Exp::Number"):
                uses = _bounds_field_uses(F, n["args"][0])
                if uses:
                    sites.append((n, uses))
        if not sites:
            continue
        R.fn(f["path"])
        # guards: `return Err(MissingFiniteBounds ..)` under an If; collect the is_finite tests of its condition
        guards = []
        lf = LocalFlow(f["body"])
        for i in walk(f["body"]):
            if i.get("k") == "If" and any(x.get("k") == "Ret" and "MissingFiniteBounds" in sexp(x) for x in walk(i["then"])):
                conds = [i["cond"]]
                # follow boolean locals to their definitions (has_finite_bounds)
                for lid in free_locals(i["cond"]):
                    conds.extend(lf.defs.get(lid, []))
                guards.append((i, conds))
        for n, uses in sites:
            n_sites += 1
            arm_kind = _enclosing_kind_arm(f, n)
            used = set()
            for (txt, lid, fld) in uses:
                src = _element_source(f, lid)
                used.add((("elem:" + "|".join(sorted(src))) if src else txt, fld))
            tested = set()
            gating = set()
            for g, conds in guards:
                if g.get("l", 0) > n.get("l", 0):
                    continue
                for cnd in conds:
                    scope = cnd
                    # restrict to the matching kind arm when the definition is a match over the kind
                    if cnd.get("k") == "Match" or any(x.get("k") == "Match" for x in walk(cnd)):
                        for m in [x for x in walk(cnd) if x.get("k") == "Match"]:
                            for arm in m["arms"]:
                                ak = sexp(arm["pat"]).rsplit("::", 1)[-1]
                                if arm_kind is None or ak == arm_kind:
                                    tested |= _finite_tests(F, f, arm["body"])
                    else:
                        tested |= _finite_tests(F, f, scope)
                    gating |= {x["name"] for x in walk(cnd) if x.get("k") == "Path" and x.get("res") == "local" and (F.ty(x) == "bool")}
            missing = used - tested
            # the site is governed by one of the guard's boolean gates
            govern = set()
            for i in walk(f["body"]):
                if i.get("k") == "If":
                    names = {x["name"] for x in walk(i["cond"]) if x.get("k") == "Path" and x.get("res") == "local"}
                    if any(x is n for x in walk(i["then"])) or (i.get("l", 0) < n.get("l", 0) and any(x.get("k") == "Ret" for x in walk(i["then"]))):
                        govern |= names
            key = "%s:%s" % (f["path"], re.sub(r"\s+", "", sexp(n["args"][0])))
            R.ob("D-FINITE", key, not missing and bool(gating & govern or not gating), F.loc(f, n),
                 "big-M constant `%s` uses bound end-points %s; the MissingFiniteBounds guard of this lowering tests %s finite%s" % (sexp(n["args"][0]), sorted(used), sorted(tested), "" if not missing else " -- NOT tested: %s (an infinite constant would be emitted)" % sorted(missing)))
    R.ob("D-FINITE", "sites", n_sites == 4, "packages/rooc/src/transformers/linearizer.rs", "expected 4 big-M constants built from bounds (2 abs, max, min), found %d" % n_sites, undecided=True)


def _finite_tests(F, f, node):
    out = set()
    for x in walk(node):
        if x.get("k") == "MCall" and x["name"] == "is_finite":
            r = strip(x["recv"])
            if r.get("k") == "Field" and r["name"] in ("lower", "upper") and base_ty(F.ty(strip(r["a"])) or "") == BOUNDS_TY:
                a = strip(r["a"])
                src = _element_source(f, a.get("id"))
                out.add((("elem:" + "|".join(sorted(src))) if src else sexp(a), r["name"]))
    return out


def _enclosing_kind_arm(f, n):
    kind = None
    for m in walk(f["body"]):
        if m.get("k") == "Match":
            for arm in m["arms"]:
                p = sexp(arm["pat"])
                if ("ExtremeKind::" in p) and any(x is n for x in walk(arm["body"])):
                    kind = p.rsplit("::", 1)[-1]
    return kind


def finite_sanitise(F, R):
    """between the linearised contexts and LinearConstraint / offset construction there must be a
    finiteness test whose failing edge is an error"""
    fns = ["transformers::linearizer::Linearizer::emit_constraint", LIN,
           "transformers::linearizer::MidLinearConstraint::new_from_linearized_context",
           "transformers::linearizer::MidLinearConstraint::into_linear_constraint",
           "transformers::linearizer::extract_coeffs"]
    tests = []
    for p in fns:
        f = F.fn(p)
        if f is None or "body" not in f:
            continue
        R.fn(p)
        for x in walk(f["body"]):
            if x.get("k") == "MCall" and x["name"] in ("is_finite", "is_nan", "is_infinite"):
                tests.append((p, sexp(x)))
        # helper calls one level down
        for x in walk(f["body"]):
            if x.get("k") in ("Call", "MCall"):
                g = F.fns.get(x.get("resolved") or x.get("callee") or "")
                if g is not None and "body" in g and g.get("file", "").endswith("linearizer.rs") and g["path"] not in fns:
                    for y in walk(g["body"]):
                        if y.get("k") == "MCall" and y["name"] == "is_finite" and ("current_rhs" in sexp(y) or "current_vars" in sexp(y) or "values()" in sexp(y) or "rhs" in sexp(y)):
                            tests.append((g["path"], sexp(y)))
    rows = [t for t in tests if t[0].endswith("emit_constraint") or "MidLinearConstraint" in t[0] or "finite" in t[0].lower()]
    S(R, "FINITE-SANITISE", "rows", bool(rows), "packages/rooc/src/transformers/linearizer.rs",
         "no finiteness test between Exp::Number / LinearizationContext and the LinearConstraint rows: `Infinity * y <= 3` compiles to a row with coefficient inf, `x <= Infinity` to a right-hand side inf (tests found: %s)" % rows)
    obj = [t for t in tests if t[0] == LIN or "finite" in t[0].lower()]
    S(R, "FINITE-SANITISE", "objective", bool(obj), "packages/rooc/src/transformers/linearizer.rs",
         "no finiteness test on the linearised objective: `min x + Infinity - Infinity` compiles to offset NaN (tests found: %s)" % obj)


def n_names(F, R):
    f = F.fn(LIN)
    if f is None:
        return
    # de-duplication loop: candidate tested against source names and assigned names
    loops = [n for n in walk(f["body"]) if n.get("k") == "Loop"]
    ok = False
    detail = "no de-duplication loop found"
    for lp in loops:
        mac = [x for x in walk(lp["body"]) if x.get("k") == "Macro" and x.get("name") == "format" and "__" in x.get("snippet", "")]
        if not mac:
            continue
        conds = [x for x in walk(lp["body"]) if x.get("k") == "If"]
        tested = set()
        for c in conds:
            for x in walk(c["cond"]):
                if x.get("k") == "MCall" and x["name"] == "contains":
                    tested.add(sexp(strip(x["recv"])))
        incr = any(x.get("k") == "AssignOp" and x["op"] == "+=" for x in walk(lp["body"]))
        ok = {"source_names", "assigned_names"} <= tested and incr
        detail = "candidate `%s` tested against %s; counter incremented: %s" % (mac[0]["snippet"], sorted(tested), incr)
    S(R, "N-NAMES", "row-dedup", ok, F.loc(f), "a de-duplicated row name must be tested against both the user-written names and the names already assigned: " + detail)
    # first use keeps its name: the `assigned_names.insert(name)` success path continues
    t = sexp(f["body"])
    S(R, "N-NAMES", "first-use-kept", "assigned_names.insert(constraint.name.clone())" in t and "continue" in t, F.loc(f), "the first row carrying a user-written name must keep it")
    # auxiliary declaration rejects existing names
    g = F.fn("transformers::linearizer::Linearizer::declare_variable")
    if g is not None:
        first = None
        for x in walk(g["body"]):
            if x.get("k") == "If" and first is None:
                first = x
        ok = first is not None and "contains_key" in sexp(first["cond"]) and "VarAlreadyDeclared" in sexp(first["then"])
        S(R, "N-NAMES", "aux-declare-checks-existing", ok, F.loc(g), "declare_variable must reject a name that is already in the domain before inserting it")
    # every auxiliary name template starts with `$` and its counter is bumped next to it
    n = 0
    for h in F.fn_list:
        if "body" not in h or not h.get("file", "").endswith("transformers/linearizer.rs"):
            continue
        for x in walk(h["body"]):
            if x.get("k") == "Let" and x.get("init") is not None and strip(x["init"]).get("k") == "Macro" and strip(x["init"]).get("name") == "format":
                snip = strip(x["init"])["snippet"]
                m = re.search(r'"((?:[^"\\]|\\.)*)"', snip)
                if not m or "{" not in m.group(1) or "__" in m.group(1):
                    continue
                used_as_decl = any(y.get("k") == "MCall" and y["name"] == "declare_variable" for y in walk(h["body"]))
                if not used_as_decl:
                    continue
                n += 1
                S(R, "N-NAMES", "aux-template:%s:%s" % (h["path"].rsplit("::", 1)[-1], m.group(1)), m.group(1).startswith("$"), F.loc(h, x), "auxiliary name template %r must start with `$` (a prefix reserved for compiler names)" % m.group(1))
    R.count("N-NAMES.templates", n)
    # counters: every `let id = ctx.X_count` is followed by `ctx.X_count += 1`
    cn = 0
    for h in F.fn_list:
        if "body" not in h or not h.get("file", "").endswith("transformers/linearizer.rs"):
            continue
        reads = [x for x in walk(h["body"]) if x.get("k") == "Let" and x.get("init") is not None and strip(x["init"]).get("k") == "Field" and strip(x["init"])["name"].endswith("_count")]
        for r in reads:
            fld = strip(r["init"])["name"]
            bumped = any(x.get("k") == "AssignOp" and x["op"] == "+=" and strip(x["lhs"]).get("k") == "Field" and strip(x["lhs"])["name"] == fld and sexp(x["rhs"]) == "1" for x in walk(h["body"]))
            cn += 1
            S(R, "N-NAMES", "counter:%s:%s" % (h["path"].rsplit("::", 1)[-1], fld), bumped, F.loc(h, r), "counter %s is read for a fresh name but never incremented in %s: two auxiliaries would share a name" % (fld, h["path"]))
    R.count("N-NAMES.counters", cn)


def w_coeff(F, R):
    """current_vars is written only through add_var (which merges) and the scaling loops"""
    writers = []
    for f in F.fn_list:
        if "body" not in f or not f.get("file", "").endswith("transformers/linearizer.rs"):
            continue
        for x in walk(f["body"]):
            if x.get("k") == "MCall" and x["name"] in ("insert", "entry", "extend", "append", "shift_insert", "push") and "current_vars" in sexp(strip(x["recv"])):
                writers.append(f["path"])
            if x.get("k") == "Struct" and norm(x.get("path") or "").endswith("LinearizationContext"):
                for fl in x["fields"]:
                    if fl["name"] == "current_vars" and "IndexMap::new()" not in sexp(fl["e"]) and "new()" not in sexp(fl["e"]):
                        writers.append(f["path"] + " (struct literal)")
    S(R, "W-COEFF", "writers-of-current_vars", set(writers) == {"transformers::linearizer::LinearizationContext::add_var"}, "packages/rooc/src/transformers/linearizer.rs",
         "only add_var may add entries to a linearised expression (it merges coefficients of an existing name): writers %s" % sorted(set(writers)))
    g = F.fn("transformers::linearizer::LinearizationContext::add_var")
    if g is not None:
        R.fn(g["path"])
        t = sexp(g["body"])
        S(R, "W-COEFF", "add_var-merges", "contains_key" in t and "+=" in t or "entry(" in t, F.loc(g), "add_var must merge into an existing coefficient: %s" % t[:160])
