"""C06 Data-driven constructs expand exactly -- structure of the expansion machinery.

Decides: T-BLOCKS (block / scoped-block kinds -> expression constructors, identity elements of
empty aggregations, fold shapes), T-RANGE (".."/"..=" -> exclusive/inclusive, both integer
branches), D-SCOPE (scope frames are opened and closed in pairs on the Ok path; loop variables
are declared after the frame is opened), W-ORDER (only order-preserving adapters between the
iterable and the loop / fold), S-NAMES (run-time, static and printed spelling of indexed names
agree; separator `_` equals the grammar's).
Not decided: equality with the hand-unrolled model (behavioural).
"""
import re
from facts import norm, base_ty, walk, strip, sexp
from flow import LocalFlow, pat_binds, free_locals
from interp import Interp, Var, Rope, Sym, ListV, is_unknown
import table
import c04
import grammar as G_

BFK = "parser::il::block_functions::BlockFunctionKind"
BSFK = "parser::il::block_functions::BlockScopedFunctionKind"
INTO_EXP = "parser::il::il_exp::PreExp::into_exp"
ORDER_BREAKERS = {"sort", "sort_by", "sort_by_key", "sort_unstable", "dedup", "skip", "step_by", "take", "filter", "filter_map", "skip_while", "take_while", "reverse", "retain", "swap_remove", "chain", "cycle", "unique"}
PRIM = "primitives::primitive::Primitive"


def fold_shape(arm_body):
    """describe `let mut acc = v.pop().unwrap_or(Exp::Number(k)); for x in v.into_iter().rev() { acc = BinOp(op, x, acc) }`"""
    d = {}
    for s in walk(arm_body):
        if s.get("k") == "Let" and s.get("init") is not None:
            t = sexp(s["init"])
            m = re.search(r"\.pop\(\)\.unwrap_or\(.*Exp::Number\(([-0-9.]+)\)\)", t)
            if m:
                d["identity"] = m.group(1)
                d["acc"] = pat_binds(s["pat"])[0][0]
        if s.get("k") == "For":
            it = sexp(s["iter"])
            d["iter"] = "rev" if it.endswith(".into_iter().rev()") else ("fwd" if it.endswith(".into_iter()") or it.endswith(".iter()") else it)
            lv = {i for i, _ in pat_binds(s["pat"])}
            for a in walk(s["body"]):
                if a.get("k") == "Assign":
                    rhs = strip(a["rhs"])
                    if rhs.get("k") == "Call" and norm(rhs.get("callee") or "").endswith("model::Exp::BinOp"):
                        d["op"] = sexp(rhs["args"][0]).rsplit("::", 1)[-1]
                        d["new_left"] = bool(free_locals(rhs["args"][1]) & lv) and not (free_locals(rhs["args"][2]) & lv)
                        d["acc_right"] = d.get("acc") in free_locals(rhs["args"][2])
    return d


def t_blocks(F, R):
    f = F.fn(INTO_EXP)
    if f is None:
        R.ob("T-BLOCKS", "anchor", False, "", "into_exp not found")
        return
    R.fn(INTO_EXP)
    want_ctor = {"Min": "Exp::Min", "Max": "Exp::Max", "All": "Exp::And", "Any": "Exp::Or", "Xor": "fold_xor", "Abs": "Exp::Abs"}
    tables = {}
    for enum in (BFK, BSFK):
        ms = [m for m in walk(f["body"]) if m.get("k") == "Match" and table.scrut_type(F, m) == enum]
        if not R.ob("T-BLOCKS", "table:" + enum.rsplit("::", 1)[-1], len(ms) == 1, F.loc(f), "expected one match over %s in into_exp" % enum):
            continue
        am = c04.arm_map(F, ms[0], enum)
        tab = {}
        for v in F.variants(enum):
            arm = am.get(v)
            if arm is None:
                R.ob("T-BLOCKS", "%s::%s" % (enum.rsplit("::", 1)[-1], v), False, F.loc(f, ms[0]), "no arm")
                continue
            body = arm[0]["body"]
            where = F.loc(f, body)
            key = "%s::%s" % (enum.rsplit("::", 1)[-1], v)
            if v in want_ctor:
                h = table.head(body)
                got = None
                if h[0] == "variant" and h[1].endswith("Result::Ok") and h[2]:
                    hh = table.head(h[2][0])
                    got = hh[1] if hh[0] in ("variant", "call") else None
                if v == "Abs":
                    # abs pops its single operand; the final value is Ok(Exp::Abs(..))
                    got = next((norm(x.get("callee") or "") for x in walk(body) if x.get("k") == "Call" and norm(x.get("callee") or "").endswith("model::Exp::Abs")), None)
                tab[v] = got
                R.ob("T-BLOCKS", key, got is not None and got.endswith(want_ctor[v]), where, "%s block builds %s, expected %s" % (v, got, want_ctor[v]))
            else:
                d = fold_shape(body)
                tab[v] = d
                want = {"Sum": ("Add", "0.0"), "Prod": ("Mul", "1.0"), "Avg": ("Add", "0.0")}[v]
                ok = d.get("op") == want[0] and d.get("identity") == want[1] and d.get("iter") == "rev" and d.get("new_left") and d.get("acc_right")
                if v == "Avg":
                    divs = [x for x in walk(body) if x.get("k") == "Call" and norm(x.get("callee") or "").endswith("model::Exp::BinOp") and sexp(x["args"][0]).endswith("BinOp::Div")]
                    lens = [s for s in walk(body) if s.get("k") == "Let" and s.get("init") is not None and sexp(s["init"]).endswith(".len()")]
                    pops = [s for s in walk(body) if s.get("k") == "Let" and s.get("init") is not None and ".pop()" in sexp(s["init"])]
                    len_before_pop = bool(lens) and bool(pops) and lens[0].get("l", 0) <= pops[0].get("l", 0)
                    ok = ok and len(divs) == 1 and "sum" in sexp(divs[0]["args"][1]) and "len" in sexp(divs[0]["args"][2]) and len_before_pop
                    d["div"] = sexp(divs[0])[:100] if divs else None
                    d["len_before_pop"] = len_before_pop
                R.ob("T-BLOCKS", key, bool(ok), where, "%s folds its operands as %s; expected a right fold with %s, identity %s, newest operand on the left of the accumulator, iterating the remaining operands in reverse after popping the last%s" % (v, d, want[0], want[1], "; avg divides the sum by the operand count taken before the pop" if v == "Avg" else ""))
        tables[enum.rsplit("::", 1)[-1]] = {k: (v if isinstance(v, (str, type(None))) else {a: b for a, b in v.items() if a != "acc"}) for k, v in tab.items()}
    R.table("block_tables", tables)
    # shared kinds agree between the two enums
    a, b = tables.get("BlockFunctionKind", {}), tables.get("BlockScopedFunctionKind", {})
    for v in sorted(set(a) & set(b)):
        R.ob("T-BLOCKS", "siblings:" + v, a[v] == b[v], F.loc(f), "block `%s{..}` and scoped block `%s(..){..}` must build the same form: %s vs %s" % (v.lower(), v.lower(), a[v], b[v]))
    # fold_xor: left fold with Xor, identity 0
    g = F.fn("parser::il::il_exp::fold_xor")
    if g is not None:
        R.fn(g["path"])
        t = sexp(g["body"])
        R.ob("T-BLOCKS", "fold_xor", "Exp::Number(0.0)" in t and "iter.fold(first" in t and "Exp::Xor(acc.to_box(), exp.to_box())" in t, F.loc(g), "xor aggregates fold left with Xor, the empty aggregate is 0: %s" % t[:200])
    else:
        R.ob("T-BLOCKS", "fold_xor", False, "", "fold_xor not found")


def t_range(F, R):
    # parser side
    n = 0
    for f in F.fn_list:
        if "body" not in f:
            continue
        for m in walk(f["body"]):
            if m.get("k") == "Match":
                lits = {}
                for arm in m["arms"]:
                    for alt in table.pat_alternatives(arm["pat"]):
                        h = table.pat_head(alt)
                        if h[0] == "lit" and h[1] in ("..", "..="):
                            lits[h[1]] = sexp(strip(arm["body"]))
                if lits:
                    n += 1
                    R.fn(f["path"])
                    R.ob("T-RANGE", "parser", lits == {"..": "false", "..=": "true"}, F.loc(f, m), "range operators map to to_inclusive as %s, expected `..`->false, `..=`->true" % lits)
    R.ob("T-RANGE", "parser-site", n == 1, "", "expected one range-operator table, found %d" % n)
    # runtime side
    p = "<runtime_builtin::functions::number_functions::NumericRange as runtime_builtin::functions::function_traits::RoocFunction>::call"
    f = F.fn(p)
    if f is None:
        R.ob("T-RANGE", "runtime:anchor", False, "", "NumericRange::call not found")
        return
    R.fn(p)
    ifs = [i for i in walk(f["body"]) if i.get("k") == "If" and sexp(strip(i["cond"])) == "to_inclusive"]
    R.ob("T-RANGE", "runtime:sites", len(ifs) == 2, F.loc(f), "expected the inclusive/exclusive choice in both the non-negative and the signed branch, found %d" % len(ifs))
    for k, i in enumerate(ifs):
        def kind(node):
            for x in walk(node):
                if x.get("k") == "Struct" and "RangeInclusive" in (x.get("path") or ""):
                    return "inclusive"
                if x.get("k") == "Call" and "RangeInclusive::new" in norm(x.get("callee") or ""):
                    return "inclusive"
                if x.get("k") == "Struct" and (x.get("path") or "").endswith("Range"):
                    return "exclusive"
            return None
        t, e = kind(i["then"]), kind(i.get("else") or {})
        R.ob("T-RANGE", "runtime:branch%d" % k, (t, e) == ("inclusive", "exclusive"), F.loc(f, i), "to_inclusive -> %s range, else %s range (expected inclusive / exclusive)" % (t, e))
        for side in ("then", "else"):
            b = sexp(i[side])
            R.ob("T-RANGE", "runtime:branch%d:%s:bounds" % (k, side), re.search(r"from.*to", b) is not None, F.loc(f, i), "range must run from `from` to `to`: %s" % b[:80])
    # every iterable the function returns is collected from such a range: no shortcut result
    lf = LocalFlow(f["body"])
    results = [x for x in walk(f["body"]) if x.get("k") == "Call" and norm(x.get("callee") or "").endswith("Primitive::Iterable")]
    for k, r in enumerate(results):
        texts = [sexp(r)]
        for lid in free_locals(r):
            for d in lf.defs.get(lid, []):
                texts.append(sexp(d))
        from_range = any(("ops::Range{" in t or "RangeInclusive::new" in t) and "collect()" in t for t in texts)
        R.ob("T-RANGE", "runtime:result%d-from-range" % k, from_range, F.loc(f, r), "an iterable returned by range() is not collected from the (from, to) range: `%s` (a shortcut such as `if from >= to { empty }` loses the single element of `a..=a`)" % sexp(r)[:100])
    R.ob("T-RANGE", "runtime:results", len(results) == 2, F.loc(f), "expected 2 result constructions (non-negative and signed), found %d" % len(results))


def top_level(block):
    b = strip(block)
    out = list(b.get("stmts", []))
    if b.get("e") is not None:
        out.append({"k": "Expr", "e": b["e"]})
    return out


def d_scope(F, R):
    n_fn = 0
    for f in F.fn_list:
        if "body" not in f:
            continue
        opens = [x for x in walk(f["body"]) if x.get("k") == "MCall" and x["name"] == "add_scope"]
        if not opens:
            continue
        n_fn += 1
        R.fn(f["path"])

        def key_of(call):
            # the loop (over which collection) the call sits in at function top level, else 'single'
            for s in top_level(f["body"]):
                for lp in ([strip(s["e"])] if s.get("k") in ("Expr", "Semi") and strip(s["e"]).get("k") == "For" else []):
                    if any(x is call for x in walk(lp["body"])):
                        return "for:" + sexp(lp["iter"]).replace("&", "")
            # nested For anywhere
            for lp in walk(f["body"]):
                if lp.get("k") == "For" and any(x is call for x in walk(lp["body"])):
                    return "for:" + sexp(lp["iter"]).replace("&", "")
            return "single"

        def on_error_path(call):
            # the statement list holding the call (climbing out of loop bodies) returns right after it
            blocks = [bk for bk in walk(f["body"]) if bk.get("k") == "Block" and any(x is call for x in walk(bk))]
            loop_bodies = {id(strip(lp["body"])) for lp in walk(f["body"]) if lp.get("k") == "For"}
            for bk in reversed(blocks):  # innermost first
                items = top_level(bk)
                idx = next((i for i, st in enumerate(items) if any(x is call for x in walk(st))), None)
                if idx is None:
                    continue
                for later in items[idx + 1:]:
                    if strip(later.get("e") or {}).get("k") == "Ret":
                        return True
                if id(bk) not in loop_bodies:
                    return False
            return False

        closes = [x for x in walk(f["body"]) if x.get("k") == "MCall" and x["name"] == "pop_scope"]
        ok_closes = [c for c in closes if not on_error_path(c)]
        ko = sorted(key_of(c) for c in opens)
        kc = sorted(key_of(c) for c in ok_closes)
        # frames closed in a helper (or opened in one) are not paired by this clause: only a function that opens and closes
        # frames itself and closes a different number is evidence; EXPAND-EQUIV and TYPE-SOUND decide the scoping by evaluation
        R.ob("D-SCOPE", f["path"], ko == kc, F.loc(f), "scope frames opened %s vs closed on the Ok path %s (every add_scope needs its pop_scope, loops over the same iteration list pair up)" % (ko, kc), undecided=(not ko or not kc))
        # loop variables are declared after the frame is opened
        for o in opens:
            decl = [x for x in walk(f["body"]) if x.get("k") == "MCall" and x["name"] in ("declare_variable", "add_token_type") and x.get("l", 0) >= o.get("l", 0)]
            early = [x for x in walk(f["body"]) if x.get("k") == "MCall" and x["name"] in ("declare_variable", "add_token_type") and x.get("l", 0) < o.get("l", 0) and key_of(x) == key_of(o)]
            if decl or early:
                R.ob("D-SCOPE", f["path"] + ":declare-after-open@" + key_of(o), not early, F.loc(f, o), "iteration variables must be declared in the new frame (after add_scope): %d declared before it" % len(early))
    R.ob("D-SCOPE", "functions", n_fn >= 6, "", "expected at least 6 functions opening scopes, found %d" % n_fn, undecided=True)


def w_order(F, R):
    f = F.fn("parser::recursive_set_resolver::recursive_set_resolver")
    if f is None:
        R.ob("W-ORDER", "anchor", False, "", "recursive_set_resolver not found")
    else:
        R.fn(f["path"])
        bad = [x["name"] for x in walk(f["body"]) if x.get("k") == "MCall" and x["name"] in ORDER_BREAKERS | {"rev"}]
        R.ob("W-ORDER", "recursive_set_resolver", not bad, F.loc(f), "the iteration over to_primitives() must keep the iterable's order: adapters %s" % bad)
        loops = [x for x in walk(f["body"]) if x.get("k") == "For"]
        it = [sexp(l["iter"]) for l in loops]
        R.ob("W-ORDER", "recursive_set_resolver:source", any("values.into_iter()" in t for t in it) and any("to_primitives()" in sexp(s.get("init")) for s in walk(f["body"]) if s.get("k") == "Let" and s.get("init") is not None), F.loc(f), "the loop must run over iterator.to_primitives(): loops over %s" % it)
        # leaf results are pushed in visiting order; recursion goes to level + 1
        t = sexp(f["body"])
        R.ob("W-ORDER", "recursive_set_resolver:leaf-push", "results.push(value)" in t and "(current_level + 1)" in t, F.loc(f), "leaf results are appended in visiting order and nesting descends one level at a time")
    g = F.fn(INTO_EXP)
    if g is not None:
        bad = [(x["name"], x.get("l")) for x in walk(g["body"]) if x.get("k") == "MCall" and x["name"] in ORDER_BREAKERS]
        R.ob("W-ORDER", "into_exp", not bad, F.loc(g), "aggregation operands must keep source order: adapters %s" % bad)
    h = F.fn("primitives::iterable::IterableKind::to_primitives")
    if h is not None:
        R.fn(h["path"])
        bad = [x["name"] for x in walk(h["body"]) if x.get("k") == "MCall" and x["name"] in ORDER_BREAKERS | {"rev"}]
        R.ob("W-ORDER", "to_primitives", not bad, F.loc(h), "to_primitives must keep element order: adapters %s" % bad)
    # domain declarations: compute_domain keeps order of variables and iteration
    for p in ("parser::domain_declaration::VariablesDomainDeclaration::compute_domain", "parser::domain_declaration::VariablesDomainDeclaration::compute_domain_values"):
        k = F.fn(p)
        if k is not None:
            R.fn(p)
            bad = [x["name"] for x in walk(k["body"]) if x.get("k") == "MCall" and x["name"] in ORDER_BREAKERS | {"rev"}]
            R.ob("W-ORDER", p.rsplit("::", 1)[-1], not bad, F.loc(k), "declaration expansion must keep order: adapters %s" % bad)


def s_names(F, R, Gm):
    """runtime / static / printed spelling of an index per Primitive variant"""
    I = Interp(F)
    rt = F.fn("parser::model_transformer::transformer_context::TransformerContext::flatten_variable_name")
    st = F.fn("parser::il::il_exp::statically_flatten_compound_variable")
    if rt is None or st is None:
        R.ob("S-NAMES", "anchor", False, "", "name flattening functions not found")
        return
    R.fn(rt["path"])
    R.fn(st["path"])

    def spell_table(f, enum=PRIM):
        tab = {}
        for m in walk(f["body"]):
            if m.get("k") == "Match" and table.scrut_type(F, m) == enum:
                am = c04.arm_map(F, m, enum)
                for v, (arm, alt) in am.items():
                    b = sexp(strip(arm["body"]))
                    b = re.sub(r"Result::Ok\((.*)\)$", r"\1", b)
                    b = re.sub(r"Option::Some\((.*)\)$", r"\1", b)
                    if "Err(" in b or b.endswith("None"):
                        tab[v] = None
                    else:
                        tab[v] = re.sub(r"\bvalue\b|\bv\b", "_", b)
                return tab
        return tab
    a, b = spell_table(rt), spell_table(st)
    R.table("index_spelling", {"runtime": a, "static": b})
    for v in F.variants(PRIM):
        ra, sb = a.get(v), b.get(v)
        ok = (sb is None) or (ra == sb)
        R.ob("S-NAMES", "spelling:" + v, ok, F.loc(st), "index of kind %s is spelled `%s` when flattened at run time and `%s` by the static flattener (they must agree whenever the static one answers)" % (v, ra, sb))
    # separators
    sep_rt = [x["snippet"] for x in walk(F.fn("parser::model_transformer::transformer_context::TransformerContext::flatten_compound_variable")["body"]) if x.get("k") == "Macro"] if F.fn("parser::model_transformer::transformer_context::TransformerContext::flatten_compound_variable") else []
    sep_st = [x["snippet"] for x in walk(st["body"]) if x.get("k") == "Macro"]
    joins = [sexp(x["args"][0]) for x in walk(rt["body"]) if x.get("k") == "MCall" and x["name"] == "join"] + [sexp(x["args"][0]) for x in walk(st["body"]) if x.get("k") == "MCall" and x["name"] == "join"]
    ok = all('"{}_{}"' in s for s in sep_rt + sep_st) and bool(sep_rt) and bool(sep_st) and all(j in ("'_'", "\"_\"", "'_'") or j.strip("'\"") == "_" for j in joins)
    R.ob("S-NAMES", "separator", ok, F.loc(rt), "name and indexes are joined with `_` everywhere: templates %s, joins %s" % (sep_rt + sep_st, joins))
    cv = G_.untag(Gm.expr("compound_variable"))
    lits = {n["v"] for n in walk(cv) if n.get("k") == "Str"}
    R.ob("S-NAMES", "grammar-separator", lits == {"_"}, "grammar.pest:compound_variable", "the grammar separates name fragments with %s" % sorted(lits))


def check(F, R, Gm):
    t_blocks(F, R)
    t_range(F, R)
    d_scope(F, R)
    w_order(F, R)
    s_names(F, R, Gm)
    t_sets(F, R)
    import c19
    c19.s_arity(F, R, side="runtime")


# ---- T-SETS -------------------------------------------------------------------------------------------
# union / intersection / difference touch their elements only through the equality helper, so their behaviour on all
# lists up to a length is determined by the equality pattern of the elements: the three `call` bodies are evaluated by the
# table interpreter on every pair of lists over a 3-letter alphabet up to length 3 (1600 pairs) with the argument
# evaluation replaced by the lists, and compared with set semantics (the LaTeX rendering of the same builtins is
# \cup, \cap, \setminus): membership for all three, no repetition and first-occurrence order for union, a sub-sequence
# of the first operand for the other two.

def t_sets(F, R):
    import itertools
    from interp import Interp, Var, ListV, Leaf, is_unknown
    AF = "runtime_builtin::functions::array_functions::"
    fns = {"union": "<%sArrayUnion as runtime_builtin::functions::function_traits::RoocFunction>::call" % AF,
           "intersection": "<%sArrayIntersection as runtime_builtin::functions::function_traits::RoocFunction>::call" % AF,
           "difference": "<%sArrayDifference as runtime_builtin::functions::function_traits::RoocFunction>::call" % AF}
    I = Interp(F, max_depth=60)
    I.models["parser::il::il_exp::PreExp::as_iterator"] = lambda I_, a: Var("std::result::Result::Ok", [a[0]])
    I.models["primitives::iterable::IterableKind::to_primitives"] = lambda I_, a: ListV(list(a[0].items))
    I.models["primitives::iterable::IterableKind::flatten"] = lambda I_, a: a[0]
    I.models[AF + "primitive_value_eq"] = lambda I_, a: a[0] == a[1]
    lists = [()]
    for n in (1, 2, 3):
        lists += list(itertools.product("abc", repeat=n))
    ref_member = {"union": lambda x, A, B: x in A or x in B, "intersection": lambda x, A, B: x in A and x in B, "difference": lambda x, A, B: x in A and x not in B}
    for name, path in fns.items():
        f = F.fn(path)
        if not R.ob("T-SETS", name + ":anchor", f is not None and "body" in f, "packages/rooc/src/runtime_builtin/functions/array_functions.rs", "builtin `%s` found" % name):
            continue
        R.fn(path)
        bad = None
        n = 0
        for A in lists:
            for B in lists:
                n += 1
                args = ListV([ListV(list(A)), ListV(list(B))])
                r = I.call_fn(path, [Var(AF + "Array" + name.capitalize()), args, Var("CTX"), Var("FCTX")])
                out = None
                if isinstance(r, Var) and r.path.endswith("Result::Ok") and r.args:
                    v = r.args[0]
                    while isinstance(v, Var) and v.args:
                        v = v.args[0]
                    if isinstance(v, ListV):
                        out = list(v.items)
                if out is None:
                    bad = "not evaluable on (%s, %s): %r" % (list(A), list(B), r)
                    break
                for x in "abc":
                    if (x in out) != ref_member[name](x, A, B):
                        bad = "%s(%s, %s) = %s: membership of %s is wrong" % (name, list(A), list(B), out, x)
                if name == "union":
                    seen = []
                    for x in list(A) + list(B):
                        if x not in seen:
                            seen.append(x)
                    if out != seen:
                        bad = "union(%s, %s) = %s, expected each element once in order of first occurrence %s" % (list(A), list(B), out, seen)
                else:
                    it = iter(A)
                    if not all(any(y == x for y in it) for x in out):
                        bad = "%s(%s, %s) = %s is not a sub-sequence of the first operand" % (name, list(A), list(B), out)
                if bad:
                    break
            if bad:
                break
        R.ob("T-SETS", name + ":set-semantics", bad is None, F.loc(f), "evaluated on %d list pairs (all equality patterns up to length 3): %s" % (n, bad or "membership, repetition and order as for a set %s" % name))
    g = F.fn(AF + "contains_value")
    if g is not None:
        R.fn(AF + "contains_value")
        t = sexp(g["body"])
        R.ob("T-SETS", "contains_value", ".any(" in t and "primitive_value_eq(p, needle)" in t, F.loc(g), "membership is `any element equal by value`: %s" % t[:120])


def d_scope_use(F, R, rule="D-SCOPE", only=None):
    """in a function that opens one frame per element of an iteration list (for .. in LIST { .. add_scope() .. }) and pops
    them in a loop over the same list, every use of the context together with a part of `self` other than LIST happens
    between the two loops: a check moved after the pops (or before the pushes) sees the iteration variables unbound"""
    n = 0
    for f in F.fn_list:
        if "body" not in f or (only and not only(f)):
            continue
        items = top_level(f["body"])
        open_i = close_i = None
        lst = ctx = None
        for i, st in enumerate(items):
            e = strip(st.get("e") or {}) if st.get("k") in ("Expr", "Semi") else {}
            if e.get("k") != "For":
                continue
            adds = [x for x in walk(e["body"]) if x.get("k") == "MCall" and x["name"] == "add_scope"]
            pops = [x for x in walk(e["body"]) if x.get("k") == "MCall" and x["name"] == "pop_scope"]
            if adds and open_i is None:
                open_i, lst, ctx = i, sexp(e["iter"]).replace("&", ""), sexp(strip(adds[0]["recv"]))
            elif pops and open_i is not None and sexp(e["iter"]).replace("&", "") == lst:
                close_i = i
        if open_i is None or close_i is None:
            continue
        n += 1
        R.fn(f["path"])
        outside = []
        for i, st in enumerate(items):
            if open_i <= i <= close_i:
                continue
            for x in walk(st):
                if x.get("k") in ("MCall", "Call"):
                    ops = ([x["recv"]] if x.get("k") == "MCall" else []) + list(x.get("args", []))
                    uses_ctx = any(strip(o).get("k") == "Path" and strip(o).get("res") == "local" and strip(o).get("name") == ctx for o in ops)
                    if not uses_ctx or (x.get("k") == "MCall" and x["name"] in ("pop_scope", "add_scope")):
                        continue
                    t = sexp(x)
                    if "self." in t and lst.replace("self.", "") not in t.replace(ctx, ""):
                        outside.append(t[:90])
        # values derived from self by pattern bindings (`if let Some(name_exp) = &self.name_exp`) count as parts of self
        for i, st in enumerate(items):
            if open_i <= i <= close_i:
                continue
            binds_self = [x for x in walk(st) if x.get("k") in ("If", "Match", "Let") and "self." in sexp(x.get("cond") or x.get("scrut") or x.get("init") or {}) ]
            if binds_self:
                for x in walk(st):
                    if x.get("k") in ("MCall", "Call"):
                        ops = ([x["recv"]] if x.get("k") == "MCall" else []) + list(x.get("args", []))
                        if any(strip(o).get("k") == "Path" and strip(o).get("name") == ctx for o in ops) and not (x.get("k") == "MCall" and x["name"] in ("pop_scope", "add_scope")):
                            t = sexp(x)[:90]
                            if t not in outside:
                                outside.append(t)
        R.ob(rule, f["path"] + ":context-uses-inside-frames", not outside, F.loc(f), "uses of `%s` with parts of self outside the frames of `%s`: %s" % (ctx, lst, outside or "none"))
    R.count(rule + ".framed-functions", n)
    return n
