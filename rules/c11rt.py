"""ROUND-TRIP (C11): format(parse(T)) decided on bounded families of program texts with the crate's own converters and
printers evaluated from their typed HIR (rules/roundtrip.py) over a model of pest's matcher (rules/peg.py).

families
  A  the program texts the repository itself contains (string literals of tests, docs and examples that mention `s.t.`)
  B  one text per choice alternative / optional part / repetition of the grammar (rules/gramgen.py)
  C  expression forms x expression slots: every form (each exp_leaf alternative, each variation inside the expression
     rules, each block-function spelling, unary/binary operators) placed in every expression slot of the expression rules
     (range bounds, arguments, bodies, indexes ...), and the result placed in the top-level slots (objective, constraint,
     constant, declaration bound, iteration)
obligations per text that the grammar and the converters accept (other texts are not programs and are only counted):
  print      the formatter's output for its AST is evaluable
  reparse    the formatted text is accepted by the grammar and converted without error
  same-ast   the AST of the formatted text equals the original one up to source spans and numeric literal kinds
  idempotent formatting the formatted text gives the same text again
"""
import glob
import hashlib
import os
import re
import facts
from facts import walk, norm
from grammar import choices, untag
import gramgen
import roundtrip
from roundtrip import strip_spans, first_diff

NUMERIC = ("primitives::primitive::Primitive::Number", "primitives::primitive::Primitive::Integer", "primitives::primitive::Primitive::PositiveInteger")
NUM_ARRAYS = ("primitives::iterable::IterableKind::Numbers", "primitives::iterable::IterableKind::Integers", "primitives::iterable::IterableKind::PositiveIntegers", "primitives::iterable::IterableKind::Anys")


def bound_names(*texts):
    """names a program text binds somewhere (constants, iteration variables, destructured parts): an identifier index with
    such a name stands for a value, any other identifier index is a literal name fragment"""
    out = set()
    for t in texts:
        for m in re.finditer(r"\blet\s+([A-Za-z_$][A-Za-z0-9_$]*)", t or ""):
            out.add(m.group(1))
        for m in re.finditer(r"([A-Za-z_$][A-Za-z0-9_$]*)\s+in\b", t or ""):
            out.add(m.group(1))
        for m in re.finditer(r"\(([^()]*)\)\s*in\b", t or ""):
            out |= set(re.findall(r"[A-Za-z_$][A-Za-z0-9_$]*", m.group(1)))
    return out


def normalise(v, bound=None):
    """structural AST without spans; numeric literal kinds are not distinguished (2.0 and 2 compile to the same model);
    with `bound` (the names the program binds) an identifier index that is bound nowhere is the literal fragment it
    compiles to, so `x_{"A"}` and `x_A` are the same name unless something called A is in scope somewhere"""
    v = strip_spans(v)

    CV = "parser::il::il_problem::CompoundVariable"
    SIMPLE = ("parser::il::il_exp::PreExp::Variable", "parser::domain_declaration::Variable::Variable")
    WRAP = ("parser::il::il_exp::PreExp::CompoundVariable", "parser::domain_declaration::Variable::CompoundVariable")

    def name_fragments(cv):
        """a name is a sequence of fragments joined by `_`: literal text, an identifier (its value when bound, else its
        text), or an expression; adjacent literal fragments are one literal (set_A + __2 is the name set_A__2)"""
        fields = dict(cv[2])
        frags = [("lit", fields.get("name", ""))]
        idx = fields.get("indexes", ("list",))
        for i in idx[1:]:
            i = go(i)
            if isinstance(i, tuple) and i and i[0] == "name" and len(i[1]) == 1 and i[1][0][0] == "lit":
                nm_ = i[1][0][1]
                frags.append(("var", nm_) if bound is None or nm_ in bound else ("lit", nm_))          # PreExp::Variable index
            elif isinstance(i, tuple) and i and i[0] == "num":
                frags.append(("lit", _num_text(i[1])))
            elif isinstance(i, tuple) and i and i[0] == "parser::il::il_exp::PreExp::Primitive" and isinstance(i[1][0], tuple) and i[1][0][0] == "primitives::primitive::Primitive::String":
                frags.append(("lit", i[1][0][1][0]))
            elif isinstance(i, tuple) and i and i[0] == "parser::il::il_exp::PreExp::Primitive" and isinstance(i[1][0], tuple) and i[1][0][0] == "num":
                frags.append(("lit", _num_text(i[1][0][1])))
            else:
                frags.append(("exp", i))
        out = []
        for f in frags:
            if out and f[0] == "lit" and out[-1][0] == "lit":
                out[-1] = ("lit", out[-1][1] + "_" + f[1])
            else:
                out.append(f)
        return ("name", tuple(out))

    def go(x):
        if isinstance(x, tuple) and x and isinstance(x[0], str):
            if x[0] in SIMPLE and len(x[1]) == 1 and isinstance(x[1][0], str):
                return ("name", (("lit", x[1][0]),))
            if x[0] in WRAP and len(x[1]) == 1 and isinstance(x[1][0], tuple) and x[1][0] and x[1][0][0] == CV:
                return name_fragments(x[1][0])
            if x[0] in NUMERIC and len(x) == 3 and len(x[1]) == 1 and isinstance(x[1][0], (int, float)):
                return ("num", float(x[1][0]))
            if x[0] in NUM_ARRAYS and len(x) == 3 and len(x[1]) == 1:
                inner = go(x[1][0])
                if isinstance(inner, tuple) and inner and inner[0] == "list":
                    return ("arr",) + tuple(("num", float(y)) if isinstance(y, (int, float)) and not isinstance(y, bool) else y for y in inner[1:])
                return ("arr", inner)
        if isinstance(x, tuple):
            return tuple(go(y) for y in x)
        return x
    return go(v)


def _num_text(v):
    return roundtrip.rust_f64_display(float(v))


def repo_texts():
    """program texts contained in the repository (static data of the tree being checked)"""
    out = {}
    root = os.path.dirname(os.path.dirname(facts.CRATE_DIR))
    files = []
    for pat in ("packages/rooc/**/*.rs", "packages/**/*.md", "**/*.ts", "**/*.svelte", "*.md"):
        files += glob.glob(os.path.join(root, pat), recursive=True)
    for f in sorted(set(files)):
        if "/target/" in f or "node_modules" in f or "/.git/" in f:
            continue
        try:
            s = open(f, errors="replace").read()
        except OSError:
            continue
        cands = []
        for m in re.finditer(r'r#*"(.*?)"#*', s, re.S):
            cands.append(m.group(1))
        for m in re.finditer(r'"((?:[^"\\]|\\.)*)"', s, re.S):
            t = m.group(1)
            if "\\n" in t:
                try:
                    cands.append(bytes(t, "utf8").decode("unicode_escape"))
                except Exception:
                    pass
        for m in re.finditer(r"`([^`]*)`", s, re.S):
            cands.append(m.group(1))
        for t in cands:
            if "s.t." in t.lower() or "subject to" in t.lower():
                out.setdefault(hashlib.sha1(t.encode("utf8", "replace")).hexdigest()[:10], t)
    return out


def spellings(F, enum_suffix):
    """string patterns of the FromStr table of an enum (all accepted spellings)"""
    out = []
    for f in F.fn_list:
        if f["path"].endswith("FromStr>::from_str") and enum_suffix in f["path"] and "body" in f:
            for n in walk(f["body"]):
                if n.get("k") == "PLit" and isinstance(n.get("v"), str):
                    out.append(n["v"])
    return out


class Family:
    def __init__(self, F, Gm):
        self.F, self.G = F, Gm
        self.block = spellings(F, "BlockFunctionKind") or ["max"]
        self.scoped = spellings(F, "BlockScopedFunctionKind") or ["sum"]
        self.types = spellings(F, "PreVariableType") or ["Boolean"]
        self.base_lex = {"as_type": ["Boolean"], "function_name": ["max"], "simple_variable": ["x"], "constraint_list": ["x >= 0"]}

    def variation_texts(self):
        g = gramgen.Gen(self.G, self.base_lex)
        out = []
        for rule, node, mode, label in g.variation_points():
            t = g.derive(node, mode)
            if t is not None:
                out.append(("B:" + label, t))
        return out

    def forms(self, limit=None):
        """expression texts: (label, text)"""
        g = gramgen.Gen(self.G, self.base_lex)
        forms = []
        for alt in choices(self.G.expr("exp_leaf")):
            alt = untag(alt)
            if alt["k"] == "Ident":
                forms.append(("leaf:" + alt["v"], g.min_rule(alt["v"])))
        # every variation point of the rules below tagged_exp, derived from tagged_exp
        below = set()
        todo = ["tagged_exp"]
        while todo:
            r = todo.pop()
            if r in below or r not in self.G.rules:
                continue
            below.add(r)
            for n in g._idents(self.G.expr(r)):
                todo.append(n["v"])
        for rule, node, mode, label in g.variation_points():
            if rule in below and rule not in ("keyword",):
                t = g.derive(node, mode, start="tagged_exp")
                if t:
                    forms.append(("var:" + label, t))
        for k in self.block:
            forms.append(("block:" + k, "%s { x , y }" % k))
        for k in self.scoped:
            forms.append(("scoped:" + k, "%s ( i in 0 .. 2 ) { x_i }" % k))
            forms.append(("scoped2:" + k, "%s ( i in A , ( a , b ) in enumerate ( B ) ) { x_i_a }" % k))
            forms.append(("scoped-quoted:" + k, '%s ( i in 0 .. 2 ) { x_{ "i" } + x_i }' % k))
        forms += [("neg", "- x"), ("not", "not x"), ("bang", "! x"), ("add", "x + y"), ("sub-nest", "x - ( y - z )"), ("div-nest", "x / ( y * 2 )"), ("and", "x and y"), ("implies", "x -> y"),
                  ("neg-num", "- 2"), ("float", "2.50"), ("float-small", "0.00001"), ("float-whole", "2.0"), ("string-esc", '"a\\"b"'), ("array-mixed", '[ 1 , "s" ]'), ("array-float", "[ 1.5 , 2 ]"), ("array-nested", "[ [ 1 , 2 ] , [ 3 ] ]"),
                  ("graph", "Graph { A -> [ B : 2 , C ] , B }"), ("graph-zero-weight", "Graph { A -> [ B : 0 , C : -1.5 , D : 0.0 ] , B -> [ A : 1 ] }"), ("graph-nodes", "Graph { A , B }"), ("graph-one", "Graph { A }"), ("graph-empty", "Graph { }"), ("noname-index", "_{ i }_j"), ("lead-underscore", "_a"), ("lead-underscores", "__a1"), ("dollar", "$a"), ("escaped-lead", "\\_x_i"), ("noname-literal", "_ _a"), ("noname-int", "_1"), ("float-index", "x_{ 0.5 }"), ("compound", "x_i_{ j + 1 }_2"), ("escaped", "\\\\x_i"), ("range-fn", "range ( 0 , 3 , true )"), ("implicit", "2 ( x + 1 ) y"), ("range-fn-flag-name", "range ( 0 , n , closed )"), ("range-fn-flag-not", "range ( 1 , n , not open )"), ("range-fn-flag-false", "range ( 0 , 3 , false )"), ("range-fn-ends", "range ( a - 1 , len ( A ) , true )"), ("quoted-index", 'x_{ "i" }'), ("quoted-index-mixed", 'x_{ "a" }_i'), ("quoted-index-free", 'x_{ "Q" }_{ "q1" }')]
        seen, out = set(), []
        for l, t in forms:
            if t and t not in seen:
                seen.add(t)
                out.append((l, t))
        return out[:limit] if limit else out

    def slot_texts(self, forms, inner_forms, top_only=False):
        """forms in the top-level slots; inner_forms in every slot of the expression rules, wrapped, then in top slots"""
        g = gramgen.Gen(self.G, self.base_lex)
        slots = g.expression_slots()
        top = [(r, n, l) for r, n, l in slots if r in ("objective", "constraint", "const_declaration", "as_value", "iterator", "range_iterator")]
        inner = [(r, n, l) for r, n, l in slots if r not in ("objective", "constraint", "const_declaration", "as_value")]
        out = []
        for fl, ft in forms:
            for r, n, l in top:
                t = g.derive(n, "leaf", ft)
                if t:
                    out.append(("C:%s<-%s" % (l, fl), t))
        if top_only:
            return out
        for fl, ft in inner_forms:
            for r, n, l in inner:
                e = g.derive(n, "leaf", ft, start="tagged_exp")
                if not e:
                    continue
                for r2, n2, l2 in top[:3] + top[3:4]:
                    t = g.derive(n2, "leaf", e)
                    if t:
                        out.append(("C:%s<-[%s<-%s]" % (l2, l, fl), t))
        return out


def check(F, R, Gm, tier="quick"):
    RT = roundtrip.RoundTrip(F, Gm)
    fam = Family(F, Gm)
    forms = fam.forms()
    texts = []
    a = repo_texts()
    texts += [("A:" + h, t) for h, t in sorted(a.items())]
    texts += fam.variation_texts()
    if tier == "thorough":
        texts += fam.slot_texts(forms, forms)
    else:
        texts += fam.slot_texts(forms, [f for f in forms if f[0].startswith(("leaf:", "block:max", "scoped:sum", "neg", "add", "array-mixed", "float-small", "graph", "compound", "string-esc", "escaped-lead", "lead-underscore", "noname", "range-fn", "quoted-index"))])
    R.count("ROUND-TRIP.texts", len(texts))
    R.count("ROUND-TRIP.forms", len(forms))
    seen = set()
    n_prog = n_not = 0
    fails = {}
    for label, t in texts:
        if t in seen:
            continue
        seen.add(t)
        a0 = RT.parse_text(t)
        if isinstance(a0, tuple):
            n_not += 1
            if "pest's Pratt parser panics" in a0[1] or "not evaluable" in a0[1]:
                fails.setdefault(("convert", _group(label)), (label, t, a0[1]))
            continue
        n_prog += 1
        t1, err = RT.print_ast(a0)
        if t1 is None:
            fails.setdefault(("print", _group(label)), (label, t, err))
            continue
        a1 = RT.parse_text(t1)
        if isinstance(a1, tuple):
            fails.setdefault(("reparse", _group(label)), (label, t, "formatted text `%s`: %s" % (t1.replace("\n", "\\n")[:160], a1[1][:200])))
            continue
        bn = bound_names(t, t1)
        d = first_diff(normalise(a0, bn), normalise(a1, bn))
        if d:
            fails.setdefault(("same-ast", _group(label)), (label, t, "formatted text `%s` converts to a different program: %s" % (t1.replace("\n", "\\n")[:160], d[-260:])))
            continue
        t2, err = RT.print_ast(a1)
        if t2 != t1:
            fails.setdefault(("idempotent", _group(label)), (label, t, "second formatting differs: `%s` vs `%s`" % (t1.replace("\n", "\\n")[:120], (t2 or err or "").replace("\n", "\\n")[:120])))
    R.count("ROUND-TRIP.programs", n_prog)
    R.count("ROUND-TRIP.not-programs", n_not)
    R.ob("ROUND-TRIP", "family-size", n_prog >= 300, "packages/rooc/src/parser", "%d distinct texts, %d accepted by grammar and converters (at least 300 expected)" % (len(seen), n_prog))
    for stage in ("convert", "print", "reparse", "same-ast", "idempotent"):
        bad = {g: v for (s, g), v in fails.items() if s == stage}
        if not bad:
            R.ob("ROUND-TRIP", stage, True, "packages/rooc/src/parser", "holds on all %d programs" % n_prog)
        for g, (label, t, why) in sorted(bad.items()):
            R.ob("ROUND-TRIP", "%s:%s" % (stage, g), False, "packages/rooc/src/parser", "program `%s` (%s): %s" % (t.replace("\n", "\\n")[:200], label, why))
    return fails


def _group(label):
    """violations are keyed by the form / variation that exposes them, not by every text containing it"""
    m = re.search(r"<-([^<\]]+)\]?$", label)
    g = m.group(1) if m else label
    m = re.match(r"^(?:B:|var:)([A-Za-z_]+)/", g)
    return m.group(1) if m else g
