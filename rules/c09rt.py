"""CONVERT-EXP (C09): the expression converters against a reference reading.

Fully parenthesised expression texts are written from operator trees (so their grouping is unambiguous whatever the
precedence table says), matched by the model of pest's matcher, converted by the crate's own converters (parse_exp with
its map_primary / map_infix / map_prefix closures, parse_exp_leaf incl. implicit multiplication and parenthesis
unwrapping) evaluated from their typed HIR, and the resulting PreExp must be the tree the text was written from:
every operator node with its own operator and its operands in place, nothing moved across a parenthesis.  A short list
of documented forms (implicit multiplication, a sign in front of a product or of a parenthesised sum) is checked against
its documented reading.  Leaves alternate between identifiers and numeric literals, because a converter may (wrongly)
special-case literals."""
import itertools
import printparse as PP
import roundtrip
from facts import norm
from interp import Var, Rope, is_unknown
from grammar import exact_literals


def spellings(Gm, maps):
    out = {}
    for kind in ("bin", "un"):
        for rule, variant in maps[kind][0][2].items():
            lits = exact_literals(Gm, Gm.expr(rule))
            if lits:
                out[variant.rsplit("::", 1)[-1]] = lits[0][0].lstrip("^")
    return out


def unspan(v):
    while isinstance(v, Var) and norm(v.path).endswith("utils::Spanned") and "value" in v.fields:
        v = v.fields["value"]
    return v


def to_tree(e):
    e = unspan(e)
    k = norm(e.path).rsplit("::", 1)[-1]
    if k == "Variable":
        x = unspan(e.args[0])
        return ("leaf", x.text() if isinstance(x, Rope) else str(x))
    if k == "Primitive":
        p = unspan(e.args[0])
        return ("num", float(p.args[0]))
    if k == "BinaryOperation":
        return ("bin", norm(unspan(e.args[0]).path).rsplit("::", 1)[-1], to_tree(e.args[1]), to_tree(e.args[2]))
    if k == "UnaryOperation":
        return ("un", norm(unspan(e.args[0]).path).rsplit("::", 1)[-1], to_tree(e.args[1]))
    return ("other", k)


def relabel(t, counter, numeric_first):
    """leaves become a, 2, b, 3, ... (identifier / literal alternating, starting as asked)"""
    if t[0] == "leaf":
        i = counter[0]
        counter[0] += 1
        if (i % 2 == 0) == numeric_first:
            return ("num", float(2 + i))
        return ("leaf", "abcdefgh"[i])
    if t[0] == "un":
        return ("un", t[1], relabel(t[2], counter, numeric_first))
    return ("bin", t[1], relabel(t[2], counter, numeric_first), relabel(t[3], counter, numeric_first))


def show_leaf(t):
    if t[0] == "num":
        v = t[1]
        return str(int(v)) if v == int(v) else repr(v)
    return t[1]


def full_paren(t, sp):
    if t[0] in ("leaf", "num"):
        return show_leaf(t)
    if t[0] == "un":
        x = t[2]
        inner = full_paren(x, sp)
        op = sp[t[1]]
        sep = " " if op.isalpha() else ""
        return op + sep + (inner if x[0] in ("leaf", "num") else "(" + inner + ")")
    l, r = t[2], t[3]
    ls = full_paren(l, sp) if l[0] in ("leaf", "num") else "(" + full_paren(l, sp) + ")"
    rs = full_paren(r, sp) if r[0] in ("leaf", "num") else "(" + full_paren(r, sp) + ")"
    return "%s %s %s" % (ls, sp[t[1]], rs)


def check(F, R, Gm):
    import c09
    RT = roundtrip.RoundTrip(F, Gm)
    maps = c09.rule_maps(F, None) if False else None
    try:
        maps = c09.rule_maps(F, _Quiet())
    except Exception:
        maps = None
    if not maps or len(maps.get("bin", [])) != 1 or len(maps.get("un", [])) != 1:
        R.ob("CONVERT-EXP", "anchor", False, "packages/rooc/src/parser/rules_parser/exp_parser.rs", "Rule->BinOp / Rule->UnOp maps not found", undecided=True)
        return
    sp = spellings(Gm, maps)
    R.fn("parser::rules_parser::exp_parser::parse_exp")
    R.fn("parser::rules_parser::exp_parser::parse_exp_leaf")
    trees = []
    for key, t in PP.pair_trees(PP.BINOPS, PP.UNOPS):
        for nf in (False, True):
            trees.append(("%s:%s" % (key, "num-first" if nf else "id-first"), relabel(t, [0], nf)))
    for key, t in PP.triple_trees(PP.ARITH):
        trees.append((key, relabel(t, [0], True)))
    bad = {}
    n = 0
    for key, t in trees:
        text = "min %s\ns.t.\nx >= 0" % full_paren(t, sp)
        ast = RT.parse_text(text)
        n += 1
        group = key.split(":")[0].split(">")[0] + ">" + key.split(":")[1].split(">")[0] if ">" in key else key
        if isinstance(ast, tuple):
            bad.setdefault(group, "`%s`: %s" % (full_paren(t, sp), ast[1][:200]))
            continue
        got = to_tree(ast.fields["objective"].fields["rhs"])
        if got != t:
            bad.setdefault(group, "`%s` is converted to %s, expected %s" % (full_paren(t, sp), PP.shape_named(got) if hasattr(PP, "shape_named") else got, t))
    # implicit multiplication and sign forms with their documented reading
    N = lambda v: ("num", float(v))
    L = lambda s: ("leaf", s)
    special = [("2x", ("bin", "Mul", N(2), L("x"))), ("2(x + 1)", ("bin", "Mul", N(2), ("bin", "Add", L("x"), N(1)))), ("-2x", ("un", "Neg", ("bin", "Mul", N(2), L("x")))),
               ("-2(x + 1)", ("un", "Neg", ("bin", "Mul", N(2), ("bin", "Add", L("x"), N(1))))), ("(a)(b)c", ("bin", "Mul", ("bin", "Mul", L("a"), L("b")), L("c"))),
               ("-(2 + x)", ("un", "Neg", ("bin", "Add", N(2), L("x")))), ("y * -(1.5 - x)", ("bin", "Mul", L("y"), ("un", "Neg", ("bin", "Sub", N(1.5), L("x"))))), ("-(2 * x)", ("un", "Neg", ("bin", "Mul", N(2), L("x")))),
               ("not (a and b)", ("un", "Not", ("bin", "And", L("a"), L("b")))), ("a - (2 + x)", ("bin", "Sub", L("a"), ("bin", "Add", N(2), L("x")))), ("3x + 2y", ("bin", "Add", ("bin", "Mul", N(3), L("x")), ("bin", "Mul", N(2), L("y")))),
               ("a / 2x", ("bin", "Div", L("a"), ("bin", "Mul", N(2), L("x")))),
               # a binary minus glued to its operands is still the binary minus, which binds looser than an implicit product
               ("2(y)-3", ("bin", "Sub", ("bin", "Mul", N(2), L("y")), N(3))), ("(y)-1", ("bin", "Sub", L("y"), N(1))), ("7-2", ("bin", "Sub", N(7), N(2))), ("x-1", ("bin", "Sub", L("x"), N(1))),
               ("2y-3", ("bin", "Sub", ("bin", "Mul", N(2), L("y")), N(3))), ("2(4)-3", ("bin", "Sub", ("bin", "Mul", N(2), N(4)), N(3))), ("(a)(b)-2", ("bin", "Sub", ("bin", "Mul", L("a"), L("b")), N(2))),
               ("3-2x", ("bin", "Sub", N(3), ("bin", "Mul", N(2), L("x")))), ("x+1", ("bin", "Add", L("x"), N(1))), ("2x*3", ("bin", "Mul", ("bin", "Mul", N(2), L("x")), N(3))), ("x/2-1", ("bin", "Sub", ("bin", "Div", L("x"), N(2)), N(1)))]
    # negated parenthesised factors of an implicit product: the product of the parts, whatever tree carries it
    NG = lambda t: ("un", "Neg", t)
    M = lambda a, b: ("bin", "Mul", a, b)
    special += [("(-2)(-3)", M(NG(N(2)), NG(N(3)))), ("(-x)(-y)", M(NG(L("x")), NG(L("y")))), ("(-a)(-b)(-c)", M(M(NG(L("a")), NG(L("b"))), NG(L("c")))), ("2(-x)", M(N(2), NG(L("x")))), ("(-x)y", M(NG(L("x")), L("y"))),
                ("12 / (-2)(-3)", ("bin", "Div", N(12), M(NG(N(2)), NG(N(3))))), ("10 - (-2)(-3)", ("bin", "Sub", N(10), M(NG(N(2)), NG(N(3))))), ("(-x)(-y)(-2)(-3)", M(M(M(NG(L("x")), NG(L("y"))), NG(N(2))), NG(N(3)))),
                ("(-x)(-3)", M(NG(L("x")), NG(N(3)))), ("-(-x)(-y)", NG(M(NG(L("x")), NG(L("y"))))), ("(-(x + 1))(-(y - 2))", M(NG(("bin", "Add", L("x"), N(1))), NG(("bin", "Sub", L("y"), N(2)))))]
    # names that merely start with a keyword or a literal word are names
    special += [("truex + 1", ("bin", "Add", L("truex"), N(1))), ("falsey * 2", ("bin", "Mul", L("falsey"), N(2))), ("notx + andy", ("bin", "Add", L("notx"), L("andy"))), ("2 * orz - xory", ("bin", "Sub", ("bin", "Mul", N(2), L("orz")), L("xory"))),
                ("iffy and impliesz", ("bin", "And", L("iffy"), L("impliesz"))), ("minx + maxy", ("bin", "Add", L("minx"), L("maxy"))), ("inx - asy", ("bin", "Sub", L("inx"), L("asy"))), ("True1 + FALSE2", ("bin", "Add", L("True1"), L("FALSE2")))]
    for text, want in special:
        ast = RT.parse_text("min %s\ns.t.\nx >= 0" % text)
        n += 1
        if isinstance(ast, tuple):
            bad.setdefault("special:" + text, "`%s`: %s" % (text, ast[1][:200]))
            continue
        got = to_tree(ast.fields["objective"].fields["rhs"])
        if got != want:
            # another tree is fine when it has the documented value (a sign pulled out of a product, a folded literal)
            wit = value_differs(got, want)
            if wit is None:
                continue
            bad.setdefault("special:" + text, "`%s` is converted to %s, expected %s%s" % (text, got, want, wit))
    R.count("CONVERT-EXP.texts", n)
    if not bad:
        R.ob("CONVERT-EXP", "all", True, "packages/rooc/src/parser/rules_parser/exp_parser.rs", "all %d fully parenthesised / documented-form texts are converted to the tree they were written from" % n)
    for g, why in sorted(bad.items())[:25]:
        R.ob("CONVERT-EXP", g, False, "packages/rooc/src/parser/rules_parser/exp_parser.rs", why)


def tree_value(t, env):
    """value of an arithmetic / logic tree (None when a node is outside the evaluated forms)"""
    from fractions import Fraction as Fr
    k = t[0]
    if k == "num":
        return Fr(t[1])
    if k == "leaf":
        return env.get(t[1])
    if k == "un":
        a = tree_value(t[2], env)
        if a is None:
            return None
        return -a if t[1] == "Neg" else (Fr(0) if a != 0 else Fr(1)) if t[1] == "Not" else None
    if k == "bin":
        a, b = tree_value(t[2], env), tree_value(t[3], env)
        if a is None or b is None:
            return None
        o = t[1]
        tb = lambda z: Fr(1) if z else Fr(0)
        if o == "Div":
            return a / b if b != 0 else None
        return {"Add": lambda: a + b, "Sub": lambda: a - b, "Mul": lambda: a * b, "And": lambda: tb(a != 0 and b != 0), "Or": lambda: tb(a != 0 or b != 0), "Xor": lambda: tb((a != 0) != (b != 0)),
                "Implies": lambda: tb(a == 0 or b != 0), "Iff": lambda: tb((a != 0) == (b != 0))}.get(o, lambda: None)()
    return None


def value_differs(got, want):
    """None when the two trees have the same value on every probe assignment, else a text with the witness; trees outside
    the evaluated forms differ by definition (the exact-tree comparison stands)"""
    from fractions import Fraction as Fr
    import itertools as it_

    def leaves(t, out):
        if isinstance(t, tuple):
            if t and t[0] == "leaf":
                out.add(t[1])
            for z in t[1:]:
                leaves(z, out)
        return out
    try:
        ls = sorted(leaves(got, set()) | leaves(want, set()))
    except TypeError:
        return " (not comparable by value)"
    probes = [dict(zip(ls, [Fr(p_) for p_ in ps])) for ps in ([3, 5, 7, 11, 13, 17][:len(ls)], [-2, 7, -5, 3, -11, 13][:len(ls)], [Fr(1, 2), -3, Fr(5, 4), -7, 2, 9][:len(ls)])]
    probes += [dict(zip(ls, bits)) for bits in it_.islice(it_.product((Fr(0), Fr(1)), repeat=len(ls)), 16)]
    for env in probes:
        try:
            a, b = tree_value(got, env), tree_value(want, env)
        except (ZeroDivisionError, TypeError, IndexError):
            return " (not comparable by value)"
        if a is None and b is None:
            continue
        if a is None or b is None:
            return " (not comparable by value)"
        if a != b:
            return "; at %s the values are %s and %s" % ({k_: str(v_) for k_, v_ in env.items()}, a, b)
    return None


class _Quiet:
    def ob(self, *a, **k):
        return a[2] if len(a) > 2 else True

    def fn(self, *a):
        pass

    def count(self, *a):
        pass

    def floor(self, *a):
        pass
