"""C15 Limits and tolerances never turn into wrong answers -- MUST-CHECK on the solver wrappers.

A `microlp::Solution` obtained with non-default options (or a good_lp solution) may be a merely
feasible or an interrupted working point; its `status()` must be read, branched on, and dominate
every read of its values.  Decides the wrapper only; what the back-end does under a limit is the
dependency's documented contract.
"""
from facts import norm, base_ty, walk, strip, sexp, callee_of
from flow import LocalFlow, pat_binds, free_locals
import table
import mirlib

SOLVE_WITH = "microlp::Problem::solve_with"
SOLVE = "microlp::Problem::solve"
STATUS = "microlp::Solution::status"
SINKS = {"microlp::Solution::objective", "microlp::Solution::var_value", "microlp::Solution::var_value_raw",
         "microlp::Solution::iter", "<microlp::Solution as std::ops::Index<microlp::Variable>>::index"}
SOLSTATUS = "solvers::common::SolutionStatus"


def _calls(f, name):
    return [n for n in walk(f["body"]) if n.get("k") in ("MCall", "Call") and norm(n.get("resolved") or n.get("callee") or "") == name]


def options_provably_default(f, call):
    """the SolveOptions argument is a local initialised by Default::default() and never assigned"""
    args = call["args"]
    if not args:
        return False
    a = strip(args[-1])
    if a.get("k") in ("Call", "MCall"):
        c = norm(a.get("resolved") or a.get("callee") or "")
        return c.endswith("::default") and not a.get("args")
    if a.get("k") != "Path" or a.get("res") != "local":
        return False
    lid = a["id"]
    inits = []
    for n in walk(f["body"]):
        if n.get("k") == "Let" and any(i == lid for i, _ in pat_binds(n["pat"])):
            inits.append(n.get("init"))
        if n.get("k") in ("Assign", "AssignOp"):
            l = strip(n["lhs"])
            while l.get("k") in ("Field", "Index"):
                l = strip(l["a"])
            if l.get("k") == "Path" and l.get("id") == lid:
                return False
        if n.get("k") == "Ref" and n.get("mut") and strip(n["a"]).get("id") == lid:
            return False
    if len(inits) != 1 or inits[0] is None:
        return False
    i0 = strip(inits[0])
    c = norm(i0.get("resolved") or i0.get("callee") or "")
    return i0.get("k") in ("Call", "MCall") and c.endswith("::default") and not i0.get("args")


def closure_sinks(F, cg_cache, path, sinks, depth=0):
    """does the MIR body `path` (or closures it creates) call one of `sinks`?"""
    if path in cg_cache:
        return cg_cache[path]
    cg_cache[path] = False
    body = F.mir.get(path)
    if body is None:
        return False
    r = False
    for b in body["blocks"]:
        t = b["term"]
        if t["k"] == "Call" and mirlib.callee(t) in sinks:
            r = True
    if not r and depth < 4:
        for _, c in mirlib.closures_created(body):
            if closure_sinks(F, cg_cache, c, sinks, depth + 1):
                r = True
    cg_cache[path] = r
    return r


def check(F, R):
    n_sites = 0
    for f in F.fn_list:
        if "body" not in f:
            continue
        calls = _calls(f, SOLVE_WITH)
        plain = _calls(f, SOLVE)
        if not calls and not plain:
            continue
        R.fn(f["path"])
        where = F.loc(f)
        sets_limit = bool(_calls(f, "microlp::Problem::set_time_limit"))
        for c in plain:
            n_sites += 1
            R.ob("MUST-CHECK", "%s:solve-without-limit" % f["path"], not sets_limit, F.loc(f, c),
                 "Problem::solve() after set_time_limit can return a Feasible/Interrupted solution; status must be checked" if sets_limit else "Problem::solve() with no time limit set: only Optimal solutions are returned")
        for c in calls:
            n_sites += 1
            if options_provably_default(f, c):
                R.ob("MUST-CHECK", "%s:default-options" % f["path"], True, F.loc(f, c), "SolveOptions are provably default: no limit can fire")
                continue
            must_check_microlp(F, R, f, c)
    R.count("MUST-CHECK.sites", n_sites)
    goodlp_status(F, R)
    options_forwarded(F, R)


def must_check_microlp(F, R, f, call):
    key = f["path"]
    where = F.loc(f, call)
    sol_ids = {n["id"] for n in walk(f["body"]) if n.get("k") == "PBind" and base_ty(F.tyi(n.get("t")) or "") == "microlp::Solution"}
    status_calls = [n for n in _calls(f, STATUS)]
    if not R.ob("MUST-CHECK", key + ":status-read", bool(status_calls), where,
                "the Solution returned by solve_with (options not provably default: a time limit or gap can stop the search) is used without ever reading Solution::status(); LpSolution::new defaults to Optimal, so a Feasible or Interrupted working point is returned labelled Optimal"):
        return
    # the status value must decide a match: Interrupted -> Err, Feasible -> SolutionStatus::Feasible
    lf = LocalFlow(f["body"])
    ok_table = False
    detail = "status() result is not the scrutinee of a match over microlp::Status"
    status_match = None
    for n in walk(f["body"]):
        if n.get("k") != "Match":
            continue
        sc = strip(n["scrut"])
        is_status = any(x is s for s in status_calls for x in walk(sc))
        if not is_status and sc.get("k") == "Path" and sc.get("res") == "local":
            is_status = any(any(x is s for s in status_calls for x in walk(d)) for d in lf.defs.get(sc["id"], []))
        if not is_status:
            continue
        status_match = n
        arms = {}
        for arm in n["arms"]:
            for alt in table.pat_alternatives(arm["pat"]):
                h = table.pat_head(alt)
                if h[0] == "variant":
                    arms[h[1].rsplit("::", 1)[-1]] = arm
                elif h[0] == "any":
                    arms.setdefault("_", arm)
        def arm_for(v):
            return arms.get(v) or arms.get("_")
        ai, af, ao = arm_for("Interrupted"), arm_for("Feasible"), arm_for("Optimal")
        if ai is None or af is None or ao is None:
            detail = "status match does not cover Optimal/Feasible/Interrupted"
            continue
        hi = table.head(ai["body"])
        interrupted_err = hi[0] == "variant" and hi[1].endswith("Result::Err") or _diverges_with_err(ai["body"])
        feas = _mentions_variant(af["body"], SOLSTATUS + "::Feasible")
        opt_not_feas = not _mentions_variant(ao["body"], SOLSTATUS + "::Feasible") or ao is af and False
        ok_table = interrupted_err and feas and (ao is not af)
        detail = "Interrupted arm -> %s (must be Err); Feasible arm mentions SolutionStatus::Feasible: %s; Optimal and Feasible arms distinct: %s" % (hi[:2], feas, ao is not af)
    R.ob("MUST-CHECK", key + ":status-table", ok_table, F.loc(f, status_match) if status_match else where, detail, positive=status_match is not None)
    # the Feasible label must reach LpSolution::with_status
    ws = [n for n in walk(f["body"]) if n.get("k") == "MCall" and n.get("name") == "with_status"]
    flows = False
    for w in ws:
        a = strip(w["args"][0]) if w.get("args") else None
        if a is None:
            continue
        if status_match is not None and (any(x is status_match for x in walk(a)) or any(any(x is status_match for x in walk(d)) for i in free_locals(a) for d in lf.defs.get(i, []))):
            flows = True
        if _mentions_variant(a, SOLSTATUS + "::Feasible") and status_match is not None and any(x is w for x in walk(status_match)):
            flows = True
    R.ob("MUST-CHECK", key + ":status-flows-to-with_status", flows, where, "the status chosen by the match must be attached with LpSolution::with_status (found %d with_status call(s))" % len(ws))
    # MIR: the status() call dominates every value read
    body = F.mir.get(f["path"])
    if body is None:
        R.ob("MUST-CHECK", key + ":mir", False, where, "no MIR for function")
        return
    cfg = mirlib.Cfg(body)
    sblocks = [bi for bi, t in cfg.calls() if mirlib.callee(t) == STATUS]
    sinks = []
    cache = {}
    for bi, t in cfg.calls():
        if mirlib.callee(t) in SINKS:
            sinks.append((bi, mirlib.callee(t), t.get("l")))
    for bi, c in mirlib.closures_created(body):
        if closure_sinks(F, cache, c, SINKS):
            sinks.append((bi, "closure " + c.rsplit("::", 1)[-1] + " reading solution values", None))
    for bi, what, line in sinks:
        dom = any(cfg.dominates(sb, bi) for sb in sblocks)
        R.ob("MUST-CHECK", "%s:dominates:%s" % (key, what.rsplit("::", 1)[-1]), dom, "%s:%s" % (F.loc(f).rsplit(":", 1)[0], line or f["line"]),
             "read of the solution (%s) is not dominated by the status() check" % what)


def _diverges_with_err(n):
    for x in walk(n):
        if x.get("k") == "Ret" and x.get("e") is not None:
            h = table.head(x["e"])
            if h[0] == "variant" and h[1].endswith("Result::Err"):
                return True
    return False


def _mentions_variant(n, path):
    for x in walk(n):
        if x.get("k") == "Path" and x.get("dk") == "Variant" and norm(x.get("path")) == path:
            return True
    return False


def goodlp_status(F, R):
    """good_lp bridge: SolutionStatus table and flow into with_status (the pattern the MILP path should follow)"""
    n = 0
    for f, m in table.find_matches(F, scrut_ty="good_lp::SolutionStatus"):
        n += 1
        R.fn(f["path"])
        tab = {}
        for arm in m["arms"]:
            h = table.head(arm["body"])
            for alt in table.pat_alternatives(arm["pat"]):
                ph = table.pat_head(alt)
                if ph[0] == "variant":
                    tab[ph[1].rsplit("::", 1)[-1]] = h[1].rsplit("::", 1)[-1] if h[0] == "variant" else str(h)
        want = {"Optimal": "Optimal", "TimeLimit": "Feasible", "GapLimit": "Feasible"}
        R.table("good_lp_status", tab)
        R.ob("MUST-CHECK", "good_lp:status-table", tab == want, F.loc(f, m), "good_lp status mapping %s, expected %s (a limit-stopped solve must be labelled Feasible)" % (tab, want), positive=set(tab) == set(want) and all(v in ("Optimal", "Feasible") for v in tab.values()))
        lf = LocalFlow(f["body"])
        ws = [w for w in walk(f["body"]) if w.get("k") == "MCall" and w.get("name") == "with_status"]
        flows = False
        for w in ws:
            a = strip(w["args"][0])
            if any(x is m for x in walk(a)) or any(any(x is m for x in walk(d)) for i in free_locals(a) for d in lf.defs.get(i, [])):
                flows = True
        R.ob("MUST-CHECK", "good_lp:status-flows-to-with_status", flows, F.loc(f, m), "mapped status must be attached with with_status")
    R.ob("MUST-CHECK", "good_lp:status-site", n >= 1, "packages/rooc/src/solvers/good_lp.rs", "good_lp status mapping site not found")


def options_forwarded(F, R):
    """options are forwarded unmodified: assignments into SolveOptions fields take the user's value as is"""
    for f in F.fn_list:
        if "body" not in f or not _calls(f, SOLVE_WITH):
            continue
        for n in walk(f["body"]):
            if n.get("k") == "Assign":
                l = strip(n["lhs"])
                if l.get("k") == "Field" and base_ty(F.ty(strip(l["a"])) or "") == "microlp::SolveOptions":
                    rhs = strip(n["rhs"])
                    # accept `gap`, `Some(limit)`: a local or a wrapper of a local, no arithmetic/clamping
                    ok = rhs.get("k") == "Path" or (rhs.get("k") == "Call" and rhs.get("dk") == "Variant" and all(strip(a).get("k") == "Path" for a in rhs["args"]))
                    # ... and that local is bound straight from a field of the caller's options: no adapter (filter, map,
                    # max, clamp ...) between the caller's value and the solver, otherwise invalid values are silently
                    # repaired or dropped instead of being rejected
                    lf = LocalFlow(f["body"])
                    src = []
                    for i in free_locals(rhs):
                        for d in lf.defs.get(i, []):
                            d = strip(d)
                            while d.get("k") == "MCall" and d["name"] in ("clone", "copied", "cloned", "as_ref") and not d["args"]:
                                d = strip(d["recv"])
                            src.append(d)
                    direct = bool(src) and all(d.get("k") == "Field" and strip(d["a"]).get("k") == "Path" for d in src)
                    R.ob("OPT-FORWARD", "%s:%s" % (f["path"], l["name"]), ok and direct, F.loc(f, n), "SolveOptions.%s = %s, bound from %s (must be the caller's option field unmodified; validation is microlp's documented job)" % (l["name"], sexp(rhs), [sexp(d) for d in src]))
        # nothing else of the solver's options may be touched: every other write into the SolveOptions value (a nested
        # field, a compound assignment, a `&mut` alias of a part of it) changes an option the caller did not set
        opts = {i for n in walk(f["body"]) if n.get("k") == "Let" and n.get("init") is not None and base_ty(F.ty(strip(n["init"])) or "") == "microlp::SolveOptions" for i, _ in pat_binds(n["pat"])}

        def rooted(e):
            e = strip(e)
            while e.get("k") in ("Field", "Index"):
                e = strip(e["a"])
            return e.get("k") == "Path" and e.get("res") == "local" and e.get("id") in opts
        other = []
        for n in walk(f["body"]):
            if n.get("k") in ("Assign", "AssignOp") and rooted(n["lhs"]):
                l = strip(n["lhs"])
                direct_field = l.get("k") == "Field" and strip(l["a"]).get("k") == "Path" and n.get("k") == "Assign"
                if not direct_field:
                    other.append(sexp(n)[:100])
            if n.get("k") == "Ref" and n.get("mut") and strip(n["a"]).get("k") in ("Field", "Index") and rooted(n["a"]):
                other.append("&mut " + sexp(strip(n["a"]))[:80])
        R.ob("OPT-FORWARD", "%s:nothing-else" % f["path"], bool(opts) and not other, F.loc(f), "writes into the solver options other than the direct forwards: %s" % (other or "none"))
