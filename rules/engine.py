"""Result collection, known-findings handling, evidence writing."""
import json
import os
import re
import time

VERIF = os.path.dirname(os.path.dirname(os.path.abspath(__file__)))
KNOWN = os.path.join(VERIF, "known_findings.txt")


def load_known():
    """known_findings.txt lines:
         finding: property=<id> rule=<RULE> key=<key> :: <what fails>
         fixed: property=<id> <commit> <what failed>        (suppresses nothing)
    """
    out = {}
    if not os.path.exists(KNOWN):
        return out
    for line in open(KNOWN):
        line = line.strip()
        if not line or line.startswith("#") or line.startswith("fixed:"):
            continue
        if not line.startswith("finding:"):
            continue
        body, _, what = line[len("finding:"):].partition(" :: ")
        kv = {}
        toks = body.split()
        for t in toks:
            if "=" in t:
                k, v = t.split("=", 1)
                kv[k] = v
        if {"property", "rule", "key"} <= set(kv):
            out[(kv["property"], kv["rule"], kv["key"])] = what.strip()
    return out


# a failed obligation whose text says that the rule could not look at the code (the evaluated function left the
# interpreter's fragment) is not evidence against the property: it is recorded as undecided, never as a violation
UNDECIDED_RE = re.compile(r"not evaluable|Unknown\(|not analysable")


# Rules that recognise one spelling of the code (a loop that pushes, a guard written `x == 0.0`, a format! template).
# They can confirm; a miss cannot tell a defect from a refactoring, so a miss is undecided unless the call site passes
# positive=True (the construct was recognised and is of the wrong shape).  Each has a rule that decides the same
# ground by evaluation, named on the right.
SHAPE_RULES = {
    "D-OFFSET": "COMPILE-EQUIV (C02 part: objective value incl. the constant)",
    "W-ORDER": "EXPAND-EQUIV", "T-BLOCKS": "EXPAND-EQUIV", "T-RANGE": "EXPAND-EQUIV",
    "T-BOUNDROWS": "STD-EQUIV", "T-FLIP": "STD-EQUIV", "T-REMOVE": "STD-EQUIV", "T-SLACK": "STD-EQUIV", "W-PUSHPAIR": "STD-EQUIV",
    "D-HANDLE": "FRONT-DOOR-EQUIV",
    "MUST-CHECK": "BRIDGE-EQUIV / GOODLP-BRIDGE-EQUIV (status and error verdicts)", "OPT-FORWARD": "BRIDGE-EQUIV (options)",
    "T-SECTIONS": "LP-ROUND-TRIP", "NAME-NS": "LP-ROUND-TRIP", "T-SENSE": "LP-ROUND-TRIP", "T-REL": "LP-ROUND-TRIP",
}


class Report:
    """collects obligations for one property run.

    Three outcomes per obligation: discharged, violated (positive evidence: a counterexample of an evaluated family,
    or a recognised construct of the wrong shape), undecided (the rule could not find or evaluate what it looks at --
    after a refactoring, say).  Only violations make a check fail.  Undecided obligations are printed and counted; a
    property of which nothing at all could be decided on the current tree is reported as BLIND, which does fail."""

    def __init__(self, prop, tier):
        self.prop = prop
        self.tier = tier
        self.t0 = time.time()
        self.obligations = []  # dicts: rule, key, where, ok, detail
        self.undecided_obs = []  # dicts: rule, key, where, detail
        self.instances = {}  # rule -> count of rule instances seen on /repo
        self.floors = {}  # rule -> floor
        self.fixture = {}  # rule -> bool fired on bad fixture / silent on good
        self.samples = []
        self.analysed = set()
        self.notes = []
        self.configs = []
        self.not_analysable = []
        self.assumptions = []
        self.tables = {}

    # -- recording ---------------------------------------------------------------
    def ob(self, rule, key, ok, where="", detail="", undecided=False, positive=False):
        key = "_".join(str(key).split())
        if not ok and not positive and rule in SHAPE_RULES:
            undecided = True
        if not ok and (undecided or UNDECIDED_RE.search(str(detail))):
            self.undecided_obs.append({"rule": rule, "key": key, "where": where, "detail": detail})
            return ok
        self.obligations.append({"rule": rule, "key": key, "ok": bool(ok), "where": where, "detail": detail})
        self.instances[rule] = self.instances.get(rule, 0) + 1
        return ok

    def undecided(self, rule, key, where="", detail=""):
        """the rule could not find / recognise / evaluate its anchor on this tree"""
        return self.ob(rule, key, False, where, detail, undecided=True)

    def count(self, rule, n=1):
        self.instances[rule] = self.instances.get(rule, 0) + n

    def floor(self, rule, n):
        self.floors[rule] = n

    def fn(self, path):
        self.analysed.add(path)

    def sample(self, s):
        if len(self.samples) < 40:
            self.samples.append(s)

    def table(self, name, t):
        self.tables[name] = t

    def fixture_result(self, rule, fired_on_bad, silent_on_good=True):
        self.fixture[rule] = bool(fired_on_bad and silent_on_good)

    # -- finishing ---------------------------------------------------------------
    def finish(self, explanation, technique, level="other"):
        known = load_known()
        violations = []
        known_hits = []
        for o in self.obligations:
            if o["ok"]:
                continue
            k = (self.prop, o["rule"], o["key"])
            if k in known:
                known_hits.append((o, known[k]))
            else:
                violations.append(o)
        # floors: an anchor that disappeared is a report about the checker's view of the code
        fpath = os.path.join(VERIF, "rules", "floors.json")
        if os.path.exists(fpath):
            for rule, fl in json.load(open(fpath)).get(self.prop, {}).items():
                self.floors.setdefault(rule, fl)
        for rule, fl in self.floors.items():
            n = self.instances.get(rule, 0)
            if n < fl:
                self.undecided_obs.append({"rule": rule, "key": "FLOOR", "where": "", "detail": "rule %s decided %d instance(s) on this tree, fewer than the %d confirmed by hand on the reference tree: part of the anchored code is no longer visible to the rule" % (rule, n, fl)})
        decided = [o for o in self.obligations if not o["rule"].startswith("ENGINE-SELFTEST")]
        if not decided:
            violations.append({"rule": "BLIND", "key": "nothing-decided", "ok": False, "where": "", "detail": "no rule of this property could decide anything on the current tree (%d undecided): the code the property is anchored in is no longer visible to the checker" % len(self.undecided_obs)})
        for rule, ok in self.fixture.items():
            if not ok:
                violations.append({"rule": rule, "key": "FIXTURE", "ok": False, "where": "", "detail": "rule %s did not fire on its bad fixture (or fired on the good twin): checker self-test failed" % rule})
        EVID = os.environ.get("VERIF_EVIDENCE", os.path.join(VERIF, "evidence"))
        os.makedirs(os.path.join(EVID, "replay"), exist_ok=True)
        lines = []
        seen = set()
        for o, what in known_hits:
            key = (o["rule"], o["key"])
            if key in seen:
                continue
            seen.add(key)
            lines.append("KNOWN-FINDING: property=%s %s %s %s :: %s" % (self.prop, o["rule"], o["key"], o["where"], what))
        useen = set()
        for o in self.undecided_obs:
            if (o["rule"], o["key"]) in useen or len(useen) >= 12:
                continue
            useen.add((o["rule"], o["key"]))
            lines.append("UNDECIDED: property=%s %s %s %s :: %s" % (self.prop, o["rule"], o["key"], o["where"], str(o["detail"])[:300]))
        for o in violations:
            safe = "".join(c if c.isalnum() or c in "-_." else "_" for c in ("%s-%s" % (o["rule"], o["key"])))[:150]
            rp = os.path.join(EVID, "replay", "%s-%s.json" % (self.prop, safe))
            with open(rp, "w") as fh:
                json.dump({"property": self.prop, **o}, fh, indent=1)
            lines.append("VIOLATION property=%s replay=%s" % (self.prop, rp))
            lines.append("  rule=%s key=%s at %s: %s" % (o["rule"], o["key"], o["where"], o["detail"]))
        n_ob = len(self.obligations)
        n_ok = sum(1 for o in self.obligations if o["ok"])
        ev = {
            "property_id": self.prop,
            "tier": self.tier,
            "seed": int(os.environ.get("VERIF_SEED", "0") or 0),
            "level": level,
            "coverage": {
                "explanation": explanation,
                "technique": technique,
                "obligations": n_ob,
                "discharged": n_ok,
                "known_findings": len(seen),
                "undecided": len(self.undecided_obs),
                "undecided_samples": self.undecided_obs[:20],
                "rule_instances": dict(sorted(self.instances.items())),
                "floors": dict(sorted(self.floors.items())),
                "fixture_selftest": dict(sorted(self.fixture.items())),
                "functions_analysed": sorted(self.analysed),
                "configurations": self.configs,
                "not_analysable_here": self.not_analysable,
                "samples": self.samples or [o for o in self.obligations[:10]],
                "tables": self.tables,
                "failed_obligations": [o for o in self.obligations if not o["ok"]][:60],
                "notes": self.notes,
                "exhaustive": True,
            },
            "assumptions": self.assumptions,
            "wall_s": round(time.time() - self.t0, 3),
            "violations": len(violations),
        }
        with open(os.path.join(EVID, "%s.json" % self.prop), "w") as fh:
            json.dump(ev, fh, indent=1, default=str)
        return lines, (1 if violations else 0)
