"""C03 End-to-end answers -- pipeline shape only (the thinnest claim).

Decides: D-STAGES (type check -> transform -> linearize -> solve in that order on every path to
Ok, every stage Result propagated), T-CONTRADICTION (a contradictory model is a solver verdict:
bound analysis cannot fail, detected contradictions become a `0 = 1` row, never an error),
EARLY-OK (no solver entry answers without consulting the rows).  Everything semantic is not decided.
"""
from facts import norm, base_ty, walk, strip, sexp
import mirlib
import table

STAGES = ["parser::pre_model::PreModel::create_type_checker", "parser::pre_model::PreModel::transform", "transformers::linearizer::Linearizer::linearize"]
STAGE_CALLEES = set(STAGES) | {
    "parser::pre_model::parse_problem_source", "parser::model_transformer::model::transform_parsed_problem",
    "transformers::linear_model::LinearModel::into_standard_form", "transformers::standardizer::to_standard_form",
    "transformers::standard_linear_model::StandardLinearModel::into_tableau", "solvers::simplex::tableau::Tableau::solve",
    "solvers::milp_solver::solve_milp_lp_problem", "solvers::milp_solver::solve_milp_lp_problem_with", "solvers::auto_solver::auto_solver",
    "solvers::simplex::simplex_solver::solve_real_lp_problem_micro_lp", "solvers::simplex::simplex_solver::solve_real_lp_problem_slow_simplex",
    "solvers::clarabel::solve_real_lp_problem_clarabel", "RoocParser::parse", "RoocParser::parse_and_transform", "RoocParser::type_check",
    "parser::pre_model::PreModel::type_check",
}
DISCARDERS = {"ok", "unwrap_or", "unwrap_or_default", "unwrap_or_else", "unwrap", "expect", "is_ok", "is_err", "err"}


def parents(body):
    par = {}
    for n in walk(body):
        for k, v in n.items():
            if isinstance(v, dict):
                par[id(v)] = n
            elif isinstance(v, list):
                for x in v:
                    if isinstance(x, dict):
                        par[id(x)] = n
    return par


def propagated(f, call, par):
    """how the Result of `call` is consumed: 'try' | 'match-err' | 'returned' | 'discarded:<how>'"""
    n = call
    for _ in range(12):
        p = par.get(id(n))
        if p is None:
            return "returned"
        k = p.get("k")
        if k == "Try":
            return "try"
        if k == "MCall" and p.get("recv") is n or (k == "MCall" and strip(p.get("recv", {})) is n):
            if p["name"] in ("map_err", "map", "and_then", "or_else"):
                n = p
                continue
            if p["name"] in DISCARDERS:
                return "discarded:." + p["name"] + "()"
            n = p
            continue
        if k == "Match" and (p.get("scrut") is n or strip(p.get("scrut", {})) is n):
            for arm in p["arms"]:
                if "Err" in sexp(arm["pat"]):
                    b = sexp(arm["body"])
                    if "Err(" in b or "return" in b:
                        return "match-err"
            return "discarded:match-without-error-arm"
        if k == "Semi":
            return "discarded:statement"
        if k == "Let":
            pat = p.get("pat", {})
            if pat.get("k") == "PWild":
                return "discarded:let _"
            # bound to a local: look for a later `?`/match on it -- accept if the local is used under Try or Match
            ids = [x["id"] for x in walk(pat) if x.get("k") == "PBind"]
            for x in walk(f["body"]):
                if x.get("k") == "Try" and any(y.get("k") == "Path" and y.get("id") in ids for y in walk(x["e"])):
                    return "try"
                if x.get("k") == "Match" and strip(x["scrut"]).get("id") in ids:
                    return "match-err"
                if x.get("k") == "If" and x["cond"].get("k") == "LetExpr" and any(y.get("id") in ids for y in walk(x["cond"]["init"])):
                    return "match-err"
            return "returned" if ids else "discarded:let"
        if k in ("Block", "Expr", "Ref", "Call", "Ret", "Closure", "If", "Arm") or k is None:
            if k == "Call" and norm(p.get("callee") or "").endswith("Result::Ok"):
                return "discarded:wrapped in Ok"
            n = p
            continue
        n = p
    return "returned"


def d_stages(F, R):
    p = "RoocSolver::solve_with_data_using"
    f = F.fn(p)
    body = F.mir.get(p)
    if f is None or body is None:
        R.ob("D-STAGES", "anchor", False, "", "one-shot entry not found")
    else:
        R.fn(p)
        cfg = mirlib.Cfg(body)
        blocks = []
        for st in STAGES:
            bs = [bi for bi, t in cfg.calls() if mirlib.callee(t) == st]
            blocks.append(bs)
            R.ob("D-STAGES", "one-shot:calls:" + st.rsplit("::", 1)[-1], len(bs) == 1, F.loc(f), "stage %s must be called exactly once" % st)
        # the user's solver function is called through Fn::call
        solve = [bi for bi, t in cfg.calls() if "ops::Fn" in (t.get("fn") or "") and (t.get("fn") or "").endswith("::call")]
        blocks.append(solve)
        R.ob("D-STAGES", "one-shot:calls:solver", len(solve) == 1, F.loc(f), "the solver callback must be called exactly once")
        names = [s.rsplit("::", 1)[-1] for s in STAGES] + ["solve"]
        for i in range(len(blocks) - 1):
            a, b = blocks[i], blocks[i + 1]
            ok = bool(a) and bool(b) and cfg.dominates(a[0], b[0])
            R.ob("D-STAGES", "one-shot:order:%s<%s" % (names[i], names[i + 1]), ok, F.loc(f), "%s must run (and succeed) before %s on every path" % (names[i], names[i + 1]))
        # data flow: the linearized model is what the solver receives
        t = sexp(f["body"])
        R.ob("D-STAGES", "one-shot:solver-gets-linearized", "(func)(&linearized)" in t.replace(" ", "").replace("(func)(&linearized)", "(func)(&linearized)") or "func(&linearized)" in t or "(func)(&linearized)" in t, F.loc(f), "the solver must be applied to the linearised model")
    # error discipline on every stage call in the entry points and pipes
    n = 0
    for g in F.fn_list:
        if "body" not in g:
            continue
        if not (g.get("file", "").endswith("src/lib.rs") or "pipe/" in g.get("file", "") or g.get("file", "").endswith("builder/model.rs")):
            continue
        par = None
        for c in walk(g["body"]):
            if c.get("k") in ("Call", "MCall"):
                callee = norm(c.get("resolved") or c.get("callee") or "")
                if callee in STAGE_CALLEES:
                    if par is None:
                        par = parents(g["body"])
                    how = propagated(g, c, par)
                    n += 1
                    R.fn(g["path"])
                    R.ob("D-STAGES", "propagate:%s:%s" % (g["path"], callee.rsplit("::", 1)[-1]), not how.startswith("discarded"), F.loc(g, c),
                         "the Result of stage %s is %s in %s: a failed stage would be turned into a (wrong) answer" % (callee, how, g["path"]))
    R.count("D-STAGES.stage-calls", n)


def t_contradiction(F, R):
    # (i) bound analysis cannot fail
    for p in ("transformers::bounds::BoundsAnalyzer::analyze", "transformers::bounds::BoundsAnalyzer::analyze_with_options", "transformers::bounds::BoundsAnalyzer::propagate_affine_constraints", "transformers::bounds::BoundsAnalyzer::apply_to_domain"):
        f = F.fn(p)
        if f is None:
            R.ob("T-CONTRADICTION", "no-result:" + p.rsplit("::", 1)[-1], False, "", "function not found", undecided=True)
            continue
        R.fn(p)
        out = F.tyi(f.get("output")) or ""
        R.ob("T-CONTRADICTION", "no-result:" + p.rsplit("::", 1)[-1], "Result" not in out, F.loc(f), "bound inference must not be able to fail (returns `%s`): a contradiction it proves is a solver verdict, not a compile error" % out)
    res = [f["path"] for f in F.fn_list if f.get("file", "").endswith("transformers/bounds.rs") and "Result<" in (F.tyi(f.get("output")) or "") and not f.get("derived") and "fmt::" not in f["path"]]
    R.ob("T-CONTRADICTION", "bounds.rs:no-fallible-function", not res, "packages/rooc/src/transformers/bounds.rs", "fallible functions in the bound analysis: %s" % res)
    # (ii) detected contradictions become a 0 = 1 row
    f = F.fn("transformers::linearizer::Linearizer::linearize")
    if f is not None:
        arm = None
        for m in walk(f["body"]):
            if m.get("k") == "Match":
                for a in m["arms"]:
                    if sexp(a["pat"]).endswith("NormalizedLogicConstraint::Contradiction"):
                        arm = a
        ok = False
        detail = "no Contradiction arm"
        if arm is not None:
            t = sexp(arm["body"])
            emits = [x for x in walk(arm["body"]) if x.get("k") == "MCall" and x["name"] == "emit_constraint"]
            row = emits and [sexp(a) for a in emits[0]["args"][:3]]
            ok = bool(emits) and row[0].endswith("Number(0.0)") and row[1].endswith("Comparison::Equal") and row[2].endswith("Number(1.0)") and any(x.get("k") == "Continue" for x in walk(arm["body"])) and not any(x.get("k") == "Ret" for x in walk(arm["body"]))
            detail = "arm body %s" % t[:160]
        R.ob("T-CONTRADICTION", "linearize:contradiction-arm", ok, F.loc(f, arm["body"]) if arm else F.loc(f), "a constraint normalised to a contradiction must be emitted as the row 0 = 1 and processing must continue: " + detail, undecided=(arm is None) or not any(x.get("k") == "Ret" for x in walk(arm["body"])))
    g = F.fn("transformers::linearizer::lower_logic_assertion")
    if g is not None:
        R.fn(g["path"])
        ifs = [i for i in walk(g["body"]) if i.get("k") == "If" and "value_is_true" in sexp(i["cond"]) and "must_be_true" in sexp(i["cond"])]
        ok = False
        if ifs:
            emits = [x for x in walk(ifs[0]["then"]) if x.get("k") == "MCall" and x["name"] == "emit_constraint"]
            ok = bool(emits) and sexp(emits[0]["args"][0]).endswith("Number(0.0)") and sexp(emits[0]["args"][2]).endswith("Number(1.0)") and "Err(" not in sexp(ifs[0]["then"]).replace("?", "")
        R.ob("T-CONTRADICTION", "lower_logic_assertion:constant-false", ok, F.loc(g), "asserting a constant of the wrong truth value must emit 0 = 1, not fail", undecided=not ifs or "Err(" not in sexp(ifs[0]["then"]).replace("?", ""))
    h = F.fn("transformers::bounds::BoundsAnalyzer::apply_to_domain")
    if h is not None:
        ifs = [i for i in walk(h["body"]) if i.get("k") == "If" and sexp(strip(i["cond"])) == "(lower > upper)"]
        ok = bool(ifs) and any(x.get("k") == "Continue" for x in walk(ifs[0]["then"]))
        R.ob("T-CONTRADICTION", "apply_to_domain:empty-integer-range", ok, F.loc(h), "an empty rounded integer range keeps the declared domain (the rows report infeasibility at solve time)", undecided=True)


def check(F, R):
    d_stages(F, R)
    t_contradiction(F, R)
    import c04
    c04.early_ok(F, R)
