"""BRIDGE-EQUIV (C04, C15, C05): the MicroLP bridges evaluated against a recording model of the MicroLP API.

solve_milp_lp_problem_with and solve_real_lp_problem_micro_lp are evaluated from their typed HIR on a family of linear
models (built through LinearModel::new / add_variable / add_named_constraint / set_objective, also from HIR).  The
external crate is replaced by a recorder: Problem::new / add_var / add_integer_var / add_binary_var / add_constraint keep
what they are given, solve / solve_with return a scripted Solution (status, objective, one value per column) or a scripted
error.  What the bridge hands to the solver and what it makes of the answer is then compared with the model:

  columns    one per model variable, in the variable order, with that variable's objective coefficient, kind and
             declared bounds
  rows       one per constraint, in order: the coefficient of column i is the row's coefficient of variable i, the
             operator is the row's comparison, the right-hand side is the row's
  direction  Max -> Maximize; Min, Satisfy -> Minimize
  options    mip_gap and time_limit reach SolveOptions unchanged (also 0, negative and NaN gaps: MicroLP validates
             them), nothing else in SolveOptions differs from its default
  answer     each variable is reported with the value of its own column, read in its declared kind; the objective is the
             solver's plus the model's constant; row activities are the rows evaluated at those values
  verdicts   Status::Optimal -> Optimal, Feasible -> Feasible, Interrupted -> Err(LimitReached), whatever options were
             given; Error::Infeasible -> Infeasible, Unbounded -> Unbounded; an infinite / NaN objective of the real bridge
             -> Unbounded / Infeasible

This is robust to how the bridge is written (loops or iterator chains, helpers, merged arms); it is the same bounded
evaluation of the source as COMPILE-EQUIV, with a stand-in for the one thing that is not source of this crate."""
import math
from interp import Interp, Var, Rope, ListV, MutRef, Unknown, is_unknown, SOME_PATHS, NONE_PATHS, OK_PATHS, ERR_PATHS

LM = "transformers::linear_model::LinearModel"
VT = "math::math_enums::VariableType"
CMP = "math::math_enums::Comparison::"
OPT = "math::math_enums::OptimizationType::"
MILP = "solvers::milp_solver::solve_milp_lp_problem_with"
REAL = "solvers::simplex::simplex_solver::solve_real_lp_problem_micro_lp"
OPTS = "solvers::milp_solver::MilpOptions"


class Mock:
    """the recorder standing in for microlp"""

    def __init__(self):
        self.reset(None)

    def reset(self, script):
        self.script = script or {}
        self.direction = None
        self.cols = []
        self.rows = []
        self.options = None
        self.solved = 0

    def install(self, I):
        M = self
        mk_var = lambda i: Var("microlp::Variable", [i])

        def problem_new(I_, args):
            M.direction = args[0].path.rsplit("::", 1)[-1] if isinstance(args[0], Var) else repr(args[0])
            return Var("microlp::Problem")

        def add(kind):
            def f(I_, args):
                coeff = args[1]
                b = args[2] if len(args) > 2 else (0, 1)
                M.cols.append({"kind": kind, "coeff": coeff, "bounds": tuple(b) if isinstance(b, tuple) else b})
                return mk_var(len(M.cols) - 1)
            return f

        def add_constraint(I_, args):
            pairs, op, rhs = args[1], args[2], args[3]
            if isinstance(rhs, MutRef):
                rhs = rhs.get()
            M.rows.append({"pairs": [(p[0].args[0], p[1]) for p in pairs.items] if isinstance(pairs, ListV) and all(isinstance(p, tuple) and isinstance(p[0], Var) for p in pairs.items) else repr(pairs),
                           "op": op.path.rsplit("::", 1)[-1] if isinstance(op, Var) else repr(op), "rhs": rhs})
            return ()

        def options_default(I_, args):
            return default_options()

        def solve(I_, args):
            M.solved += 1
            M.options = args[1] if len(args) > 1 else None
            sc = M.script
            if sc.get("error"):
                e = sc["error"]
                return Var(ERR_PATHS[0], [Var("microlp::Error::" + e, [Rope(["scripted"])] if e in ("InternalError", "InvalidOptions", "InvalidOperation") else [])])
            return Var(OK_PATHS[0], [Var("microlp::Solution", fields={"status": sc.get("status", "Optimal")})])

        def status(I_, args):
            return Var("microlp::Status::" + M.script.get("status", "Optimal"))

        def objective(I_, args):
            return M.script.get("objective", 0.0)

        def stats(I_, args):
            # microlp 0.5 Stats: the best proven bound and the relative gap, in user space
            sc = M.script
            bb = sc.get("best_bound")
            if bb is None and sc.get("status", "Optimal") == "Optimal":
                bb = sc.get("objective", 0.0)
            obj = sc.get("objective", 0.0)
            gap = None if bb is None else (0.0 if sc.get("status", "Optimal") == "Optimal" else (abs(bb - obj) / abs(obj) if obj else float("inf")))
            opt = lambda v: Var(SOME_PATHS[0], [v]) if v is not None else Var(NONE_PATHS[0])
            return Var("microlp::Stats", fields={"nodes_solved": 7, "lp_iterations": 40, "elapsed": Var("std::time::Duration", fields={"secs": 1, "nanos": 0}), "best_bound": opt(bb), "gap": opt(gap)})

        def var_value(I_, args):
            v = args[1]
            if isinstance(v, MutRef):
                v = v.get()
            i = v.args[0] if isinstance(v, Var) and v.args else None
            vals = M.script.get("values", [])
            return vals[i] if isinstance(i, int) and i < len(vals) else Unknown("value of an unknown column %r" % (v,))

        def sol_iter(I_, args):
            return ListV([(mk_var(i), x) for i, x in enumerate(M.script.get("values", []))])
        I.models.update({
            "microlp::Problem::new": problem_new,
            "microlp::Problem::add_var": add("real"), "microlp::Problem::add_integer_var": add("integer"),
            "microlp::Problem::add_binary_var": lambda I_, a: add("binary")(I_, a),
            "microlp::Problem::add_constraint": add_constraint,
            "<microlp::SolveOptions as std::default::Default>::default": options_default,
            "microlp::Problem::solve_with": solve, "microlp::Problem::solve": solve,
            "microlp::Solution::status": status, "microlp::Solution::objective": objective, "microlp::Solution::var_value": var_value, "microlp::Solution::stats": stats,
            "microlp::Solution::iter": sol_iter,
            "<&microlp::Solution as std::iter::IntoIterator>::into_iter": sol_iter,
            "index:microlp::Solution": var_value,
        })


def default_options():
    """SolveOptions::default() of microlp 0.5 (src/mip/mod.rs)"""
    return Var("microlp::SolveOptions", fields={"time_limit": Var(NONE_PATHS[0]), "node_limit": Var(NONE_PATHS[0]), "mip_gap": 0.0, "int_tol": 1e-6, "warm_start": Var(NONE_PATHS[0]),
                                                "tolerances": Var("microlp::Tolerances", fields={"feasibility": 1e-7, "integrality_rounding": 1e-5, "prune_epsilon": 1e-9})})


def options_diff(got, dflt, prefix=""):
    """names of the fields of `got` that differ from the default"""
    out = []
    if isinstance(dflt, Var) and isinstance(got, Var):
        if got.path != dflt.path or len(got.args) != len(dflt.args):
            return [prefix or "?"]
        for k, v in dflt.fields.items():
            out += options_diff(got.fields.get(k), v, (prefix + "." if prefix else "") + k)
        for i, v in enumerate(dflt.args):
            out += options_diff(got.args[i], v, prefix)
        return out
    if isinstance(got, MutRef):
        got = got.get()
    if isinstance(dflt, (int, float)) and isinstance(got, (int, float)):
        return [] if float(got) == float(dflt) else [prefix]
    return [] if got == dflt else [prefix]


# ------------------------------------------------------------------ model family
def models():
    inf = float("inf")
    out = []

    def m(label, vars_, rows, obj, sense="Min", offset=0.0, real_only=False):
        out.append({"label": label, "vars": vars_, "rows": rows, "obj": obj, "sense": sense, "offset": offset, "real_only": real_only})
    # variable order deliberately not alphabetical, kinds and bounds all different
    V1 = [("z", ("IntegerRange", -2, 7)), ("a", ("Real", -3.5, 4.25)), ("p", ("Boolean",)), ("y", ("NonNegativeReal", 2.0, 10.0)), ("f", ("Real", -inf, inf)), ("n", ("NonNegativeReal", 0.0, inf))]
    R1 = [("cap", [1.0, 2.0, 3.0, 4.0, 5.0, 6.0], "LessOrEqual", 20.5), ("", [0.0, -1.0, 0.0, 2.5, 0.0, 1.0], "GreaterOrEqual", -4.0), ("bal", [1.0, 0.0, -1.0, 0.0, 0.5, 0.0], "Equal", 0.75)]
    m("mixed kinds", V1, R1, [3.0, -1.0, 2.0, 0.5, -4.0, 7.0], "Max", 1.25)
    m("mixed kinds, minimised", V1, R1, [3.0, -1.0, 2.0, 0.5, -4.0, 7.0], "Min", -2.5)
    m("mixed kinds, satisfy", V1, R1, [0.0] * 6, "Satisfy", 0.0)
    V2 = [("y", ("NonNegativeReal", 2.0, 10.0)), ("x", ("Real", -1.0, 1.0)), ("w", ("NonNegativeReal", 0.0, inf)), ("v", ("Real", -inf, 3.0))]
    R2 = [("r1", [1.0, 1.0, 0.0, -2.0], "GreaterOrEqual", 3.0), ("r2", [0.0, 4.0, -1.0, 0.0], "LessOrEqual", 8.0)]
    m("reals with positive lower ends", V2, R2, [2.0, 1.0, -1.0, 0.25], "Min", 0.5, real_only=True)
    m("reals, maximised", V2, R2, [2.0, 1.0, -1.0, 0.25], "Max", 0.0, real_only=True)
    m("one variable", [("x", ("NonNegativeReal", 1.5, 2.5))], [("", [1.0], "LessOrEqual", 2.0)], [1.0], "Max", 0.0, real_only=True)
    m("no rows", [("b", ("Boolean",)), ("k", ("IntegerRange", 3, 4))], [], [1.0, -1.0], "Min", 0.0)
    for md in list(out[:5]):
        out.append(dict(md, label=md["label"] + ", domain declared in another order", domain_order="reversed"))
    return out


def build_model(I, md):
    lm = I.call_fn(LM + "::new", [])
    for name, dom in md["vars"]:
        if dom[0] == "Boolean":
            t = Var(VT + "::Boolean")
        elif dom[0] == "IntegerRange":
            t = Var(VT + "::IntegerRange", [dom[1], dom[2]])
        else:
            t = Var(VT + "::" + dom[0], [float(dom[1]), float(dom[2])])
        r = I.call_fn(LM + "::add_variable", [lm, name, t])
        if is_unknown(r):
            return r
    for name, coeffs, cmp_, rhs in md["rows"]:
        if name:
            r = I.call_fn(LM + "::add_named_constraint", [lm, ListV(list(coeffs)), Var(CMP + cmp_), rhs, name])
        else:
            r = I.call_fn(LM + "::add_constraint", [lm, ListV(list(coeffs)), Var(CMP + cmp_), rhs])
        if is_unknown(r):
            return r
    r = I.call_fn(LM + "::set_objective", [lm, ListV(list(md["obj"])), Var(OPT + md["sense"])])
    if is_unknown(r):
        return r
    if md.get("domain_order") == "reversed":
        # the compile step hands over sorted variables and the domain in declaration order: the two orders are independent
        d = lm.fields.get("domain") if isinstance(lm, Var) else None
        if not isinstance(d, ListV):
            return Unknown("LinearModel has no domain map")
        d.items.reverse()
    if md["offset"]:
        if isinstance(lm, Var) and "objective_offset" in lm.fields:
            lm.fields["objective_offset"] = md["offset"]
        else:
            return Unknown("LinearModel has no objective_offset field")
    return lm


def scripted_values(md):
    """a value per column inside its bounds, all different, integral where the kind is"""
    vals = []
    for k, (name, dom) in enumerate(md["vars"]):
        if dom[0] == "Boolean":
            vals.append(float(k % 2 == 0))
        elif dom[0] == "IntegerRange":
            vals.append(float(min(dom[2], dom[1] + 1 + k)))
        else:
            lo = dom[1] if dom[1] > -1e300 else -7.0 - k
            hi = dom[2] if dom[2] < 1e300 else lo + 9.0 + k
            vals.append(lo + (hi - lo) * (0.25 + 0.1 * (k % 5)))
    return vals


def num_eq(a, b):
    if isinstance(a, MutRef):
        a = a.get()
    if isinstance(a, (int, float)) and isinstance(b, (int, float)) and not isinstance(a, bool):
        return float(a) == float(b) or (a != a and b != b)
    return False


def opt_value(v):
    """python view of Option<T> values"""
    if isinstance(v, Var) and v.path in SOME_PATHS:
        return ("some", v.args[0])
    if isinstance(v, Var) and v.path in NONE_PATHS:
        return ("none", None)
    return ("?", v)


def check(F, R, tier="quick", props=("C04", "C15", "C05")):
    I = Interp(F)
    I.concrete_floats = True
    I.max_depth = 600
    mock = Mock()
    mock.install(I)
    where_m = "packages/rooc/src/solvers/milp_solver.rs"
    where_r = "packages/rooc/src/solvers/simplex/simplex_solver.rs"
    if F.fn(MILP) is None:
        R.undecided("BRIDGE-EQUIV", "milp:anchor", where_m, "solve_milp_lp_problem_with not found")
        return
    R.fn(MILP)
    R.fn(REAL)
    mds = models()
    R.count("BRIDGE-EQUIV.models", len(mds))
    n_runs = 0
    for md in mds:
        for entry, where in ((MILP, where_m), (REAL, where_r)):
            if entry == REAL and (not md["real_only"] or F.fn(REAL) is None):
                continue
            tag = "milp" if entry == MILP else "real"
            key0 = "%s:%s" % (tag, md["label"].replace(" ", "-"))
            vals = scripted_values(md)
            lm = build_model(I, md)
            if is_unknown(lm):
                R.undecided("BRIDGE-EQUIV", key0 + ":model", where, "the model could not be built: %r" % (lm,))
                continue
            mock.reset({"status": "Optimal", "objective": 12.5, "values": vals})
            args = [lm, Var(OPTS, fields={"mip_gap": Var(NONE_PATHS[0]), "time_limit": Var(NONE_PATHS[0])})] if entry == MILP else [lm]
            r = I.call_fn(entry, args)
            n_runs += 1
            if is_unknown(r):
                R.undecided("BRIDGE-EQUIV", key0, where, "bridge not evaluable: %r" % (r,))
                continue
            if md["sense"] == "Satisfy" and entry == REAL:
                continue
            if not (isinstance(r, Var) and r.path in OK_PATHS):
                if "C04" in props:
                    R.ob("BRIDGE-EQUIV", key0 + ":answer", False, where, "the solver answers Optimal and the bridge returns %r" % (r,))
                continue
            sol = r.args[0]
            if "C04" in props:
                # ---- what the solver was given
                want_dir = "Maximize" if md["sense"] == "Max" else "Minimize"
                R.ob("BRIDGE-EQUIV", key0 + ":direction", mock.direction == want_dir, where, "%s is handed to the solver as %s, expected %s" % (md["sense"], mock.direction, want_dir))
                ok_n = len(mock.cols) == len(md["vars"])
                R.ob("BRIDGE-EQUIV", key0 + ":column-count", ok_n, where, "%d columns for %d variables" % (len(mock.cols), len(md["vars"])))
                if ok_n:
                    for i, ((name, dom), col) in enumerate(zip(md["vars"], mock.cols)):
                        want_kind = {"Boolean": "binary", "IntegerRange": "integer"}.get(dom[0], "real")
                        want_b = (0, 1) if dom[0] == "Boolean" else (dom[1], dom[2])
                        got_b = col["bounds"]
                        b_ok = isinstance(got_b, tuple) and len(got_b) == 2 and all(num_eq(x, y) for x, y in zip(got_b, want_b))
                        R.ob("BRIDGE-EQUIV", "%s:column:%s" % (key0, name), col["kind"] == want_kind and (dom[0] == "Boolean" or b_ok) and num_eq(col["coeff"], md["obj"][i]), where,
                             "column %d (variable %s: %s, objective coefficient %r) is created as a %s column with bounds %r and coefficient %r" % (i, name, dom, md["obj"][i], col["kind"], got_b, col["coeff"]))
                ok_r = len(mock.rows) == len(md["rows"])
                R.ob("BRIDGE-EQUIV", key0 + ":row-count", ok_r, where, "%d rows for %d constraints" % (len(mock.rows), len(md["rows"])))
                if ok_r:
                    for j, ((name, coeffs, cmp_, rhs), row) in enumerate(zip(md["rows"], mock.rows)):
                        dense = [0.0] * len(coeffs)
                        bad = not isinstance(row["pairs"], list)
                        if not bad:
                            for ci, c in row["pairs"]:
                                if not isinstance(ci, int) or ci >= len(dense):
                                    bad = True
                                else:
                                    dense[ci] += c
                        want_op = {"LessOrEqual": "Le", "GreaterOrEqual": "Ge", "Equal": "Eq"}[cmp_]
                        R.ob("BRIDGE-EQUIV", "%s:row:%d" % (key0, j), not bad and dense == [float(c) for c in coeffs] and row["op"] == want_op and num_eq(row["rhs"], rhs), where,
                             "row %d (%r %s %r) is handed over as %r %s %r" % (j, coeffs, cmp_, rhs, row["pairs"], row["op"], row["rhs"]))
                # ---- what is made of the answer
                asg = sol.fields.get("assignment") if isinstance(sol, Var) else None
                got = {}
                order = []
                if isinstance(asg, ListV):
                    for a in asg.items:
                        if isinstance(a, Var) and "name" in a.fields:
                            nm = a.fields["name"]
                            nm = nm.text() if isinstance(nm, Rope) else nm
                            order.append(nm)
                            got[nm] = a.fields.get("value")
                R.ob("BRIDGE-EQUIV", key0 + ":assignment-order", order == [n for n, _ in md["vars"]], where, "variables are reported as %s, the model lists %s" % (order, [n for n, _ in md["vars"]]))
                for i, (name, dom) in enumerate(md["vars"]):
                    v = got.get(name)
                    if isinstance(v, Var) and v.args:       # MILPValue::{Real, Int, Bool}
                        kind, raw = v.path.rsplit("::", 1)[-1], v.args[0]
                        want_kind = {"Boolean": "Bool", "IntegerRange": "Int"}.get(dom[0], "Real")
                        want_raw = (vals[i] != 0.0) if want_kind == "Bool" else (int(vals[i]) if want_kind == "Int" else vals[i])
                        ok = kind == want_kind and (raw == want_raw)
                        shown = "%s(%r)" % (kind, raw)
                    else:
                        ok = num_eq(v, vals[i])
                        shown = repr(v)
                    R.ob("BRIDGE-EQUIV", "%s:value:%s" % (key0, name), ok, where, "variable %s (column %d, solver value %r, declared %s) is reported as %s" % (name, i, vals[i], dom, shown))
                val = sol.fields.get("value") if isinstance(sol, Var) else None
                R.ob("BRIDGE-EQUIV", key0 + ":objective", num_eq(val, 12.5 + md["offset"]), where, "the solver's objective 12.5 and the model's constant %r are reported as %r" % (md["offset"], val))
                cons = sol.fields.get("constraints") if isinstance(sol, Var) else None
                if isinstance(cons, ListV) and md["rows"]:
                    acts = {}
                    for c in cons.items:
                        if isinstance(c, tuple) and len(c) == 2:
                            k_ = c[0].text() if isinstance(c[0], Rope) else c[0]
                            acts[k_] = c[1]
                    for name, coeffs, cmp_, rhs in md["rows"]:
                        if not name or name not in acts:
                            continue
                        want = 0.0
                        for c, x in zip(coeffs, vals):
                            want += c * x
                        a = acts[name]
                        a = a.get() if isinstance(a, MutRef) else a
                        R.ob("BRIDGE-EQUIV", "%s:activity:%s" % (key0, name), isinstance(a, (int, float)) and abs(a - want) <= 1e-9 * max(1.0, abs(want)), where, "activity of row %s at the returned values is %r, reported %r" % (name, want, a))
            if "C15" in props and entry == MILP:
                st = sol.fields.get("status") if isinstance(sol, Var) else None
                R.ob("BRIDGE-EQUIV", key0 + ":status:Optimal", isinstance(st, Var) and st.path.endswith("::Optimal"), where, "Status::Optimal is reported as %r" % (st,))
    # ---- verdicts and options on a maximised and a minimised model (the scripts vary): a stopped search with an incumbent
    # that the proven bound does not reach (3 against a bound of 5 when maximising, of 1 when minimising) is Feasible
    md = mds[0]
    vals = scripted_values(md)
    dur = Var("std::time::Duration", fields={"secs": 3, "nanos": 0})
    option_sets = [("none", None, None), ("gap", 0.01, None), ("limit", None, dur), ("gap+limit", 0.001, dur), ("gap-zero", 0.0, None), ("gap-negative", -0.5, None), ("gap-nan", float("nan"), None), ("gap-zero+limit", 0.0, dur),
                   # every magnitude is the caller's: no floor, ceiling or rounding between the option and the solver
                   ("gap-1e-6", 1e-6, None), ("gap-1e-9", 1e-9, dur), ("gap-smallest", 5e-324, None), ("gap-1e-4", 1e-4, None), ("gap-0.75", 0.75, None), ("gap-one", 1.0, None), ("gap-2.5", 2.5, dur), ("gap-infinite", float("inf"), None), ("gap-minus-zero", -0.0, None)]
    if "C15" in props or "C05" in props:
        for (oname, gap, limit), (sense_l, md_s) in [(o_, s_) for o_ in option_sets for s_ in (("", mds[0]), ("min:", mds[1]))]:
            for status in ("Optimal", "Feasible", "Interrupted"):
                if tier != "thorough" and oname not in ("none", "gap", "limit", "gap+limit", "gap-negative") and status != "Feasible":
                    continue
                if sense_l and status != "Feasible":
                    continue
                lm = build_model(I, md_s)
                # the bridge adds the model's constant to the solver's objective: the scripted numbers are the solver's
                mock.reset({"status": status, "objective": 3.0, "values": scripted_values(md_s), "best_bound": None if status != "Feasible" else (5.0 if md_s["sense"] == "Max" else 1.0)})
                o = Var(OPTS, fields={"mip_gap": Var(SOME_PATHS[0], [gap]) if gap is not None else Var(NONE_PATHS[0]), "time_limit": Var(SOME_PATHS[0], [limit]) if limit is not None else Var(NONE_PATHS[0])})
                r = I.call_fn(MILP, [lm, o])
                n_runs += 1
                key = "milp:options:%s%s:%s" % (sense_l, oname, status)
                if is_unknown(r):
                    R.undecided("BRIDGE-EQUIV", key, where_m, "bridge not evaluable: %r" % (r,))
                    continue
                if "C15" in props:
                    # the options the solver received
                    so = mock.options
                    if mock.solved and isinstance(so, Var):
                        g = so.fields.get("mip_gap")
                        want_g = gap if gap is not None else 0.0
                        R.ob("BRIDGE-EQUIV", key + ":gap-forwarded", num_eq(g, want_g), where_m, "mip_gap %r reaches the solver as %r" % (gap, g))
                        tl = opt_value(so.fields.get("time_limit"))
                        R.ob("BRIDGE-EQUIV", key + ":limit-forwarded", (tl[0] == "none") if limit is None else (tl[0] == "some" and tl[1] is limit or (tl[0] == "some" and isinstance(tl[1], Var) and tl[1].fields == limit.fields)), where_m, "time_limit %s reaches the solver as %r" % ("None" if limit is None else "3 s", tl))
                        changed = [k for k in options_diff(so, default_options()) if k not in ("mip_gap", "time_limit")]
                        R.ob("BRIDGE-EQUIV", key + ":nothing-else-set", not changed, where_m, "solver options other than the gap and the limit differ from SolveOptions::default(): %s" % changed)
                    elif not mock.solved:
                        # the bridge may refuse options itself; then it must not answer with a solution
                        R.ob("BRIDGE-EQUIV", key + ":refused-before-solving", isinstance(r, Var) and r.path in ERR_PATHS, where_m, "the solver was not called and the bridge returned %r" % (r,))
                        continue
                    # the verdict
                    if status == "Interrupted":
                        ok = isinstance(r, Var) and r.path in ERR_PATHS and isinstance(r.args[0], Var) and r.args[0].path.endswith("LimitReached")
                        R.ob("BRIDGE-EQUIV", key + ":verdict", ok, where_m, "Status::Interrupted (no usable incumbent) with options %s is reported as %r, expected Err(LimitReached)" % (oname, r))
                    else:
                        st = r.args[0].fields.get("status") if isinstance(r, Var) and r.path in OK_PATHS and isinstance(r.args[0], Var) else None
                        ok = isinstance(st, Var) and st.path.endswith("::" + status)
                        R.ob("BRIDGE-EQUIV", key + ":verdict", ok, where_m, "Status::%s with options %s is reported as %r, expected a solution labelled %s" % (status, oname, st if st is not None else r, status))
        if "C15" in props:
            # the builder's MicroLP solver: options set one after the other, in either order, all reach the bridge
            BS = "builder::solvers::microlp::Microlp"
            SOLVE = "<builder::solvers::microlp::Microlp as builder::solvers::traits::Solver>::solve"
            where_b = "packages/rooc/src/builder/solvers/microlp.rs"
            if all(F.fn(x) is not None for x in (BS + "::new", BS + "::with_mip_gap", BS + "::with_time_limit", SOLVE)):
                for x in (BS + "::new", BS + "::with_mip_gap", BS + "::with_time_limit", SOLVE):
                    R.fn(x)
                for oname, calls in (("gap-then-limit", (("with_mip_gap", 0.015), ("with_time_limit", dur))), ("limit-then-gap", (("with_time_limit", dur), ("with_mip_gap", 0.015))), ("gap-only", (("with_mip_gap", 0.015),)), ("limit-only", (("with_time_limit", dur),)),
                                     ("gap-twice-then-limit", (("with_mip_gap", 0.5), ("with_mip_gap", 0.015), ("with_time_limit", dur)))):
                    sv = I.call_fn(BS + "::new", [])
                    for meth, val in calls:
                        sv = I.call_fn(BS + "::" + meth, [sv, val])
                    lm = build_model(I, md)
                    mock.reset({"status": "Optimal", "objective": 3.0, "values": vals})
                    r = I.call_fn(SOLVE, [sv, lm])
                    n_runs += 1
                    key = "builder-solver:%s" % oname
                    so = mock.options
                    if is_unknown(r) or is_unknown(sv) or not (mock.solved and isinstance(so, Var)):
                        R.undecided("BRIDGE-EQUIV", key, where_b, "builder solver not evaluable: %r / options %r" % (r, so))
                        continue
                    want_gap = 0.015 if any(m_ == "with_mip_gap" for m_, _ in calls) else 0.0
                    want_lim = any(m_ == "with_time_limit" for m_, _ in calls)
                    tl = opt_value(so.fields.get("time_limit"))
                    ok = num_eq(so.fields.get("mip_gap"), want_gap) and ((tl[0] == "some" and isinstance(tl[1], Var) and tl[1].fields == dur.fields) if want_lim else tl[0] == "none")
                    R.ob("BRIDGE-EQUIV", key, ok, where_b, "Microlp::new()%s hands the solver mip_gap %r and time_limit %r" % ("".join(".%s(%s)" % (m_, "3 s" if m_ == "with_time_limit" else v_) for m_, v_ in calls), so.fields.get("mip_gap"), tl))
            else:
                R.undecided("BRIDGE-EQUIV", "builder-solver:anchor", where_b, "Microlp::new / with_mip_gap / with_time_limit / Solver::solve not found")
        if "C05" in props or "C15" in props:
            for err, want in (("Infeasible", "Infeasible"), ("Unbounded", "Unbounded"), ("InternalError", "Other"), ("InvalidOptions", "Other")):
                for entry, where in ((MILP, where_m), (REAL, where_r)):
                    mdx = md if entry == MILP else mds[3]
                    lm = build_model(I, mdx)
                    mock.reset({"error": err})
                    args = [lm, Var(OPTS, fields={"mip_gap": Var(NONE_PATHS[0]), "time_limit": Var(NONE_PATHS[0])})] if entry == MILP else [lm]
                    r = I.call_fn(entry, args)
                    n_runs += 1
                    key = "%s:error:%s" % ("milp" if entry == MILP else "real", err)
                    if is_unknown(r):
                        R.undecided("BRIDGE-EQUIV", key, where, "bridge not evaluable: %r" % (r,))
                        continue
                    got = r.args[0].path.rsplit("::", 1)[-1] if isinstance(r, Var) and r.path in ERR_PATHS and isinstance(r.args[0], Var) else repr(r)
                    R.ob("BRIDGE-EQUIV", key, got == want, where, "the solver's Error::%s is reported as %s, expected SolverError::%s" % (err, got, want))
            # the real bridge reads an infinite / NaN objective as a verdict
            for obj, want in ((float("inf"), "Unbounded"), (float("-inf"), "Unbounded"), (float("nan"), "Infeasible")):
                lm = build_model(I, mds[3])
                mock.reset({"status": "Optimal", "objective": obj, "values": scripted_values(mds[3])})
                r = I.call_fn(REAL, [lm])
                n_runs += 1
                key = "real:objective:%r" % obj
                if is_unknown(r):
                    R.undecided("BRIDGE-EQUIV", key, where_r, "bridge not evaluable: %r" % (r,))
                    continue
                got = r.args[0].path.rsplit("::", 1)[-1] if isinstance(r, Var) and r.path in ERR_PATHS and isinstance(r.args[0], Var) else repr(r)[:80]
                R.ob("BRIDGE-EQUIV", key, got == want, where_r, "an objective of %r from the solver is reported as %s, expected SolverError::%s" % (obj, got, want))
    R.count("BRIDGE-EQUIV.evaluations", n_runs)
