"""PRINT-PARSE: the parenthesisation decision of an expression printer, read as a finite function
of (parent operator, child operator, side), must agree with what the *extracted* grammar and
Pratt table need in order to re-read the same tree.

The printer functions are evaluated by the table interpreter on symbolic operator trees whose
leaves are opaque identifiers; the rendered token string is re-read by a model of the PEG
choice order of `binary_op`/`unary_op` (extracted literals) and of pest's Pratt loop over the
extracted table.  Nothing of rooc is executed.
"""
import itertools
import grammar as G_
from interp import Interp, Var, Rope, Leaf, Sym, ListV, Unknown, is_unknown
from pratt import PrattModel

ARITH = ["Add", "Sub", "Mul", "Div"]
LOGIC = ["And", "Or", "Xor", "Implies", "Iff"]
BINOPS = ARITH + LOGIC
UNOPS = ["Neg", "Not"]


# ---- generic trees ---------------------------------------------------------------
# ('bin', Op, l, r) | ('un', Op, x) | ('leaf', name) | ('block', name, [trees])

def leaves(prefix="v"):
    i = 0
    while True:
        yield ("leaf", "%s%d" % (prefix, i))
        i += 1


def shape(t):
    k = t[0]
    if k == "bin":
        return "%s(%s,%s)" % (t[1], shape(t[2]), shape(t[3]))
    if k == "un":
        return "%s(%s)" % (t[1], shape(t[2]))
    if k == "block":
        return "%s{%s}" % (t[1], ",".join(shape(x) for x in t[2]))
    return "_"


def canon(t):
    """canonical form modulo the real/Boolean identities that make dropped parentheses harmless:
    a+(b±c)=a+b±c, a*(b*/c)=a*b*/c, associativity of and/or/xor/iff"""
    k = t[0]
    if k == "leaf":
        return t
    if k == "un":
        return ("un", t[1], canon(t[2]))
    if k == "block":
        return ("block", t[1], tuple(canon(x) for x in t[2]))
    op = t[1]
    if op in ("Add", "Sub"):
        return ("sum", tuple(_terms(t, +1, ("Add", "Sub"))))
    if op in ("Mul", "Div"):
        return ("prod", tuple(_terms(t, +1, ("Mul", "Div"))))
    if op in ("And", "Or", "Xor", "Iff"):
        return ("nary", op, tuple(_flat(t, op)))
    return ("bin", op, canon(t[2]), canon(t[3]))


def _terms(t, sign, fam):
    if t[0] == "bin" and t[1] in fam:
        inv = fam[1]
        return _terms(t[2], sign, fam) + _terms(t[3], -sign if t[1] == inv else sign, fam)
    return [(sign, canon(t))]


def _flat(t, op):
    if t[0] == "bin" and t[1] == op:
        return _flat(t[2], op) + _flat(t[3], op)
    return [canon(t)]


# ---- reading a rendered string the way the grammar does ------------------------

class Reader:
    def __init__(self, Gm, levels, rule_to_binop, rule_to_unop, block_names=("abs", "min", "max")):
        self.G = Gm
        self.model_levels = levels
        self.rule_to_binop = rule_to_binop
        self.rule_to_unop = rule_to_unop
        self.bin_alts = self._alts("binary_op")
        self.un_alts = self._alts("unary_op")
        self.block_names = block_names

    def _alts(self, rule):
        out = []
        for a in G_.choices(G_.untag(self.G.expr(rule))):
            a = G_.untag(a)
            if a["k"] != "Ident":
                continue
            ex = G_.exact_literals(self.G, self.G.expr(a["v"]))
            if ex is None:
                continue
            out.append((a["v"], ex))
        return out

    def _match_op(self, s, i, alts):
        for rule, lits in alts:  # PEG ordered choice
            for lit, boundary in lits:
                if s.startswith(lit, i):
                    j = i + len(lit)
                    if boundary and j < len(s) and (s[j].isalnum() or s[j] == "_"):
                        continue
                    return rule, j
        return None, i

    def read(self, s):
        """-> generic tree, or raises ValueError"""
        self.s = s
        self.i = 0
        t = self._exp(closers="")
        self._ws()
        if self.i != len(self.s):
            raise ValueError("trailing text %r" % self.s[self.i:])
        return t

    def _ws(self):
        while self.i < len(self.s) and self.s[self.i] in " \t":
            self.i += 1

    def _exp(self, closers):
        toks = []
        expect_operand = True
        while True:
            self._ws()
            if self.i >= len(self.s) or self.s[self.i] in closers:
                break
            if expect_operand:
                rule, j = self._match_op(self.s, self.i, self.un_alts)
                if rule is not None:
                    # unary_op? ~ exp_leaf : exactly one prefix, then a leaf
                    save = self.i
                    self.i = j
                    self._ws()
                    leaf = self._leaf()
                    if leaf is None:
                        self.i = save
                        raise ValueError("prefix operator not followed by a leaf at %d in %r" % (save, self.s))
                    toks.append(("op", rule))
                    toks.append(leaf)
                else:
                    leaf = self._leaf()
                    if leaf is None:
                        raise ValueError("expected operand at %d in %r" % (self.i, self.s))
                    toks.append(leaf)
                expect_operand = False
            else:
                rule, j = self._match_op(self.s, self.i, self.bin_alts)
                if rule is None:
                    raise ValueError("expected binary operator at %d in %r" % (self.i, self.s))
                self.i = j
                toks.append(("op", rule))
                expect_operand = True
        if expect_operand:
            raise ValueError("dangling operator in %r" % self.s)
        pm = PrattModel(self.model_levels)
        tree = pm.parse(toks)
        return self._conv(tree)

    def _leaf(self):
        s = self.s
        if self.i < len(s) and s[self.i] == "(":
            self.i += 1
            t = self._exp(closers=")")
            self._ws()
            if self.i >= len(s) or s[self.i] != ")":
                raise ValueError("unbalanced parenthesis in %r" % s)
            self.i += 1
            return ("group", t)
        j = self.i
        if j < len(s) and s[j] == "\\":
            j += 1
        while j < len(s) and (s[j].isalnum() or s[j] in "_$<>:.'"):
            # '<', '>' delimit opaque leaves rendered by the interpreter as <name>
            j += 1
        if j == self.i:
            return None
        name = s[self.i:j]
        self.i = j
        self._ws()
        if name in self.block_names and self.i < len(s) and s[self.i] == "{":
            self.i += 1
            items = []
            while True:
                items.append(self._exp(closers=",}"))
                self._ws()
                if self.i < len(s) and s[self.i] == ",":
                    self.i += 1
                    continue
                break
            if self.i >= len(s) or s[self.i] != "}":
                raise ValueError("unbalanced block in %r" % s)
            self.i += 1
            return ("group", ("block", name, items))
        return ("leaf", name)

    def _conv(self, t):
        k = t[0]
        if k == "bin":
            op = self.rule_to_binop.get(t[1])
            if op is None:
                raise ValueError("no BinOp for rule " + t[1])
            return ("bin", op, self._conv(t[2]), self._conv(t[3]))
        if k == "un":
            op = self.rule_to_unop.get(t[1])
            if op is None:
                raise ValueError("no UnOp for rule " + t[1])
            return ("un", op, self._conv(t[2]))
        if k == "group":
            return t[1]  # already converted by the recursive _exp
        if k == "block":
            return t
        return t


# ---- enumeration -------------------------------------------------------------------

def pair_trees(binops, unops):
    """all (key, tree) with one parent and one operator child"""
    out = []
    for p in binops:
        for c in binops:
            out.append(("%s>L:%s" % (p, c), ("bin", p, ("bin", c, ("leaf", "a"), ("leaf", "b")), ("leaf", "c"))))
            out.append(("%s>R:%s" % (p, c), ("bin", p, ("leaf", "a"), ("bin", c, ("leaf", "b"), ("leaf", "c")))))
        for u in unops:
            out.append(("%s>L:%s" % (p, u), ("bin", p, ("un", u, ("leaf", "a")), ("leaf", "b"))))
            out.append(("%s>R:%s" % (p, u), ("bin", p, ("leaf", "a"), ("un", u, ("leaf", "b")))))
    for u in unops:
        for c in binops:
            out.append(("%s>:%s" % (u, c), ("un", u, ("bin", c, ("leaf", "a"), ("leaf", "b")))))
        for c in unops:
            out.append(("%s>:%s" % (u, c), ("un", u, ("un", c, ("leaf", "a")))))
    return out


def triple_trees(binops):
    """parent > child > grandchild chains over binary operators, every side combination"""
    out = []
    L = lambda n: ("leaf", n)
    for p, c, g in itertools.product(binops, repeat=3):
        for s1 in "LR":
            for s2 in "LR":
                gg = ("bin", g, L("a"), L("b"))
                cc = ("bin", c, gg, L("c")) if s2 == "L" else ("bin", c, L("c"), gg)
                pp = ("bin", p, cc, L("d")) if s1 == "L" else ("bin", p, L("d"), cc)
                out.append(("%s>%s:%s>%s:%s" % (p, s1, c, s2, g), pp))
    return out


def sub_pairs(t):
    """keys of all parent/child operator pairs inside a tree"""
    out = []
    if t[0] == "bin":
        for side, ch in (("L", t[2]), ("R", t[3])):
            if ch[0] in ("bin", "un"):
                out.append("%s>%s:%s" % (t[1], side, ch[1]))
            out.extend(sub_pairs(ch))
    elif t[0] == "un":
        ch = t[2]
        if ch[0] in ("bin", "un"):
            out.append("%s>:%s" % (t[1], ch[1]))
        out.extend(sub_pairs(ch))
    return out


def run(R, rule, label, trees, render, reader, where, skip_if_pair_fails=None):
    """render every tree, re-read it, compare canonical forms. returns set of failing keys"""
    failing = set()
    n = 0
    for key, t in trees:
        if skip_if_pair_fails is not None and any(k in skip_if_pair_fails for k in sub_pairs(t)):
            continue
        n += 1
        rope = render(t)
        if is_unknown(rope):
            R.ob(rule, "%s:%s" % (label, key), False, where, "printer not evaluable on %s: %s" % (shape(t), rope.why))
            failing.add(key)
            continue
        text = rope.text() if isinstance(rope, Rope) else str(rope)
        try:
            back = reader.read(text)
            ok = canon(back) == canon(t)
            detail = "%s prints as `%s`, which the grammar reads as %s" % (shape(t), text, shape(back))
        except ValueError as e:
            ok = False
            detail = "%s prints as `%s`, which the grammar rejects: %s" % (shape(t), text, e)
        R.ob(rule, "%s:%s" % (label, key), ok, where, detail)
        if len(R.samples) < 12:
            R.sample({"tree": shape(t), "printed": text, "ok": ok})
        if not ok:
            failing.add(key)
    return failing, n
