"""Extraction of the pest Pratt operator table from the HIR, and a model of pest 2.9's Pratt loop
over that *extracted* table (used as the reference for printer/parser agreement)."""
from facts import norm, walk, strip, callee_of

PREC_STEP = 10


def extract_pratt_tables(F):
    """[(fn, levels)] for every `PrattParser::new().op(..)...` chain in the crate.
    levels: list of dicts rule_variant_name -> ('infix', 'Left'|'Right') | ('prefix',) | ('postfix',)"""
    out = []
    for f in F.fn_list:
        if "body" not in f:
            continue
        for n in walk(f["body"]):
            if n.get("k") == "MCall" and n.get("name") == "op" and norm(n.get("callee") or "").endswith("PrattParser::op"):
                # only take the outermost call of a chain
                pass
        chains = []
        for n in walk(f["body"]):
            if n.get("k") == "Call" and norm(n.get("callee") or "").endswith("pratt_parser::PrattParser::new"):
                chains.append(n)
        if not chains:
            continue
        # find the outermost .op() chain: walk MCall nodes whose innermost receiver is the `new` call
        tops = []
        for n in walk(f["body"]):
            if n.get("k") == "MCall" and n.get("name") == "op":
                tops.append(n)
        inner = set()
        for n in tops:
            r = strip(n["recv"])
            if r.get("k") == "MCall" and r.get("name") == "op":
                inner.add(id(r))
        for n in tops:
            if id(n) in inner:
                continue
            levels = []
            cur = n
            ok = True
            while cur.get("k") == "MCall" and cur.get("name") == "op":
                lvl = {}
                if not _ops(strip(cur["args"][0]), lvl):
                    ok = False
                levels.append(lvl)
                cur = strip(cur["recv"])
            if cur.get("k") == "Call" and norm(cur.get("callee") or "").endswith("PrattParser::new") and ok:
                levels.reverse()
                out.append((f, levels))
    return out


def _ops(n, lvl):
    n = strip(n)
    if n.get("k") == "Binary" and n.get("op") == "|":
        return _ops(n["a"], lvl) and _ops(n["b"], lvl)
    if n.get("k") == "Call":
        c = norm(n.get("callee") or "")
        args = [strip(a) for a in n["args"]]
        if c.endswith("pratt_parser::Op::infix") and len(args) == 2:
            rule = args[0].get("path", "?").rsplit("::", 1)[-1]
            assoc = args[1].get("path", "?").rsplit("::", 1)[-1]
            lvl[rule] = ("infix", assoc)
            return True
        if c.endswith("pratt_parser::Op::prefix") and len(args) == 1:
            lvl[args[0].get("path", "?").rsplit("::", 1)[-1]] = ("prefix",)
            return True
        if c.endswith("pratt_parser::Op::postfix") and len(args) == 1:
            lvl[args[0].get("path", "?").rsplit("::", 1)[-1]] = ("postfix",)
            return True
    return False


class PrattModel:
    """pest 2.9 semantics: level i (0-based) has prec 10*(i+2); expr(rbp) loops while rbp < lbp(next);
    infix Left parses its rhs with rbp=prec, Right with prec-1; prefix parses its operand with prec-1."""

    def __init__(self, levels):
        self.ops = {}
        prec = PREC_STEP
        for lvl in levels:
            prec += PREC_STEP
            for rule, aff in lvl.items():
                self.ops[rule] = (aff, prec)

    def parse(self, tokens):
        """tokens: list of ('op', rule) | ('leaf', x) | ('group', tree).  returns tree:
        ('bin', rule, l, r) | ('un', rule, x) | ('leaf', x)"""
        self.toks = list(tokens)
        self.pos = 0
        t = self.expr(0)
        if self.pos != len(self.toks):
            raise ValueError("trailing tokens")
        return t

    def peek(self):
        return self.toks[self.pos] if self.pos < len(self.toks) else None

    def lbp(self):
        t = self.peek()
        if t is None:
            return 0
        if t[0] != "op" or t[1] not in self.ops:
            raise ValueError("expected operator, found %r" % (t,))
        return self.ops[t[1]][1]

    def expr(self, rbp):
        lhs = self.nud()
        while rbp < self.lbp():
            lhs = self.led(lhs)
        return lhs

    def nud(self):
        t = self.peek()
        if t is None:
            raise ValueError("empty")
        self.pos += 1
        if t[0] == "op":
            aff, prec = self.ops.get(t[1], (None, None))
            if aff and aff[0] == "prefix":
                return ("un", t[1], self.expr(prec - 1))
            raise ValueError("expected prefix or primary")
        return t  # leaf or ('group', already-read tree)

    def led(self, lhs):
        t = self.peek()
        self.pos += 1
        aff, prec = self.ops[t[1]]
        if aff[0] == "infix":
            rhs = self.expr(prec if aff[1] == "Left" else prec - 1)
            return ("bin", t[1], lhs, rhs)
        raise ValueError("expected infix")
