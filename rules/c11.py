"""C11 Formatting preserves meaning and is idempotent -- expression printer and token tables.

Decides: PRINT-PARSE for PreExp (Display + to_string_with_precedence), S-TOKENS (Display/FromStr
round trip of every fieldless enum that has both; displayed operator/comparison tokens are in the
language of the grammar rule that maps back to the variant).
Not decided: renderers of iterations/blocks/graphs beyond token agreement; whole-text idempotence.
"""
from facts import norm, base_ty, walk
from interp import Interp, Var, Rope, Sym, ListV, Unknown, is_unknown, OK_PATHS
import printparse as PP
import pratt
import c09
import grammar as G_

PRE = "parser::il::il_exp::PreExp"
SP = "utils::Spanned"


def sp(v):
    return Var(SP, fields={"value": v, "span": Sym("span")})


def to_preexp(t):
    k = t[0]
    if k == "leaf":
        return Var(PRE + "::Variable", [sp(Rope([t[1]]))])
    if k == "bin":
        return Var(PRE + "::BinaryOperation", [sp(Var(c09.BINOP + "::" + t[1])), to_preexp(t[2]), to_preexp(t[3])])
    if k == "un":
        return Var(PRE + "::UnaryOperation", [sp(Var(c09.UNOP + "::" + t[1])), to_preexp(t[2])])
    raise ValueError(k)


def make_reader(F, R, Gm):
    tabs = pratt.extract_pratt_tables(F)
    if len(tabs) != 1:
        R.ob("PRINT-PARSE", "pratt-table", False, "", "expected exactly one Pratt table, found %d" % len(tabs))
        return None
    maps = c09.rule_maps(F, R)
    if len(maps["bin"]) != 1 or len(maps["un"]) != 1:
        R.ob("PRINT-PARSE", "rule-maps", False, "", "expected one Rule->BinOp and one Rule->UnOp mapping", undecided=True)
        return None
    r2b = {r: v.rsplit("::", 1)[-1] for r, v in maps["bin"][0][2].items()}
    r2u = {r: v.rsplit("::", 1)[-1] for r, v in maps["un"][0][2].items()}
    return PP.Reader(Gm, tabs[0][1], r2b, r2u)


def check(F, R, Gm):
    reader = make_reader(F, R, Gm)
    I = Interp(F)
    if reader is not None:
        fn = F.fn(PRE + "::to_string_with_precedence")
        where = F.loc(fn) if fn else "packages/rooc/src/parser/il/il_exp.rs"
        R.fn(PRE + "::to_string_with_precedence")
        R.fn("<%s as std::fmt::Display>::fmt" % PRE)
        render = lambda t: I.display(to_preexp(t))
        pairs = PP.pair_trees(PP.BINOPS, PP.UNOPS)
        failing, n1 = PP.run(R, "PRINT-PARSE", "PreExp", pairs, render, reader, where)
        triples = PP.triple_trees(PP.BINOPS)
        f3, n3 = PP.run(R, "PRINT-PARSE", "PreExp", triples, render, reader, where, skip_if_pair_fails=failing)
        R.notes.append("PRINT-PARSE PreExp: %d parent/child pairs, %d grandchild chains whose pairs all pass; failing pairs: %s" % (n1, n3, sorted(failing)))
        # precedence() must be order-isomorphic to the Pratt levels; is_left_associative must agree
        levels = reader.model_levels
        lvl_of = {}
        for i, l in enumerate(levels):
            for r, a in l.items():
                lvl_of[r] = (i, a)
        for kind, enum, rmap in (("bin", c09.BINOP, reader.rule_to_binop), ("un", c09.UNOP, reader.rule_to_unop)):
            inv = {v: r for r, v in rmap.items()}
            precs = {}
            for v in F.variants(enum):
                p = I.call_fn(enum + "::precedence", [Var(enum + "::" + v)])
                la = I.call_fn(enum + "::is_left_associative", [Var(enum + "::" + v)])
                precs[v] = p
                r = inv.get(v)
                if r is None or r not in lvl_of:
                    R.ob("T-PREC", "%s::%s" % (enum.rsplit("::", 1)[-1], v), False, "packages/rooc/src/math/operators.rs", "no grammar rule maps to this operator")
                    continue
                aff = lvl_of[r][1]
                want_left = (aff[0] == "infix" and aff[1] == "Left")
                R.ob("T-ASSOC", "%s::%s" % (enum.rsplit("::", 1)[-1], v), la == want_left, "packages/rooc/src/math/operators.rs",
                     "is_left_associative() = %r, Pratt table says %s" % (la, aff))
            allv = [(v, precs[v], lvl_of[inv[v]][0]) for v in precs if inv.get(v) in lvl_of]
            for (v1, p1, l1) in allv:
                for (v2, p2, l2) in allv:
                    if v1 < v2:
                        ok = isinstance(p1, int) and isinstance(p2, int) and ((p1 < p2) == (l1 < l2)) and ((p1 == p2) == (l1 == l2))
                        R.ob("T-PREC", "%s:%s~%s" % (enum.rsplit("::", 1)[-1], v1, v2), ok, "packages/rooc/src/math/operators.rs",
                             "precedence() %s=%r %s=%r vs Pratt levels %d, %d" % (v1, p1, v2, p2, l1, l2))
    tokens(F, R, Gm, I, reader)


def fieldless_enums(F):
    out = []
    for p, e in F.enums.items():
        if e["variants"] and all(v["ctor"] == "Some(Const)" or not v["fields"] for v in e["variants"]):
            out.append(p)
    return out


def tokens(F, R, Gm, I, reader):
    """Display/FromStr agreement for every fieldless enum that has both"""
    disp = {base_ty(i["self_ty"]): i for i in F.impls_of("std::fmt::Display")}
    disp.update({base_ty(i["self_ty"]): i for i in F.impls_of("core::fmt::Display")})
    fromstr = {}
    for i in F.items["impls"]:
        if i.get("trait") in ("std::str::FromStr", "core::str::FromStr"):
            for m in i["methods"]:
                if m["name"] == "from_str":
                    fromstr[base_ty(i["self_ty"])] = m["path"]
    n = 0
    for e in sorted(fieldless_enums(F)):
        if e not in disp or e not in fromstr:
            continue
        n += 1
        R.fn(fromstr[e])
        for v in F.variants(e):
            val = Var(e + "::" + v)
            rope = I.display(val)
            where = "packages/rooc/" + F.enums[e]["file"]
            if is_unknown(rope):
                R.ob("S-TOKENS", "%s::%s" % (e, v), False, where, "Display not evaluable: %s" % rope.why)
                continue
            text = rope.text()
            back = I.call_fn(fromstr[e], [Rope([text])])
            ok = isinstance(back, Var) and back.path in OK_PATHS and back.args and back.args[0] == val
            if not ok and isinstance(back, Var) and back.path in OK_PATHS:
                detail = "Display gives %r which from_str reads back as %r" % (text, back.args[0])
            else:
                detail = "Display gives %r, from_str gives %r" % (text, back)
            # trailing blanks are trimmed by the grammar (WHITESPACE is implicit)
            if not ok and text != text.strip():
                back2 = I.call_fn(fromstr[e], [Rope([text.strip()])])
                ok = isinstance(back2, Var) and back2.path in OK_PATHS and back2.args and back2.args[0] == val
            R.ob("S-TOKENS", "%s::%s" % (e.rsplit("::", 1)[-1], v), ok, where, detail)
    R.count("S-TOKENS.enums", n)
    # displayed tokens are in the language of the grammar rule that maps back to the variant
    if reader is not None:
        for kind, enum, rmap, alts in (("bin", c09.BINOP, reader.rule_to_binop, reader.bin_alts), ("un", c09.UNOP, reader.rule_to_unop, reader.un_alts)):
            inv = {v: r for r, v in rmap.items()}
            lit_of = {r: [l for l, _ in lits] for r, lits in alts}
            for v in F.variants(enum):
                rope = I.display(Var(enum + "::" + v))
                text = rope.text().strip() if not is_unknown(rope) else None
                r = inv.get(v)
                ok = text is not None and r in lit_of and text in lit_of[r]
                R.ob("S-TOKENS", "grammar:%s::%s" % (enum.rsplit("::", 1)[-1], v), ok, "packages/rooc/src/math/operators.rs",
                     "Display gives %r; grammar rule %s accepts %s" % (text, r, lit_of.get(r)))
        cmp_enum = "math::math_enums::Comparison"
        if cmp_enum in F.enums:
            lits = G_.exact_literals(Gm, Gm.expr("comparison"))
            lits = [l for l, _ in lits] if lits else []
            for v in F.variants(cmp_enum):
                rope = I.display(Var(cmp_enum + "::" + v))
                text = rope.text().strip() if not is_unknown(rope) else None
                # PEG ordered choice must select exactly this literal for this text
                sel = next((l for l in lits if text is not None and text.startswith(l)), None)
                R.ob("S-TOKENS", "grammar:Comparison::" + v, text is not None and sel == text, "packages/rooc/src/math/math_enums.rs",
                     "Display gives %r; grammar `comparison` would consume %r" % (text, sel))
