"""Family D: CFG, dominators, reachability and call-graph helpers over the MIR facts."""
from facts import norm


class Cfg:
    def __init__(self, body):
        self.body = body
        self.blocks = body["blocks"]
        self.n = len(self.blocks)
        self.succ = [[] for _ in range(self.n)]
        for b in self.blocks:
            self.succ[b["i"]] = self._succ(b)
        self.pred = [[] for _ in range(self.n)]
        for i, ss in enumerate(self.succ):
            for s in ss:
                self.pred[s].append(i)
        self._idom = None

    @staticmethod
    def _succ(b):
        """normal (non-unwind) successors"""
        t = b["term"]
        k = t["k"]
        if k == "Goto":
            return [t["target"]]
        if k == "SwitchInt":
            out = [v[1] for v in t["vals"]] + [t["otherwise"]]
            seen = []
            for x in out:
                if x not in seen:
                    seen.append(x)
            return seen
        if k in ("Drop", "Assert"):
            return [t["target"]]
        if k == "Call":
            return [t["target"]] if t.get("target") is not None else []
        return []

    def reachable_from(self, start, stop=()):
        seen = set()
        todo = [start]
        while todo:
            x = todo.pop()
            if x in seen or x in stop:
                continue
            seen.add(x)
            todo.extend(self.succ[x])
        return seen

    def idom(self):
        """immediate dominators (Cooper-Harvey-Kennedy) over blocks reachable from bb0"""
        if self._idom is not None:
            return self._idom
        order = []
        seen = set()

        def dfs(u):
            stack = [(u, iter(self.succ[u]))]
            seen.add(u)
            while stack:
                node, it = stack[-1]
                adv = False
                for v in it:
                    if v not in seen:
                        seen.add(v)
                        stack.append((v, iter(self.succ[v])))
                        adv = True
                        break
                if not adv:
                    order.append(node)
                    stack.pop()

        dfs(0)
        rpo = list(reversed(order))
        idx = {b: i for i, b in enumerate(rpo)}
        idom = {0: 0}
        changed = True
        while changed:
            changed = False
            for b in rpo[1:]:
                preds = [p for p in self.pred[b] if p in idom]
                if not preds:
                    continue
                new = preds[0]
                for p in preds[1:]:
                    a, c = p, new
                    while a != c:
                        while idx[a] > idx[c]:
                            a = idom[a]
                        while idx[c] > idx[a]:
                            c = idom[c]
                    new = a
                if idom.get(b) != new:
                    idom[b] = new
                    changed = True
        self._idom = idom
        return idom

    def dominates(self, a, b):
        """block a dominates block b"""
        idom = self.idom()
        if b not in idom:
            return True  # unreachable block: vacuous
        x = b
        while True:
            if x == a:
                return True
            if x == 0:
                return a == 0
            x = idom[x]

    def calls(self):
        """(block index, terminator) of every call terminator"""
        for b in self.blocks:
            t = b["term"]
            if t["k"] == "Call":
                yield b["i"], t

    def back_edges(self):
        out = []
        for u in range(self.n):
            for v in self.succ[u]:
                if self.dominates(v, u) and u in self.idom():
                    out.append((u, v))
        return out


def callee(t):
    """normalised resolved callee of a Call terminator (impl item when resolved)"""
    return norm(t.get("resolved") or t.get("fn") or "")


def trait_callee(t):
    return norm(t.get("fn") or "")


def closures_created(body):
    """closure def paths whose Aggregate is built in this body: [(block, path)]"""
    out = []
    for b in body["blocks"]:
        for s in b["stmts"]:
            rv = s["rv"]
            if rv.get("k") == "Aggregate" and rv.get("ak") == "Closure":
                out.append((b["i"], rv["closure"]))
    return out


class CallGraph:
    """whole-crate call graph over MIR bodies; dyn/unresolved trait calls expand to all local impls"""

    def __init__(self, F):
        self.F = F
        self.edges = {}
        self.sites = {}
        impls_by_trait_item = {}
        for imp in F.items["impls"]:
            for m in imp["methods"]:
                ti = m.get("trait_item")
                if ti:
                    impls_by_trait_item.setdefault(norm(ti), []).append(m["path"])
        self.impls_by_trait_item = impls_by_trait_item
        self.norm_index = {}
        for p in F.mir:
            self.norm_index.setdefault(norm(p), p)
        for p, body in F.mir.items():
            outs = set()
            for b in body["blocks"]:
                t = b["term"]
                if t["k"] == "Call":
                    for tgt in self.targets_of(t):
                        outs.add(tgt)
                    for a in t.get("args", []):
                        self._fnrefs(a, outs)
                    if "fnptr" in t:
                        pass
                for s in b["stmts"]:
                    rv = s["rv"]
                    if rv.get("k") == "Aggregate":
                        if rv.get("ak") == "Closure":
                            outs.add(rv["closure"])
                        for o in rv.get("ops", []):
                            self._fnrefs(o, outs)
                    elif rv.get("k") in ("Use", "Cast", "Repeat", "UnaryOp"):
                        self._fnrefs(rv.get("a"), outs)
            self.edges[p] = outs

    def _fnrefs(self, op, outs):
        if isinstance(op, dict) and op.get("k") == "const":
            if "fn" in op:
                for tgt in self.targets_of(op):
                    outs.add(tgt)
            if "closure" in op:
                outs.add(op["closure"])

    def targets_of(self, t):
        """possible local bodies (and the raw callee name) a call/fn-ref may reach"""
        out = []
        r = t.get("resolved")
        f = t.get("fn")
        if r:
            out.append(self.norm_index.get(norm(r), r))
        elif f:
            nf = norm(f)
            if t.get("virtual") or t.get("unresolved") or nf in self.impls_by_trait_item:
                for imp in self.impls_by_trait_item.get(nf, []):
                    out.append(imp)
            out.append(self.norm_index.get(nf, f))
        if t.get("virtual") and f:
            for imp in self.impls_by_trait_item.get(norm(f), []):
                if imp not in out:
                    out.append(imp)
        return out

    def reachable(self, roots):
        seen = set()
        todo = list(roots)
        parent = {}
        while todo:
            x = todo.pop()
            if x in seen:
                continue
            seen.add(x)
            for y in self.edges.get(x, ()):
                if y not in seen:
                    parent.setdefault(y, x)
                    todo.append(y)
        self.parent = parent
        return seen

    def path_to(self, target):
        out = [target]
        while out[-1] in getattr(self, "parent", {}):
            out.append(self.parent[out[-1]])
            if len(out) > 60:
                break
        return list(reversed(out))
