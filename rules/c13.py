"""C13 Standard-form conversion preserves the problem -- structure of the standardizer.

Decides: T-BOUNDROWS, W-PUSHPAIR, T-SLACK, T-FLIP, S-SPLIT (writer = reader prefixes),
SIGN-SPLIT on the right-hand-side normalisation.  Not decided: point-wise equivalence.
"""
import re
from facts import norm, base_ty, walk, strip, sexp
from flow import LocalFlow, pat_binds, free_locals
import table
import c04
import c12

STD = "transformers::standardizer::to_standard_form"
NORM = "transformers::standardizer::normalize_constraint"
VT = c04.VT
CMP = c04.CMP
OPT = c04.OPT


def templates(F, files):
    out = []
    for f in F.fn_list:
        if "body" not in f or f.get("file") not in files:
            continue
        for n in walk(f["body"]):
            if n.get("k") == "Macro" and n.get("name") == "format":
                m = re.search(r'format!\s*\(\s*"((?:[^"\\]|\\.)*)"', n.get("snippet", ""))
                if m and m.group(1).startswith("$"):
                    out.append((f, n, m.group(1)))
    return out


def top_level_stmts(block):
    b = strip(block)
    out = list(b.get("stmts", []))
    if b.get("e") is not None:
        out.append({"k": "Expr", "e": b["e"]})
    return out


def check(F, R):
    f = F.fn(STD)
    if f is None:
        R.ob("T-BOUNDROWS", "anchor", False, "", "to_standard_form not found")
        return
    R.fn(STD)
    bound_rows(F, R, f)
    push_pair(F, R, f)
    slack(F, R, f)
    s_split(F, R)
    sign_rhs(F, R)
    t_remove(F, R)
    import c13rt
    from props import get_grammar
    c13rt.check(F, R, get_grammar())


def bound_rows(F, R, f):
    n_rows = 0
    for m in [n for n in walk(f["body"]) if n.get("k") == "Match" and table.scrut_type(F, n) == VT]:
        am = c04.arm_map(F, m, VT)
        for v in ("Real", "NonNegativeReal"):
            arm, alt = am.get(v, (None, None))
            if arm is None or alt.get("k") != "PTupleStruct" or None in c04._binder_ids(alt) or len(c04._binder_ids(alt)) != 2:
                continue
            inner = [x for x in walk(arm["body"]) if x.get("k") == "Match" and strip(x["scrut"]).get("k") == "Tup"]
            if len(inner) != 1:
                R.ob("T-BOUNDROWS", v + ":shape", False, F.loc(f, arm["body"]), "expected one inner match over (min, max)")
                continue
            inner = inner[0]
            outer_ids = c04._binder_ids(alt)
            scr = strip(inner["scrut"])["es"]
            # position of min / max in the scrutinee tuple
            pos = {}
            for k, e in enumerate(scr):
                fl = free_locals(e)
                if fl == {outer_ids[0]}:
                    pos[k] = "min"
                elif fl == {outer_ids[1]}:
                    pos[k] = "max"
            default = "f64::NEG_INFINITY" if v == "Real" else "0.0"
            for ia in inner["arms"]:
                p = ia["pat"]
                if p.get("k") != "PTuple":
                    continue
                role = {}
                for k, sp in enumerate(p["pats"]):
                    for i, _ in pat_binds(sp):
                        role[i] = pos.get(k)
                rows = [x for x in walk(ia["body"]) if x.get("k") == "Call" and norm(x.get("callee") or "").endswith("LinearConstraint::new")]
                if not role:
                    # literal arm (default range): must add no row
                    R.ob("T-BOUNDROWS", "%s:default-arm" % v, not rows, F.loc(f, ia["body"]), "the default-range arm %s must add no bound row" % sexp(p))
                    lits = [sexp(x).rsplit("::", 1)[-1] for x in p["pats"]]
                    want = [default.rsplit("::", 1)[-1] if pos.get(k) == "min" else "INFINITY" for k in range(len(lits))]
                    R.ob("T-BOUNDROWS", "%s:default-range" % v, lits == want, F.loc(f, ia["body"]), "default range pattern %s, expected %s" % (lits, want))
                    continue
                for row in rows:
                    n_rows += 1
                    cmpv = sexp(row["args"][1]).rsplit("::", 1)[-1]
                    rhs_ids = free_locals(row["args"][2])
                    rhs_role = role.get(next(iter(rhs_ids))) if len(rhs_ids) == 1 else None
                    want_cmp = {"min": "GreaterOrEqual", "max": "LessOrEqual"}.get(rhs_role)
                    # guard: enclosing If tests the same end-point against its infinite/default value
                    guard = None
                    for i in walk(ia["body"]):
                        if i.get("k") == "If" and any(x is row for x in walk(i["then"])):
                            guard = i["cond"]
                    g_ok = False
                    if guard is not None:
                        # exactly `<end-point> != <its default/infinite value>`: any extra conjunct would drop
                        # a needed bound row (e.g. `min != 0.0` for a Real variable, whose split halves do
                        # not keep x >= 0)
                        gs = strip(guard)
                        if gs.get("k") == "Binary" and gs["op"] == "!=" and free_locals(gs["a"]) == rhs_ids and not free_locals(gs["b"]):
                            cst = sexp(strip(gs["b"])).rsplit("::", 1)[-1]
                            want_c = ("NEG_INFINITY" if v == "Real" else "0.0") if rhs_role == "min" else "INFINITY"
                            g_ok = cst == want_c
                    R.ob("T-BOUNDROWS", "%s:%s-row" % (v, rhs_role), want_cmp is not None and cmpv == want_cmp and g_ok, F.loc(f, row),
                         "bound row `%s` : a finite %s must give a %s row guarded by its own finiteness test (guard: %s)" % (sexp(row), rhs_role, want_cmp, sexp(guard) if guard else None))
                # unit coefficient at the variable's own index
                units = [x for x in walk(ia["body"]) if x.get("k") == "Assign" and strip(x["lhs"]).get("k") == "Index"]
                loopvar = None
                for lp in walk(f["body"]):
                    if lp.get("k") == "For" and any(x is m for x in walk(lp["body"])):
                        b = pat_binds(lp["pat"])
                        loopvar = b[0][0] if b else None
                ok = len(units) == 1 and free_locals(strip(units[0]["lhs"])["i"]) == {loopvar} and sexp(units[0]["rhs"]) == "1.0"
                R.ob("T-BOUNDROWS", "%s:unit-coefficient" % v, ok, F.loc(f, ia["body"]), "bound rows need coefficient 1.0 at the variable's own index: %s" % [sexp(u) for u in units])
    R.ob("T-BOUNDROWS", "rows", n_rows == 4, F.loc(f), "expected 4 bound-row constructions (min/max for Real and NonNegativeReal), found %d" % n_rows)


def push_pair(F, R, f):
    """inside the loop over the free variables every container gets exactly two unconditional
    appends, (+c, -c) / ($p, $m), in that order"""
    loops = [n for n in walk(f["body"]) if n.get("k") == "For" and any(x.get("k") == "Macro" and "$p" in x.get("snippet", "") for x in walk(n["body"]))]
    if not R.ob("W-PUSHPAIR", "loop", len(loops) == 1, F.loc(f), "expected one loop splitting the free variables, found %d" % len(loops)):
        return
    lp = loops[0]
    iter_ids = free_locals(lp["iter"])
    groups = {}

    def collect(stmts, conditional):
        for s in stmts:
            e = strip(s.get("e") or s.get("init") or {})
            if not e:
                continue
            if e.get("k") == "MCall" and e["name"] == "push":
                groups.setdefault(sexp(strip(e["recv"])), []).append((e, conditional))
            elif e.get("k") == "MCall" and e["name"] == "for_each" and e["args"] and strip(e["args"][0]).get("k") == "Closure":
                collect(top_level_stmts(strip(e["args"][0])["body"]), conditional)
            elif e.get("k") in ("If", "Match"):
                for x in walk(e):
                    if x.get("k") == "MCall" and x["name"] == "push":
                        groups.setdefault(sexp(strip(x["recv"])), []).append((x, True))

    collect(top_level_stmts(lp["body"]), False)
    R.table("pushpair_containers", {k: [sexp(p[0]["args"][0]) for p in v] for k, v in groups.items()})
    want_containers = 3
    R.ob("W-PUSHPAIR", "containers", len(groups) == want_containers, F.loc(f, lp), "containers appended to in the split loop: %s (variables, every constraint, objective expected)" % sorted(groups))
    lf = LocalFlow(f["body"])
    for recv, ps in sorted(groups.items()):
        uncond = all(not c for _, c in ps)
        ok = len(ps) == 2 and uncond
        detail = "%s receives %d append(s)%s" % (recv, len(ps), "" if uncond else " (some conditional)")
        if ok:
            a0, a1 = strip(ps[0][0]["args"][0]), strip(ps[1][0]["args"][0])
            t0, t1 = sexp(a0), sexp(a1)
            if a1.get("k") == "Unary" and a1["op"] == "-":
                ok = sexp(strip(a1["a"])) == t0 and not (a0.get("k") == "Unary" and a0["op"] == "-")
                detail += "; pair (%s, %s) must be (+c, -c) of the same coefficient" % (t0, t1)
            else:
                # names: first derives from the $p template, second from $m
                d0 = " ".join(sexp(d) for i in free_locals(a0) for d in lf.defs.get(i, []))
                d1 = " ".join(sexp(d) for i in free_locals(a1) for d in lf.defs.get(i, []))
                ok = "$p" in d0 and "$m" in d1
                detail += "; names (%s, %s) must be ($p.., $m..)" % (t0, t1)
        R.ob("W-PUSHPAIR", "pair:" + recv, ok, F.loc(f, ps[0][0]), "exactly two unconditional appends per free variable are required (a skipped zero coefficient misaligns every later column): " + detail)
    # the four removals use the same index list
    rem = []
    for n in walk(f["body"]):
        if n.get("k") == "Call" and norm(n.get("callee") or "").endswith("remove_many"):
            rem.append(free_locals(n["args"][1]))
        if n.get("k") == "MCall" and n["name"] == "remove_coefficients_by_index":
            rem.append(free_locals(n["args"][0]))
        if n.get("k") == "For" and any(x.get("k") == "MCall" and x["name"] == "shift_remove" for x in walk(n["body"])):
            rem.append(free_locals(n["iter"]))
    R.ob("W-PUSHPAIR", "removals", len(rem) == 4 and all(r == iter_ids for r in rem), F.loc(f), "the 4 removals (constraints, domain, variables, objective) must use the index list of the split loop; found %d using %s" % (len(rem), rem))
    # removals come after the split loop, and the free list is computed before any append
    R.ob("W-PUSHPAIR", "total_variables", any(n.get("k") == "AssignOp" and "total_variables" in sexp(n["lhs"]) and sexp(n["rhs"]) == "1" for n in walk(lp["body"])), F.loc(f, lp), "each split adds a net of one column to total_variables")


def slack(F, R, f):
    g = F.fn(NORM)
    if g is None:
        R.ob("T-SLACK", "anchor", False, "", "normalize_constraint not found")
        return
    R.fn(NORM)
    ms = [n for n in walk(g["body"]) if n.get("k") == "Match" and table.scrut_type(F, n) == CMP]
    if not R.ob("T-SLACK", "table", len(ms) == 1, F.loc(g), "expected one match over the comparison"):
        return
    am = c04.arm_map(F, ms[0], CMP)
    want = {"Equal": (None, None), "LessOrEqual": ("1.0", "$sl_"), "GreaterOrEqual": ("-1.0", "$su_")}
    for v in F.variants(CMP):
        arm, _ = am.get(v, (None, None))
        if arm is None:
            R.ob("T-SLACK", v, False, F.loc(g), "no arm")
            continue
        if v not in want:
            R.ob("T-SLACK", v, c04.diverges_err(arm["body"]) or table.head(arm["body"])[1].endswith("Result::Err"), F.loc(g, arm["body"]), "strict comparison must be rejected")
            continue
        pushes = [sexp(x["args"][0]) for x in walk(arm["body"]) if x.get("k") == "MCall" and x["name"] == "push"]
        names = [x["snippet"] for x in walk(arm["body"]) if x.get("k") == "Macro" and x.get("name") == "format"]
        resize = [x for x in walk(arm["body"]) if x.get("k") == "MCall" and x["name"] == "resize"]
        coef, prefix = want[v]
        if coef is None:
            ok = not pushes and not names
        else:
            ok = pushes == [coef] and len(names) == 1 and prefix in names[0] and len(resize) == 1 and "total_variables" in sexp(resize[0]["args"][0])
        R.ob("T-SLACK", v, ok, F.loc(g, arm["body"]), "Comparison::%s: slack/surplus coefficient %s named %s (expected %s with prefix %s, after padding to total_variables)" % (v, pushes, names, coef, prefix))
    # caller: total_variables += 1 per added column
    R.ob("T-SLACK", "caller:total_variables", any(n.get("k") == "If" and "added_variable" in sexp(n["cond"]) and any(x.get("k") == "AssignOp" and "total_variables" in sexp(x["lhs"]) for x in walk(n["then"])) for n in walk(f["body"])), F.loc(f), "an added slack/surplus column must bump total_variables")
    # objective flip
    for m in [n for n in walk(f["body"]) if n.get("k") == "Match" and table.scrut_type(F, n) == OPT]:
        am = c04.arm_map(F, m, OPT)
        for v, (neg, flag) in {"Max": (True, "true"), "Min": (False, "false")}.items():
            arm, _ = am.get(v, (None, None))
            t = strip(arm["body"]) if arm else {}
            ok = t.get("k") == "Tup" and len(t["es"]) == 3
            if ok:
                obj, fl = sexp(t["es"][1]), sexp(t["es"][2])
                ok = (("-1.0" in obj) == neg) and fl == flag and "objective_offset" in sexp(t["es"][0]) and "-" not in sexp(t["es"][0])
            R.ob("T-FLIP", v, ok, F.loc(f, m), "OptimizationType::%s -> %s (Max negates the objective and sets the flip flag, the offset is never negated)" % (v, sexp(t)[:140]))
        arm, _ = am.get("Satisfy", (None, None))
        R.ob("T-FLIP", "Satisfy", arm is not None and c04.diverges_err(arm["body"]), F.loc(f, m), "Satisfy must be rejected by the standardizer")


def s_split(F, R):
    """writer and reader of the generated column names agree"""
    writer = set()
    for f, n, t in templates(F, ("src/transformers/standardizer.rs", "src/transformers/standard_linear_model.rs")):
        writer.add(t.split("{")[0])
        R.fn(f["path"])
    reader = F.fn("solvers::simplex::optimal_tableau::OptimalTableau::as_lp_solution")
    rd = set()
    if reader is not None:
        import c04
        rd = c04.dollar_literals(F, reader)
    R.table("generated_column_prefixes", {"writer": sorted(writer), "reader": sorted(rd)})
    R.ob("S-SPLIT", "writer=reader", writer == rd and writer == {"$p", "$m", "$sl_", "$su_", "$a_"}, "packages/rooc/src/transformers/standardizer.rs",
         "column-name prefixes generated by the standardizer/two-phase start %s must be exactly the ones the tableau read-back understands %s" % (sorted(writer), sorted(rd)), undecided=(not writer or not rd))


def sign_rhs(F, R):
    f = F.fn("transformers::standard_linear_model::EqualityConstraint::new")
    if f is None:
        R.ob("SIGN-SPLIT", "EqualityConstraint::new:anchor", False, "", "not found", undecided=True)
        return
    R.fn(f["path"])
    ms = [n for n in walk(f["body"]) if n.get("k") in ("Match", "If")]
    tol = [sexp(x) for n in ms for x in walk(n.get("scrut") or n.get("cond")) if x.get("k") == "Call" and norm(x.get("callee") or "") in c12.TOLERANT]
    R.ob("SIGN-SPLIT", "EqualityConstraint::new:rhs", not tol, F.loc(f),
         "the right-hand side is made non-negative only when the tolerant %s holds: a right-hand side in (-1e-5, 0) stays negative in the standard form" % tol)
    # the flip negates both sides
    neg = [n for n in walk(f["body"]) if n.get("k") == "Struct" and any(fl["name"] == "rhs" and sexp(fl["e"]).startswith("-") for fl in n["fields"])]
    ok = len(neg) == 1 and any(fl["name"] == "coefficients" and "-1.0" in sexp(fl["e"]) for fl in neg[0]["fields"])
    R.ob("T-FLIP", "EqualityConstraint::new:both-sides", ok, F.loc(f), "when the right-hand side is negated every coefficient must be negated too")


# ---- T-REMOVE -----------------------------------------------------------------------------------------
# remove_many drops the original columns of split free variables from the names, the objective and every row.  It never
# looks at the elements, only at positions, so its behaviour on all vectors of a given length is decided by the index
# set alone: the body is evaluated by the table interpreter on vectors of distinct symbols of every length up to 6 and
# every ascending index subset (2^0 + ... + 2^6 = 127 cases) and must return exactly the elements at the other positions.

def t_remove(F, R):
    import itertools
    from interp import Interp, ListV, Leaf, is_unknown
    p = "utils::remove_many"
    f = F.fn(p)
    if not R.ob("T-REMOVE", "anchor", f is not None and "body" in f, "packages/rooc/src/utils.rs", "remove_many found"):
        return
    R.fn(p)
    I = Interp(F)
    bad = None
    n = 0
    for ln in range(0, 7):
        for k in range(0, ln + 1):
            for idx in itertools.combinations(range(ln), k):
                n += 1
                v = ListV([Leaf("e%d" % i) for i in range(ln)])
                r = I.call_fn(p, [v, ListV(list(idx))])
                if is_unknown(r):
                    bad = "not evaluable: %r" % (r,)
                    break
                got = [x.name for x in v.items]
                want = ["e%d" % i for i in range(ln) if i not in idx]
                if got != want:
                    bad = "remove_many(%s, %s) leaves %s, expected %s" % (["e%d" % i for i in range(ln)], list(idx), got, want)
                    break
            if bad:
                break
        if bad:
            break
    R.ob("T-REMOVE", "positions", bad is None, F.loc(f), "evaluated on %d (length, index set) cases: %s" % (n, bad or "exactly the listed positions are removed, order kept"))
    # the callers pass the same index list for names, objective and rows
    st = F.fn("transformers::standardizer::to_standard_form") or next((F.fns[q] for q in F.fns if q.startswith("transformers::standardizer::") and any(c.get("k") == "Call" and norm(c.get("resolved") or c.get("callee") or "").endswith("utils::remove_many") for c in walk(F.fns[q].get("body") or {}))), None)
    if st is not None:
        R.fn(st["path"])
        calls = [c for c in walk(st["body"]) if c.get("k") == "Call" and norm(c.get("resolved") or c.get("callee") or "").endswith("utils::remove_many")]
        idxs = {sexp(strip(c["args"][1])) for c in calls}
        R.ob("T-REMOVE", "same-indices", len(calls) >= 2 and len(idxs) == 1, F.loc(st), "names and objective are cut with the same index list: %s" % sorted(idxs))
