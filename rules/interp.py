"""Finite-table evaluator over typed HIR (rule family T).

Evaluates *extracted* pure functions of the crate (match tables, precedence functions,
printers) on small symbolic inputs: enum variants, literals, tuples, vectors, strings as
ropes of literal pieces and opaque leaves.  Anything outside the fragment evaluates to
Unknown(reason); callers must treat Unknown in a needed cell as a report, never a guess.
Nothing of rooc is executed: the inputs are HIR trees from the facts file.
"""
import re
import math
import os
from facts import norm, base_ty, short


class Unknown:
    def __init__(self, why):
        self.why = why

    def __repr__(self):
        return "Unknown(%s)" % self.why


class LazyIter:
    """an unbounded integer range (`start..`) under adapter stages; only consumed lazily, with a bound"""
    LIMIT = 100000

    def __init__(self, start, stages=()):
        self.start = start
        self.stages = list(stages)

    def __repr__(self):
        return "LazyIter(%d.., %d stages)" % (self.start, len(self.stages))


class Var:
    """enum variant / struct value"""

    def __init__(self, path, args=None, fields=None):
        self.path = path
        self.args = list(args or [])
        self.fields = dict(fields or {})

    def __eq__(self, o):
        return isinstance(o, Var) and self.path == o.path and self.args == o.args and self.fields == o.fields

    def __hash__(self):
        return hash(self.path)

    def __repr__(self):
        if self.fields:
            return "%s{%s}" % (self.path.split("::")[-1], ", ".join("%s: %r" % kv for kv in self.fields.items()))
        if self.args:
            return "%s(%s)" % (self.path.split("::")[-1], ", ".join(repr(a) for a in self.args))
        return self.path.split("::")[-1]


class Leaf:
    """opaque rendered text (e.g. a number or an expression the evaluator does not look into)"""

    def __init__(self, name):
        self.name = name

    def __eq__(self, o):
        return isinstance(o, Leaf) and o.name == self.name

    def __hash__(self):
        return hash(self.name)

    def __repr__(self):
        return "<%s>" % self.name


class Rope:
    def __init__(self, pieces=None):
        self.pieces = []
        for p in pieces or []:
            self.add(p)

    def add(self, p):
        if isinstance(p, Rope):
            for q in p.pieces:
                self.add(q)
        elif isinstance(p, str):
            if p == "":
                return
            if self.pieces and isinstance(self.pieces[-1], str):
                self.pieces[-1] += p
            else:
                self.pieces.append(p)
        else:
            self.pieces.append(p)

    def text(self):
        return "".join(p if isinstance(p, str) else "<%s>" % p.name for p in self.pieces)

    def __eq__(self, o):
        return isinstance(o, Rope) and o.pieces == self.pieces

    def __repr__(self):
        return "Rope(%r)" % self.text()


class Fmt:
    """a fmt::Formatter: an output buffer"""

    def __init__(self):
        self.buf = Rope()


class Sym:
    """opaque non-text symbolic value (a float, a span, ...)"""

    def __init__(self, name):
        self.name = name

    def __eq__(self, o):
        return isinstance(o, Sym) and o.name == self.name

    def __hash__(self):
        return hash(self.name)

    def __repr__(self):
        return "Sym(%s)" % self.name


class ListV:
    def __init__(self, items):
        self.items = list(items)

    def __eq__(self, o):
        return isinstance(o, ListV) and o.items == self.items

    def __repr__(self):
        return "ListV(%r)" % self.items


class MutRef:
    """a `&mut` to a scalar stored inside a collection: reads and writes go to the slot"""
    __slots__ = ("get", "set")

    def __init__(self, get, set_):
        self.get = get
        self.set = set_

    def __repr__(self):
        return "&mut %r" % (self.get(),)


def _is_scalar(x):
    return isinstance(x, (int, float, bool, str)) or (isinstance(x, tuple) and not isinstance(x, Unknown))


def _slot_ref(lst, i):
    return MutRef(lambda: lst.items[i], lambda v: lst.items.__setitem__(i, v))


def _map_value_ref(lst, i):
    return MutRef(lambda: lst.items[i][1], lambda v: lst.items.__setitem__(i, (lst.items[i][0], v)))


def _mut_view(lst):
    """the items of `lst.iter_mut()`: scalars become slot references, map entries (key, &mut value)"""
    out = []
    for i, x in enumerate(lst.items):
        if isinstance(x, tuple) and len(x) == 2 and not isinstance(x[1], (Var, ListV)):
            out.append((x[0], _map_value_ref(lst, i)))
        elif _is_scalar(x) and not isinstance(x, tuple):
            out.append(_slot_ref(lst, i))
        else:
            out.append(x)
    return ListV(out)


class Closure:
    def __init__(self, node, env):
        self.node = node
        self.env = env


class FnRef:
    def __init__(self, path):
        self.path = path


class _Return(Exception):
    def __init__(self, v):
        self.v = v


class _Break(Exception):
    target = None


class _Continue(Exception):
    target = None


UNIT = ()
INT_TYPES = {"i8": (8, True), "i16": (16, True), "i32": (32, True), "i64": (64, True), "isize": (64, True), "u8": (8, False), "u16": (16, False), "u32": (32, False), "u64": (64, False), "usize": (64, False)}
STD_FLOAT_CONSTS = {}
for _t, (_b, _sg) in INT_TYPES.items():
    for _pre in ("std::%s::" % _t, "core::%s::" % _t, "%s::" % _t, "core::num::<impl %s>::" % _t, "std::num::<impl %s>::" % _t):
        STD_FLOAT_CONSTS[_pre + "MAX"] = (1 << (_b - 1)) - 1 if _sg else (1 << _b) - 1
        STD_FLOAT_CONSTS[_pre + "MIN"] = -(1 << (_b - 1)) if _sg else 0
for _pre in ("std::f64::", "core::f64::", "f64::", "core::f64::<impl f64>::", "std::f64::<impl f64>::"):
    STD_FLOAT_CONSTS[_pre + "INFINITY"] = float("inf")
    STD_FLOAT_CONSTS[_pre + "NAN"] = float("nan")
    STD_FLOAT_CONSTS[_pre + "NEG_INFINITY"] = float("-inf")
    STD_FLOAT_CONSTS[_pre + "EPSILON"] = 2.220446049250313e-16
    STD_FLOAT_CONSTS[_pre + "MAX"] = 1.7976931348623157e308
    STD_FLOAT_CONSTS[_pre + "MIN"] = -1.7976931348623157e308
    STD_FLOAT_CONSTS[_pre + "consts::PI"] = 3.141592653589793
    STD_FLOAT_CONSTS[_pre + "consts::E"] = 2.718281828459045
OK_PATHS = ("std::result::Result::Ok", "core::result::Result::Ok")  # norm() canonicalises prelude paths to the std:: form
ERR_PATHS = ("std::result::Result::Err", "core::result::Result::Err")
SOME_PATHS = ("std::option::Option::Some", "core::option::Option::Some")
NONE_PATHS = ("std::option::Option::None", "core::option::Option::None")


def is_unknown(v):
    return isinstance(v, Unknown)


def parse_format_snippet(snippet):
    """`format!("({} {})", a, b)` -> (template string, [arg source texts]) or None"""
    i = snippet.find("(")
    j = snippet.rfind(")")
    if i < 0 or j < 0:
        # macro invoked with [] or {} delimiters
        i = min([x for x in (snippet.find("["), snippet.find("{")) if x >= 0], default=-1)
        j = len(snippet) - 1
        if i < 0:
            return None
    inner = snippet[i + 1:j]
    # split top-level commas
    parts = []
    depth = 0
    cur = ""
    in_str = False
    raw_hashes = None
    k = 0
    while k < len(inner):
        c = inner[k]
        if in_str:
            cur += c
            if c == "\\" and raw_hashes is None:
                k += 1
                if k < len(inner):
                    cur += inner[k]
            elif c == '"':
                if raw_hashes is None:
                    in_str = False
                elif inner[k + 1:k + 1 + raw_hashes] == "#" * raw_hashes:
                    cur += "#" * raw_hashes
                    k += raw_hashes
                    in_str = False
                    raw_hashes = None
        else:
            if c == '"':
                in_str = True
                m = re.search(r"r(#*)$", cur)
                raw_hashes = len(m.group(1)) if m else None
                cur += c
            elif c == "'" and k + 2 < len(inner) and (inner[k + 2] == "'" or (inner[k + 1] == "\\" and k + 3 < len(inner) and inner[k + 3] == "'")):
                # char literal
                end = k + 2 if inner[k + 2] == "'" else k + 3
                cur += inner[k:end + 1]
                k = end
            elif c in "([{":
                depth += 1
                cur += c
            elif c in ")]}":
                depth -= 1
                cur += c
            elif c == "," and depth == 0:
                parts.append(cur.strip())
                cur = ""
            else:
                cur += c
        k += 1
    if cur.strip():
        parts.append(cur.strip())
    return parts


def unescape_rust_str(lit):
    """rust string literal text (with quotes) -> python str"""
    m = re.match(r'^r(#*)"(.*)"\1$', lit, re.S)
    if m:
        return m.group(2)
    if not (lit.startswith('"') and lit.endswith('"')):
        return None
    s = lit[1:-1]
    out = ""
    k = 0
    while k < len(s):
        c = s[k]
        if c == "\\":
            k += 1
            d = s[k]
            if d == "n":
                out += "\n"
            elif d == "t":
                out += "\t"
            elif d == "r":
                out += "\r"
            elif d == "0":
                out += "\0"
            elif d == "\n":
                # line continuation: skip whitespace
                while k + 1 < len(s) and s[k + 1] in " \t\n\r":
                    k += 1
            elif d == "u":
                e = s.index("}", k)
                out += chr(int(s[k + 2:e], 16))
                k = e
            else:
                out += d
        else:
            out += c
        k += 1
    return out


def split_template(t):
    """format template -> list of ('lit', text) | ('arg', spec_name_or_index_or_None, fmt_spec)"""
    out = []
    k = 0
    cur = ""
    while k < len(t):
        c = t[k]
        if c == "{":
            if k + 1 < len(t) and t[k + 1] == "{":
                cur += "{"
                k += 2
                continue
            e = t.index("}", k)
            if cur:
                out.append(("lit", cur))
                cur = ""
            inner = t[k + 1:e]
            name, _, spec = inner.partition(":")
            out.append(("arg", name.strip() or None, spec))
            k = e + 1
            continue
        if c == "}":
            if k + 1 < len(t) and t[k + 1] == "}":
                cur += "}"
                k += 2
                continue
        cur += c
        k += 1
    if cur:
        out.append(("lit", cur))
    return out


def _walk_pat(p):
    yield p
    for key in ("pat", "pats", "before", "after", "mid", "fields"):
        v = p.get(key)
        if isinstance(v, dict):
            for x in _walk_pat(v):
                yield x
        elif isinstance(v, list):
            for q in v:
                if isinstance(q, dict):
                    for x in _walk_pat(q.get("pat", q) if "pat" in q and "k" not in q else q):
                        yield x


def rust_f64_debug(x):
    """`{:?}` of an f64: like Display, but exponent form below 1e-5 and from 1e16, and always with a fraction"""
    if x != x:
        return "NaN"
    if x in (float("inf"), float("-inf")):
        return "inf" if x > 0 else "-inf"
    if x == 0:
        return "-0.0" if math.copysign(1.0, x) < 0 else "0.0"
    a = abs(x)
    if a >= 1e16 or a < 1e-4:
        m, e = repr(x).lower().split("e") if "e" in repr(x).lower() else (None, None)
        if m is None:
            m, e = ("%e" % x).split("e")
            m = repr(float(m))
        m = m[:-2] if m.endswith(".0") else m
        return "%se%d" % (m, int(e))
    d = rust_f64_display(x)
    return d if "." in d else d + ".0"


def rust_f64_display(x):
    """Rust's Display for f64: shortest digits that round-trip, never an exponent"""
    from decimal import Decimal
    if x != x:
        return "NaN"
    if x in (float("inf"), float("-inf")):
        return "inf" if x > 0 else "-inf"
    if x == int(x) and abs(x) < 1e16:
        s_ = str(int(x))
        return "-0" if (s_ == "0" and str(x).startswith("-")) else s_
    return format(Decimal(repr(x)), "f")


def _hashable(x):
    try:
        hash(x)
        return x
    except TypeError:
        return repr(x)


def _deep_clone(v):
    """Rust's clone of owned data: nothing is shared with the original (models of foreign handles are kept as they are)"""
    if isinstance(v, ListV):
        return ListV([_deep_clone(x) for x in v.items])
    if isinstance(v, Var):
        return Var(v.path, [_deep_clone(x) for x in v.args], {k: _deep_clone(x) for k, x in v.fields.items()})
    if isinstance(v, tuple):
        return tuple(_deep_clone(x) for x in v)
    if isinstance(v, Rope):
        return Rope(list(v.pieces))
    return v


def _plain(v):
    """ropes made of literal text only compare as strings, also inside Option/Result/tuples"""
    if isinstance(v, Rope) and all(isinstance(x, str) for x in v.pieces):
        return v.text()
    if isinstance(v, Var) and (v.args or v.fields):
        return Var(v.path, [_plain(x) for x in v.args], {k: _plain(x) for k, x in v.fields.items()})
    if isinstance(v, tuple):
        return tuple(_plain(x) for x in v)
    return v


def strip_node(n):
    while True:
        k = n.get("k")
        if k == "Block" and not n.get("stmts") and n.get("e"):
            n = n["e"]
        elif k == "Ref":
            n = n["a"]
        elif k == "Unary" and n.get("op") == "*":
            n = n["a"]
        else:
            return n


class Interp:
    def __init__(self, facts, max_depth=60):
        self.F = facts
        self.max_depth = max_depth
        self.depth = 0
        self.trace = []
        self.fn_stack = []
        self._dyn_cache = {}
        self.concrete_floats = False
        self.trace_unknown = bool(os.environ.get("INTERP_TRACE"))
        self.deref_impls = {}
        for imp in facts.items["impls"]:
            if imp.get("trait") in ("std::ops::Deref", "core::ops::Deref"):
                st = base_ty(imp["self_ty"])
                for m in imp["methods"]:
                    if m["name"] == "deref":
                        self.deref_impls[st] = m["path"]
        self.display_impls = {}
        for imp in facts.items["impls"]:
            if imp.get("trait") in ("std::fmt::Display", "core::fmt::Display"):
                st = base_ty(imp["self_ty"])
                for m in imp["methods"]:
                    if m["name"] == "fmt":
                        self.display_impls[st] = m["path"]
        # user hook: callee path -> python function(interp, args) for modelling opaque callees
        self.models = {}

    # ---- types of values -------------------------------------------------------
    def type_of(self, v):
        if isinstance(v, Var):
            p = v.path
            if p in self.F.structs:
                return p
            parent = p.rsplit("::", 1)[0]
            if parent in self.F.enums:
                return parent
            return p
        return None

    # ---- function calls --------------------------------------------------------
    def call_fn(self, path, args):
        path_n = norm(path)
        if path_n in self.models:
            return self.models[path_n](self, args)
        f = self.F.fns.get(path) or self.F.fns.get(path_n)
        if f is None:
            for p, ff in self.F.fns.items():
                if norm(p) == path_n:
                    f = ff
                    break
        if f is None or "body" not in f:
            md = re.match(r"^<(.+) as (?:std|core)::default::Default>::default$", path_n)
            if md and not args:
                d = self.default_of(md.group(1))
                if d is not None:
                    return d
            r_ = self.std_fn(path_n, args)
            if r_ is not NotImplemented:
                return r_
            return Unknown("no body for " + path)
        for a_ in args:
            if is_unknown(a_):
                return a_  # an argument that could not be evaluated poisons the call
        if self.depth > self.max_depth:
            return Unknown("depth limit in " + path)
        self.depth += 1
        self.fn_stack.append(f["path"])
        try:
            env = {}
            params = f.get("params", [])
            if len(params) != len(args):
                return Unknown("arity mismatch calling " + path)
            for p, a in zip(params, args):
                # deref coercion at the call site (`&Spanned<String>` passed where `&str` is expected) is implicit in HIR
                if isinstance(a, Var) and p.get("k") == "PBind":
                    pt = (self.F.tyi(p.get("t")) or "").replace(" ", "")
                    if pt in ("&str", "&std::string::String", "&mutstd::string::String", "str"):
                        for _ in range(3):
                            d = self.deref(a) if isinstance(a, Var) else None
                            if d is None or is_unknown(d):
                                break
                            a = d
                if not self.bind(p, a, env):
                    return Unknown("cannot bind parameter of " + path)
            try:
                return self.ev(f["body"], env)
            except _Return as r:
                return r.v
        finally:
            self.depth -= 1
            self.fn_stack.pop()

    def default_of(self, ty, depth=0):
        """the value of a derived Default: field-wise defaults (None when a field type is not understood)"""
        ty = ty.strip()
        if depth > 6:
            return None
        if ty in ("f64", "f32"):
            return 0.0
        if ty in ("usize", "u64", "u32", "u16", "u8", "isize", "i64", "i32", "i16", "i8"):
            return 0
        if ty == "bool":
            return False
        if ty in ("std::string::String", "String", "alloc::string::String"):
            return Rope()
        if ty.startswith(("std::vec::Vec<", "indexmap::IndexMap<", "indexmap::IndexSet<", "std::collections::HashMap<", "std::collections::VecDeque<", "std::collections::HashSet<", "std::collections::BTreeMap<")):
            return ListV([])
        if ty.startswith(("std::option::Option<", "core::option::Option<")):
            return Var(NONE_PATHS[0])
        b = base_ty(ty)
        imp = "<%s as std::default::Default>::default" % b
        f = self.F.fns.get(imp)
        if f is not None and "body" in f:
            return self.call_fn(imp, [])
        st = self.F.structs.get(b)
        if st is not None:
            fields = {}
            for fd in st["variants"][0]["fields"]:
                v = self.default_of(fd["ty"], depth + 1)
                if v is None:
                    return None
                fields[fd["name"]] = v
            return Var(b, fields=fields)
        return None

    def deref(self, v):
        """one overloaded-deref step on a struct value, or None"""
        t = self.type_of(v)
        if t is not None:
            t = norm(t)
            if t in self.deref_impls:
                return self.call_fn(self.deref_impls[t], [v])
        return None

    def coerce_recv(self, v, callee):
        """auto-deref the receiver until its type is the impl's self type"""
        f = self.F.fns.get(callee)
        if f is None:
            return v
        want = base_ty(f.get("impl_self") or "")
        for _ in range(4):
            t = self.type_of(v)
            if t is None or norm(t) == want or not want:
                return v
            d = self.deref(v)
            if d is None or is_unknown(d):
                return v
            v = d
        return v

    # ---- rendering -------------------------------------------------------------
    def display(self, v):
        """`{}` rendering of a value as a Rope (or Unknown)"""
        if isinstance(v, Rope):
            return v
        if isinstance(v, str):
            return Rope([v])
        if isinstance(v, bool):
            return Rope(["true" if v else "false"])
        if isinstance(v, int):
            return Rope([str(v)])
        if isinstance(v, float):
            if self.concrete_floats:
                return Rope([rust_f64_display(v)])
            return Rope([Leaf("f64:%r" % v)])
        if isinstance(v, Leaf):
            return Rope([v])
        if isinstance(v, Sym):
            return Rope([Leaf(v.name)])
        if isinstance(v, Var):
            t = self.type_of(v)
            tn = norm(t) if t else None
            if tn in self.display_impls:
                f = Fmt()
                r = self.call_fn(self.display_impls[tn], [v, f])
                if is_unknown(r):
                    return r
                return f.buf
            d = self.deref(v)
            if d is not None and not is_unknown(d):
                return self.display(d)
            return Unknown("no Display impl for %s" % t)
        if is_unknown(v):
            return v
        return Unknown("cannot display %r" % (v,))

    def format_macro(self, node, env):
        parts = parse_format_snippet(node.get("snippet", ""))
        name = node.get("name")
        args = node.get("args", [])
        if parts is None:
            return Unknown("unparsable macro snippet")
        has_dest = name in ("write", "writeln")
        dest = None
        hir_args = list(args)
        if has_dest:
            if not parts or not hir_args:
                return Unknown("write! without destination")
            parts = parts[1:]
            dest = self.ev(hir_args[0], env)
            hir_args = hir_args[1:]
        if not parts:
            tmpl = ""
        else:
            tmpl = unescape_rust_str(parts[0])
            if tmpl is None:
                return Unknown("format template is not a literal: " + parts[0])
        explicit = parts[1:]
        vals = []
        named = {}
        tys = {}
        for i, src in enumerate(explicit):
            if i >= len(hir_args):
                return Unknown("format args mismatch")
            m = re.match(r"^([A-Za-z_][A-Za-z0-9_]*)\s*=[^=]", src)
            v = self.ev(hir_args[i], env)
            if m:
                named[m.group(1)] = v
            vals.append(v)
            tys[id(v)] = self.F.ty(hir_args[i])
        captured = hir_args[len(explicit):]
        rope = Rope()
        pos = 0
        for piece in split_template(tmpl):
            if piece[0] == "lit":
                rope.add(piece[1])
                continue
            _, nm, spec = piece
            if nm is None:
                if pos >= len(vals):
                    return Unknown("format placeholder without argument")
                v = vals[pos]
                pos += 1
            elif nm.isdigit():
                if int(nm) >= len(vals):
                    return Unknown("format index out of range")
                v = vals[int(nm)]
            elif nm in named:
                v = named[nm]
            else:
                v = None
                for c in captured:
                    if c.get("k") == "Path" and c.get("name") == nm:
                        v = self.ev(c, env)
                        tys[id(v)] = self.F.ty(c)
                if v is None:
                    v = self.lookup_name(nm, env)
                if v is None:
                    return Unknown("captured format argument %s not found" % nm)
            if spec not in ("", None):
                if spec == "?":
                    # Debug of integers, booleans and vectors of them is their Display
                    def dbg(x):
                        if isinstance(x, bool):
                            return "true" if x else "false"
                        if isinstance(x, int):
                            return str(x)
                        if isinstance(x, ListV):
                            parts = [dbg(y) for y in x.items]
                            return None if any(q is None for q in parts) else "[" + ", ".join(parts) + "]"
                        return None
                    d = dbg(v)
                    if d is None:
                        d = self.debug_fmt(v, tys.get(id(v)))
                    if d is None:
                        return Unknown("debug formatting of %r" % (v,))
                    rope.add(d)
                    continue
                mspec = re.fullmatch(r"(?:(.)?([<>^]))?(\+)?(0)?(\d+)?(?:\.(\d+))?(\?)?", spec)
                if mspec is None:
                    return Unknown("format spec {:%s}" % spec)
                fill, align, plus, zero, width, prec, dbg_ = mspec.groups()
                if dbg_:
                    body = self.debug_fmt(v, tys.get(id(v)))
                    if body is None:
                        return Unknown("debug formatting of %r" % (v,))
                elif prec is not None and isinstance(v, (int, float)) and not isinstance(v, bool) and v == v and abs(v) != float("inf"):
                    body = format(float(v), ".%sf" % prec) if isinstance(v, float) else str(v)
                else:
                    r = self.display(v)
                    if is_unknown(r):
                        return r
                    if width is None and not plus:
                        rope.add(r)
                        continue
                    try:
                        body = r.text() if isinstance(r, Rope) else str(r)
                    except Exception:
                        return Unknown("width formatting of a symbolic text")
                    if prec is not None and not isinstance(v, (int, float)):
                        body = body[:int(prec)]
                is_num = isinstance(v, (int, float)) and not isinstance(v, bool)
                if plus and is_num and not body.startswith("-"):
                    body = "+" + body
                if width is not None and len(body) < int(width):
                    pad = int(width) - len(body)
                    if zero and is_num:
                        sign = body[0] if body[:1] in "+-" else ""
                        body = sign + "0" * pad + body[len(sign):]
                    else:
                        al = align or (">" if is_num else "<")
                        f_ = fill or " "
                        body = body + f_ * pad if al == "<" else (f_ * pad + body if al == ">" else f_ * (pad // 2) + body + f_ * (pad - pad // 2))
                rope.add(body)
                continue
            r = self.display(v)
            if is_unknown(r):
                return r
            rope.add(r)
        if name == "writeln":
            rope.add("\n")
        if has_dest:
            if isinstance(dest, Fmt):
                dest.buf.add(rope)
                return Var(OK_PATHS[0], [UNIT])
            if isinstance(dest, Rope):
                dest.add(rope)
                return Var(OK_PATHS[0], [UNIT])
            return Unknown("write! destination unknown")
        if name in ("format", "format_args"):
            return rope
        if name in ("panic", "unreachable", "todo", "unimplemented"):
            return Unknown("panic reached: " + rope.text())
        return Unknown("macro " + str(name))

    def debug_fmt(self, v, ty):
        """`{:?}` of a value of Rust type `ty` (type-directed: the interpreter's values do not tell a char from a &str); None when not modelled"""
        if ty is None or is_unknown(v):
            return None
        ty = ty.strip()
        while True:
            if ty.startswith("&mut "):
                ty = ty[5:].strip()
            elif ty.startswith("&"):
                ty = re.sub(r"^&('\w+ )?", "", ty).strip()
            elif re.match(r"^(std|alloc)::boxed::Box<", ty) and ty.endswith(">"):
                ty = ty[ty.index("<") + 1:-1].strip()
            else:
                break

        def split_args(t):
            out, depth, cur = [], 0, ""
            for ch in t:
                if ch in "<([":
                    depth += 1
                elif ch in ">)]":
                    depth -= 1
                if ch == "," and depth == 0:
                    out.append(cur.strip())
                    cur = ""
                else:
                    cur += ch
            if cur.strip():
                out.append(cur.strip())
            return out
        if isinstance(v, MutRef):
            v = v.get()
        if ty in INT_TYPES and isinstance(v, int) and not isinstance(v, bool):
            return str(v)
        if ty == "bool" and isinstance(v, bool):
            return "true" if v else "false"
        if ty in ("f64", "f32") and isinstance(v, (int, float)) and not isinstance(v, bool):
            return rust_f64_debug(float(v))
        if ty == "char" and isinstance(v, str) and len(v) == 1:
            return "'" + {"'": "\\'", "\\": "\\\\", "\n": "\\n", "\t": "\\t", "\r": "\\r"}.get(v, v) + "'"
        if ty in ("str", "std::string::String", "alloc::string::String"):
            if isinstance(v, Rope):
                if not all(isinstance(x, str) for x in v.pieces):
                    return None
                v = v.text()
            if not isinstance(v, str):
                return None
            return '"' + "".join({'"': '\\"', "\\": "\\\\", "\n": "\\n", "\t": "\\t", "\r": "\\r"}.get(c, c) for c in v) + '"'
        if ty == "()":
            return "()"
        if ty.startswith("(") and ty.endswith(")") and isinstance(v, tuple):
            ts = split_args(ty[1:-1])
            if len(ts) != len(v):
                return None
            ps = [self.debug_fmt(x, t) for x, t in zip(v, ts)]
            if any(q is None for q in ps):
                return None
            return "(" + ", ".join(ps) + ("," if len(ps) == 1 else "") + ")"
        head = ty.split("<", 1)[0]
        inner = split_args(ty[len(head) + 1:-1]) if "<" in ty and ty.endswith(">") else []
        if head.endswith("option::Option") and isinstance(v, Var) and len(inner) == 1:
            if v.path in NONE_PATHS:
                return "None"
            q = self.debug_fmt(v.args[0], inner[0]) if v.path in SOME_PATHS and v.args else None
            return None if q is None else "Some(" + q + ")"
        if head.endswith("result::Result") and isinstance(v, Var) and len(inner) == 2 and v.args:
            q = self.debug_fmt(v.args[0], inner[0] if v.path in OK_PATHS else inner[1])
            return None if q is None else ("Ok(" if v.path in OK_PATHS else "Err(") + q + ")"
        seq_elem = None
        if head.endswith(("vec::Vec", "collections::VecDeque", "vec_deque::VecDeque")) and inner:
            seq_elem = inner[0]
        elif ty.startswith("[") and ty.endswith("]"):
            seq_elem = ty[1:-1].rsplit(";", 1)[0].strip()
        if seq_elem is not None and isinstance(v, ListV):
            ps = [self.debug_fmt(x, seq_elem) for x in v.items]
            return None if any(q is None for q in ps) else "[" + ", ".join(ps) + "]"
        if head.endswith("cmp::Ordering") and isinstance(v, Var):
            return v.path.rsplit("::", 1)[-1]
        if isinstance(v, Var):
            # a local type with a derived Debug: Name { field: value, .. } / Name(a, b) / Name
            sd = self.F.structs.get(head)
            short_name = v.path.rsplit("::", 1)[-1]
            if sd is not None and v.fields:
                flds = sd.get("fields") or (sd.get("variants") or [{}])[0].get("fields", [])
                ftys = {f["name"]: f.get("ty") for f in flds if isinstance(f, dict)}
                ps = []
                for f in [f["name"] for f in flds if isinstance(f, dict)]:
                    if f not in v.fields:
                        return None
                    q = self.debug_fmt(v.fields[f], ftys.get(f))
                    if q is None:
                        return None
                    ps.append("%s: %s" % (f, q))
                return "%s { %s }" % (short_name, ", ".join(ps))
            if not v.args and not v.fields:
                return short_name
        return None

    def lookup_name(self, name, env):
        for k, v in env.items():
            if isinstance(k, tuple) and k[0] == name:
                return v
        return None

    # ---- patterns --------------------------------------------------------------
    def bind(self, p, v, env):
        """match value v against pattern p; returns True/False, or None if undecidable"""
        k = p["k"]
        if k == "PWild":
            return True
        if k == "PBind":
            if p.get("sub"):
                r = self.bind(p["sub"], v, env)
                if r is not True:
                    return r
            env[p["id"]] = v
            env[(p["name"], p["id"])] = v
            return True
        if k in ("PRef", "PDeref"):
            return self.bind(p["pat"], v, env)
        if k == "POr":
            for q in p["pats"]:
                e2 = dict(env)
                r = self.bind(q, v, e2)
                if r is None:
                    return None
                if r:
                    env.update(e2)
                    return True
            return False
        if is_unknown(v):
            return None
        if k == "PSlice":
            if not isinstance(v, ListV):
                return None
            before, after, mid = p.get("before", []), p.get("after", []), p.get("mid")
            if mid is None and len(v.items) != len(before) + len(after):
                return False
            if len(v.items) < len(before) + len(after):
                return False
            for q, x in zip(before, v.items[:len(before)]):
                r = self.bind(q, x, env)
                if r is not True:
                    return r
            for q, x in zip(after, v.items[len(v.items) - len(after):] if after else []):
                r = self.bind(q, x, env)
                if r is not True:
                    return r
            if mid is not None:
                r = self.bind(mid, ListV(v.items[len(before):len(v.items) - len(after)]), env)
                if r is not True:
                    return r
            return True
        if k == "PTuple" and isinstance(v, MutRef) and isinstance(v.get(), tuple) and len(v.get()) == len(p["pats"]):
            # destructuring through `&mut (a, b)`: the parts are references into the tuple
            for i_, q in enumerate(p["pats"]):
                cur = v.get()[i_]
                if isinstance(cur, (Var, ListV)):
                    part = cur
                else:
                    part = MutRef((lambda i_=i_: v.get()[i_]), (lambda x, i_=i_: v.set(tuple(x if j_ == i_ else y for j_, y in enumerate(v.get())))))
                r = self.bind(q, part, env)
                if r is not True:
                    return r
            return True
        if isinstance(v, MutRef) and k in ("PLit", "PRange", "PPath", "PTupleStruct", "PStruct", "POr"):
            v = v.get()
        if k == "PTuple":
            if not isinstance(v, tuple) or len(v) != len(p["pats"]):
                if isinstance(v, tuple) and "dd" in p:
                    return None
                return None
            for q, x in zip(p["pats"], v):
                r = self.bind(q, x, env)
                if r is not True:
                    return r
            return True
        if k == "PPath":
            c = STD_FLOAT_CONSTS.get(norm(p.get("path") or ""))
            if c is not None and isinstance(v, (int, float)) and not isinstance(v, bool):
                return v == c
            if isinstance(v, Var):
                if norm(v.path) == norm(p.get("path")):
                    return True
                if self.type_of(v) == self.type_of(Var(norm(p.get("path")))):
                    return False
                if norm(v.path).rsplit("::", 1)[0] == norm(p.get("path")).rsplit("::", 1)[0] and (v.path in OK_PATHS + ERR_PATHS + SOME_PATHS + NONE_PATHS):
                    return False  # another variant of the same std enum
                if self.same_enum(v.path, p.get("path")) and p.get("dk", "Variant") in ("Variant", None, "Ctor") and norm(p.get("path") or "").rsplit("::", 1)[0] not in self.F.structs:
                    return False  # another unit variant of the same (possibly external) enum
                return self._bind_through_deref(p, v, env)
            return None
        if k == "PTupleStruct":
            if isinstance(v, Var) and v.path == "MAPENTRY" and norm(p.get("path") or "").endswith(("Entry::Occupied", "Entry::Vacant")) and len(p["pats"]) == 1:
                m_, k0 = v.args
                if not isinstance(m_, ListV) or is_unknown(k0):
                    return None
                idx = next((i_ for i_, (k_, _) in enumerate(m_.items) if _plain(k_) == _plain(k0)), None)
                want_occ = norm(p.get("path")).endswith("Entry::Occupied")
                if (idx is not None) != want_occ:
                    return False
                return self.bind(p["pats"][0], Var("MAPOCC", [m_, idx]) if want_occ else Var("MAPVAC", [m_, k0]), env)
            if isinstance(v, Var):
                if norm(v.path) != norm(p.get("path")):
                    if self.same_enum(v.path, p.get("path")):
                        return False
                    return self._bind_through_deref(p, v, env)
                pats = p["pats"]
                if "dd" in p:
                    dd = p["dd"]
                    tail = len(pats) - dd
                    items = list(zip(pats[:dd], v.args[:dd])) + (list(zip(pats[dd:], v.args[len(v.args) - tail:])) if tail else [])
                else:
                    if len(pats) != len(v.args):
                        return None
                    items = list(zip(pats, v.args))
                for q, x in items:
                    r = self.bind(q, x, env)
                    if r is not True:
                        return r
                return True
            return None
        if k == "PStruct":
            if isinstance(v, Var):
                if norm(v.path) != norm(p.get("path")):
                    if self.same_enum(v.path, p.get("path")):
                        return False
                    return None
                for f in p["fields"]:
                    if f["name"] not in v.fields:
                        return None
                    r = self.bind(f["pat"], v.fields[f["name"]], env)
                    if r is not True:
                        return r
                return True
            return None
        if k in ("PLit", "PRange") and isinstance(v, MutRef):
            v = v.get()
        if k == "PLit":
            lv = self.lit_value(p)
            if p.get("neg"):
                lv = -lv
            if isinstance(v, Rope):
                if all(isinstance(x, str) for x in v.pieces):
                    return v.text() == lv
                return None
            if isinstance(v, (int, float, str, bool)):
                return v == lv
            return None
        if k == "PRange":
            if isinstance(v, (int, float)) and not isinstance(v, bool):
                lo = self.lit_value(p["lo"]) if p.get("lo") else None
                hi = self.lit_value(p["hi"]) if p.get("hi") else None
                if lo is not None and v < lo:
                    return False
                if hi is not None:
                    if p.get("end") == "Included":
                        return v <= hi
                    return v < hi
                return True
            return None
        if k == "PGuard":
            return self.bind(p["pat"], v, env)
        return None

    def _bind_through_deref(self, p, v, env):
        d = self.deref(v)
        if d is None or is_unknown(d):
            return None
        return self.bind(p, d, env)

    def same_enum(self, a, b):
        a = norm(a)
        b = norm(b)
        return a.rsplit("::", 1)[0] == b.rsplit("::", 1)[0]

    def lit_value(self, n):
        lk = n.get("lk")
        v = n.get("v")
        if lk == "int":
            return int(v)
        if lk == "float":
            return float(v.replace("_", ""))
        if lk == "bool":
            return v == "true"
        if lk in ("str", "char"):
            return v
        return Unknown("literal kind " + str(lk))

    # ---- expressions -----------------------------------------------------------
    def ev(self, n, env):
        k = n["k"]
        m = getattr(self, "ev_" + k, None)
        if m is None:
            return Unknown("unsupported node " + k)
        r = m(n, env)
        if self.trace_unknown and isinstance(r, Unknown) and not getattr(r, "loc", None):
            r.loc = (self.fn_stack[-1] if self.fn_stack else "?", n.get("l"))
            r.why = "%s @%s:%s" % (r.why, short(r.loc[0]), r.loc[1])
        return r

    def ev_Lit(self, n, env):
        return self.lit_value(n)

    def ev_Path(self, n, env):
        if n.get("res") == "local":
            if n["id"] in env:
                return env[n["id"]]
            return Unknown("unbound local " + n.get("name", "?"))
        if n.get("res") == "def":
            dk = n.get("dk")
            if dk == "Variant":
                return Var(norm(n["path"]))
            if dk in ("Fn", "AssocFn"):
                return FnRef(n["path"])
            if dk.startswith("Const") or dk.startswith("AssocConst") or dk.startswith("Static"):
                f = self.F.fns.get(n["path"])
                if f is not None and "body" in f:
                    return self.ev(f["body"], {})
                c = STD_FLOAT_CONSTS.get(norm(n["path"]))
                if c is not None:
                    return c
                return Unknown("const " + n["path"])
            if dk == "StructCtor":
                return Var(norm(n["path"]))
        return Unknown("path " + str(n.get("path") or n.get("res")))

    def ev_Block(self, n, env):
        for s in n.get("stmts", []):
            sk = s["k"]
            if sk == "Let":
                if s.get("init") is None:
                    continue
                v = self.ev(s["init"], env)
                r = self.bind(s["pat"], v, env)
                if r is not True:
                    if s.get("els") and r is False:
                        return self.ev(s["els"], env)
                    return Unknown("let pattern undecidable")
            else:
                v = self.ev(s["e"], env)
                if is_unknown(v):
                    # a statement whose effect we cannot model poisons the block only if it could
                    # influence the result through a formatter; be conservative
                    return v
        if n.get("e") is not None:
            return self.ev(n["e"], env)
        return UNIT

    def ev_Ref(self, n, env):
        v = self.ev(n["a"], env)
        if n.get("mut") and not isinstance(v, MutRef) and isinstance(v, (int, float, bool)):
            # `&mut place` of a scalar: later writes through the reference must reach the place
            a = strip_node(n["a"])
            if a.get("k") == "Path" and a.get("res") == "local" and a.get("id") in env:
                i_ = a["id"]
                return MutRef(lambda: env[i_], lambda x: env.__setitem__(i_, x))
            if a.get("k") == "Field":
                base = self.ev(a["a"], env)
                if isinstance(base, MutRef):
                    base = base.get()
                nm = a["name"]
                if isinstance(base, Var) and nm in base.fields:
                    return MutRef(lambda: base.fields[nm], lambda x: base.fields.__setitem__(nm, x))
            if a.get("k") == "Index":
                base = self.ev(a["a"], env)
                i = self.ev(a["i"], env)
                if isinstance(base, ListV) and isinstance(i, int) and 0 <= i < len(base.items):
                    return _slot_ref(base, i)
        return v

    def ev_Cast(self, n, env):
        v = self.ev(n["a"], env)
        if isinstance(v, MutRef):
            v = v.get()
        ty = (self.F.ty(n) or "").strip()
        if isinstance(v, bool):
            if ty in ("f64", "f32"):
                return 1.0 if v else 0.0
            if ty in INT_TYPES:
                return 1 if v else 0
            return v
        if isinstance(v, int) and ty in ("f64", "f32"):
            return float(v)
        if isinstance(v, float) and ty in INT_TYPES:
            if v != v:
                return 0
            bits, signed = INT_TYPES[ty]
            lo = -(1 << (bits - 1)) if signed else 0
            hi = (1 << (bits - 1)) - 1 if signed else (1 << bits) - 1
            if v >= hi:
                return hi
            if v <= lo:
                return lo
            return int(v)  # `as` truncates toward zero and saturates
        if isinstance(v, int) and ty in INT_TYPES:
            bits, signed = INT_TYPES[ty]
            m = v & ((1 << bits) - 1)
            if signed and m >= (1 << (bits - 1)):
                m -= 1 << bits
            return m
        return v

    def ev_Tup(self, n, env):
        return tuple(self.ev(x, env) for x in n["es"])

    def ev_Array(self, n, env):
        return ListV([self.ev(x, env) for x in n["es"]])

    def ev_Ret(self, n, env):
        raise _Return(self.ev(n["e"], env) if n.get("e") else UNIT)

    def ev_Try(self, n, env):
        v = self.ev(n["e"], env)
        if isinstance(v, Var):
            if v.path in OK_PATHS or v.path in SOME_PATHS:
                return v.args[0]
            if v.path in ERR_PATHS or v.path in NONE_PATHS:
                raise _Return(v)
        if is_unknown(v):
            return v
        return Unknown("? on non-Result value")

    def ev_If(self, n, env):
        c = n["cond"]
        if c["k"] == "LetExpr":
            v = self.ev(c["init"], env)
            e2 = dict(env)
            r = self.bind(c["pat"], v, e2)
            if r is None:
                return Unknown("if-let undecidable on %r" % (v,))
            if r:
                env.update(e2)
                return self.ev(n["then"], env)
            return self.ev(n["else"], env) if n.get("else") else UNIT
        cv = self.ev(c, env)
        if cv is True:
            return self.ev(n["then"], env)
        if cv is False:
            return self.ev(n["else"], env) if n.get("else") else UNIT
        return Unknown("if condition undecidable: %r" % (cv,))

    def ev_Match(self, n, env):
        v = self.ev(n["scrut"], env)
        for arm in n["arms"]:
            e2 = dict(env)
            r = self.bind(arm["pat"], v, e2)
            if r is None:
                return Unknown("match undecidable on %r at line %s" % (v, n.get("l")))
            if r:
                if arm.get("guard"):
                    g = self.ev(arm["guard"], e2)
                    if g is False:
                        continue
                    if g is not True:
                        return Unknown("guard undecidable: %r" % (g,))
                env.update(e2)
                return self.ev(arm["body"], env)  # one frame per function: writes inside the arm are visible after it
        return Unknown("no arm matched %r" % (v,))

    def ev_Macro(self, n, env):
        return self.format_macro(n, env)

    def ev_Closure(self, n, env):
        return Closure(n, env)

    def ev_Struct(self, n, env):
        fields = {}
        for f in n["fields"]:
            fields[f["name"]] = self.ev(f["e"], env)
        path = norm(n.get("path", "?"))
        if path.endswith(">") and "<" in path and not path.startswith("<"):
            path = path[:path.index("<")]  # `Self { .. }` inside a generic impl: utils::Spanned<T>
        if n.get("base") is not None:
            # functional record update: `Self { a: .., ..base }`
            b = self.ev(n["base"], env)
            if is_unknown(b):
                return b
            if not isinstance(b, Var):
                return Unknown("struct base %r" % (b,))
            merged = dict(b.fields)
            merged.update(fields)
            fields = merged
        return Var(path, fields=fields)

    def ev_Field(self, n, env):
        v = self.ev(n["a"], env)
        name = n["name"]
        for _ in range(4):
            if isinstance(v, Var):
                if name in v.fields:
                    return v.fields[name]
                if name.isdigit() and int(name) < len(v.args):
                    return v.args[int(name)]
                d = self.deref(v)
                if d is None or is_unknown(d):
                    break
                v = d
            elif isinstance(v, tuple) and name.isdigit() and int(name) < len(v):
                return v[int(name)]
            else:
                break
        if is_unknown(v):
            return v
        return Unknown("field %s of %r" % (name, v))

    def ev_Unary(self, n, env):
        v = self.ev(n["a"], env)
        op = n["op"]
        if op == "*":
            if isinstance(v, MutRef):
                return v.get()
            if n.get("callee"):
                d = self.deref(v) if isinstance(v, Var) else None
                if d is not None:
                    return d
            return v
        if is_unknown(v):
            return v
        if op == "!":
            if isinstance(v, bool):
                return not v
            return Unknown("! on %r" % (v,))
        if op == "-":
            if isinstance(v, (int, float)) and not isinstance(v, bool):
                return -v
            return Unknown("neg on %r" % (v,))
        return Unknown("unary " + op)

    def ev_Binary(self, n, env):
        op = n["op"]
        a = self.ev(n["a"], env)
        if isinstance(a, MutRef):
            a = a.get()
        if op == "&&":
            if a is False:
                return False
            b = self.ev(n["b"], env)
            if a is True:
                return b if isinstance(b, bool) else Unknown("&& rhs %r" % (b,))
            if b is False:
                return False
            return Unknown("&& lhs %r" % (a,))
        if op == "||":
            if a is True:
                return True
            b = self.ev(n["b"], env)
            if a is False:
                return b if isinstance(b, bool) else Unknown("|| rhs %r" % (b,))
            if b is True:
                return True
            return Unknown("|| lhs %r" % (a,))
        b = self.ev(n["b"], env)
        if isinstance(b, MutRef):
            b = b.get()
        if is_unknown(a):
            return a
        if is_unknown(b):
            return b
        # an overloaded operator of a modelled external type
        oc = norm(n.get("resolved") or n.get("callee") or "")
        if oc and oc in self.models:
            return self.models[oc](self, [a, b])
        if op in ("==", "!="):
            if isinstance(a, Rope):
                a = a.text() if all(isinstance(x, str) for x in a.pieces) else a
            if isinstance(b, Rope):
                b = b.text() if all(isinstance(x, str) for x in b.pieces) else b
            if isinstance(a, (Sym, Leaf)) or isinstance(b, (Sym, Leaf)):
                return Unknown("comparison with opaque value")
            a, b = _plain(a), _plain(b)
            r = a == b
            return r if op == "==" else not r
        num = lambda x: isinstance(x, (int, float)) and not isinstance(x, bool)
        if num(a) and num(b):
            try:
                if op == "<":
                    return a < b
                if op == "<=":
                    return a <= b
                if op == ">":
                    return a > b
                if op == ">=":
                    return a >= b
                if op in ("+", "-", "*"):
                    r = a + b if op == "+" else (a - b if op == "-" else a * b)
                    if isinstance(r, int):
                        bits = INT_TYPES.get(self.F.ty(n) or "")
                        if bits is not None:
                            lo, hi = (-(1 << (bits[0] - 1)), (1 << (bits[0] - 1)) - 1) if bits[1] else (0, (1 << bits[0]) - 1)
                            if not lo <= r <= hi:
                                return Unknown("panic reached: arithmetic overflow in `%s`" % op)
                    return r
                if op in ("/", "%"):
                    if isinstance(a, float) or isinstance(b, float):
                        a, b = float(a), float(b)
                        if op == "%":
                            return math.fmod(a, b) if b != 0 and abs(a) != float("inf") else float("nan")
                        if b == 0:
                            return float("nan") if a == 0 or a != a else math.copysign(float("inf"), a) * math.copysign(1.0, b)
                        return a / b
                    if b == 0:
                        return Unknown("panic reached: attempt to divide by zero")
                    q = abs(a) // abs(b) * (1 if (a >= 0) == (b >= 0) else -1)   # Rust truncates toward zero
                    return q if op == "/" else a - b * q
            except Exception as e:  # pragma: no cover
                return Unknown("arith " + str(e))
        if op == "+" and isinstance(a, (Rope, str)) and isinstance(b, (Rope, str)):
            r = Rope()
            r.add(a)
            r.add(b)
            return r
        if isinstance(a, bool) and isinstance(b, bool):
            if op == "&":
                return a and b
            if op == "|":
                return a or b
            if op == "^":
                return a != b
        return Unknown("binary %s on %r, %r" % (op, a, b))

    def ev_Call(self, n, env):
        callee = n.get("resolved") or n.get("callee")
        args = [self.ev(a, env) for a in n["args"]]
        if callee is None:
            f = self.ev(n["f"], env)
            return self.apply(f, args)
        dk = n.get("dk")
        cn = norm(callee)
        if dk == "Variant" or dk == "StructCtor":
            return Var(cn, args)
        if cn in self.models:
            return self.models[cn](self, args)
        if cn in ("std::mem::take", "core::mem::take", "std::mem::replace", "core::mem::replace") and n["args"]:
            old_v = args[0]
            if is_unknown(old_v):
                return old_v
            if cn.endswith("take"):
                new_v = ListV([]) if isinstance(old_v, ListV) else (Rope() if isinstance(old_v, Rope) else (0.0 if isinstance(old_v, float) else (0 if isinstance(old_v, int) else (False if isinstance(old_v, bool) else (Var(NONE_PATHS[0]) if isinstance(old_v, Var) and (old_v.path in SOME_PATHS or old_v.path in NONE_PATHS) else None)))))
                if new_v is None:
                    return Unknown("mem::take of %r" % (old_v,))
            else:
                new_v = args[1]
            r = self.assign_place(n["args"][0], new_v, env)
            return r if is_unknown(r) else old_v
        if cn.endswith("box_assume_init_into_vec_unsafe") and args:
            return args[0]
        if cn.endswith("write_box_via_move") and len(args) == 2:
            return args[1]
        if cn.endswith("Box::new_uninit"):
            return Sym("uninit")
        if cn in ("std::vec::Vec::new", "alloc::vec::Vec::new", "std::vec::Vec::with_capacity"):
            return ListV([])
        if cn.endswith("vec::from_elem") and len(args) == 2 and isinstance(args[1], int):
            return ListV([_deep_clone(args[0]) for _ in range(args[1])])
        if cn in ("std::string::String::new", "alloc::string::String::new", "std::string::String::with_capacity"):
            return Rope()
        if cn.endswith("ops::RangeInclusive::new") and len(args) == 2:
            return Var("std::ops::RangeInclusive", fields={"start": args[0], "end": args[1]})
        if cn.startswith(("<indexmap::IndexMap", "<std::collections::HashMap", "<std::vec::Vec", "<indexmap::IndexSet", "<std::collections::HashSet", "<std::collections::VecDeque")) and cn.endswith(("::from", "::from_iter")) and len(args) == 1 and isinstance(args[0], ListV):
            items = list(args[0].items)
            if ("Map" in cn.split(" as ")[0]) and all(isinstance(x, tuple) and len(x) == 2 for x in items):
                seen = {}
                for k_, v_ in items:
                    seen[_hashable(_plain(k_))] = (k_, v_)   # later entries win, first position kept
                out, done = [], set()
                for k_, v_ in items:
                    h = _hashable(_plain(k_))
                    if h not in done:
                        done.add(h)
                        out.append(seen[h])
                items = out
            return ListV(items)
        if cn in ("indexmap::IndexMap::new", "indexmap::IndexMap::with_capacity", "std::collections::HashMap::new", "std::collections::BTreeMap::new", "indexmap::IndexSet::new", "std::collections::HashSet::new"):
            return ListV([])
        if cn in ("std::convert::From::from", "std::convert::Into::into") and len(args) == 1:
            r = self.local_from(args[0], base_ty(self.F.ty(n) or ""))
            if r is not None:
                return r
        if cn in ("std::boxed::Box::new", "alloc::boxed::Box::new", "std::convert::From::from", "std::string::String::from", "std::convert::Into::into") or (cn.startswith("<std::string::String as std::convert::From<") and cn.endswith(">::from")):
            return self.as_string(args[0]) if cn.endswith(("String::from", ">::from")) and "String" in cn else args[0]
        if cn in ("std::string::ToString::to_string",):
            return self.display(args[0])
        if cn in self.F.fns or any(norm(p) == cn for p in ()):
            return self.call_fn(callee, args)
        f = self.F.fns.get(callee)
        if f is not None:
            return self.call_fn(callee, args)
        r_ = self.std_fn(cn, args, n)
        if r_ is not NotImplemented:
            return r_
        return Unknown("call to " + cn)

    def std_fn(self, cn, args, n=None):
        """standard-library functions called by path or used as function values (`.map(ToString::to_string)`, `map_or_else(String::new, ..)`)"""
        n = n or {}
        last = cn.rsplit("::", 1)[-1]
        if cn in ("std::string::String::new", "alloc::string::String::new") and not args:
            return Rope()
        if cn in ("std::vec::Vec::new", "alloc::vec::Vec::new", "std::collections::VecDeque::new", "indexmap::IndexMap::new", "indexmap::IndexSet::new", "std::collections::HashMap::new", "std::collections::HashSet::new", "std::collections::BTreeMap::new", "std::collections::BTreeSet::new", "std::iter::empty", "core::iter::empty") and not args:
            return ListV([])
        if cn in ("std::slice::from_ref", "core::slice::from_ref", "std::iter::once", "core::iter::once", "std::slice::from_mut") and len(args) == 1:
            return ListV([args[0]])
        if cn in ("std::convert::identity", "core::convert::identity") and len(args) == 1:
            return args[0]
        if cn in ("std::string::ToString::to_string",) and len(args) == 1:
            return self.display(args[0])
        if cn in ("std::clone::Clone::clone", "std::borrow::ToOwned::to_owned") and len(args) == 1:
            return _deep_clone(args[0]) if isinstance(args[0], (ListV, Var, tuple, Rope)) else args[0]
        if cn in ("std::cmp::max", "std::cmp::min", "core::cmp::max", "core::cmp::min", "std::cmp::Ord::max", "std::cmp::Ord::min") and len(args) == 2:
            ka, kb = self._ord_key(args[0]), self._ord_key(args[1])
            if ka is None or kb is None:
                return NotImplemented
            if last == "max":
                return args[1] if kb >= ka else args[0]
            return args[0] if ka <= kb else args[1]
        if cn in ("std::mem::swap", "core::mem::swap"):
            return NotImplemented
        if cn.endswith(("option::Option::Some", "prelude::v1::Some")) and len(args) == 1:
            return Var(SOME_PATHS[0], [args[0]])
        if cn.endswith(("result::Result::Ok", "prelude::v1::Ok")) and len(args) == 1:
            return Var(OK_PATHS[0], [args[0]])
        if cn.endswith(("result::Result::Err", "prelude::v1::Err")) and len(args) == 1:
            return Var(ERR_PATHS[0], [args[0]])
        # a method named by path: `str::len`, `Option::is_some`, `f64::abs`, `<[T]>::len`, `Vec::<T>::len`
        if args and cn.startswith(("std::", "core::", "alloc::", "<", "str::", "f64::", "i64::", "usize::", "i32::", "u64::", "bool::", "char::", "indexmap::")) and "::" in cn:
            r_ = self.builtin_method(last, cn, args[0], list(args[1:]), n)
            if not (is_unknown(r_) and str(getattr(r_, "why", "")).startswith("method %s " % last)):
                return r_
        return NotImplemented

    def local_from(self, v, target):
        """apply a local `impl From<S> for target` to v, if there is exactly one for v's type"""
        src = self.type_of(v)
        if src is None:
            src = {bool: "bool", int: "i32", float: "f64"}.get(type(v))
        if src is None or not target:
            return None
        if base_ty(src) == target:
            return v
        for imp in self.F.items["impls"]:
            if imp.get("trait") in ("std::convert::From", "core::convert::From") and base_ty(imp["self_ty"]) == target:
                tr = imp.get("trait_ref") or ""
                if ("From<%s>" % src) in tr:
                    for m in imp["methods"]:
                        if m["name"] == "from":
                            return self.call_fn(m["path"], [v])
        return None

    def as_string(self, v):
        if isinstance(v, str):
            return Rope([v])
        return v

    def apply(self, f, args):
        if isinstance(f, Closure):
            env = dict(f.env)
            params = f.node["params"]
            if len(params) != len(args):
                return Unknown("closure arity")
            for p, a in zip(params, args):
                if self.bind(p, a, env) is not True:
                    return Unknown("closure param bind")
            try:
                try:
                    return self.ev(f.node["body"], env)
                except _Return as r:
                    return r.v
            finally:
                # FnMut: writes to captured locals are visible to the defining frame and to later calls
                for k_ in f.env:
                    if k_ in env:
                        f.env[k_] = env[k_]
        if isinstance(f, Var) and not f.args and not f.fields and ("::" in f.path):
            # an enum variant / tuple struct constructor used as a function (`.map(Primitive::GraphNode)`)
            return Var(f.path, list(args))
        if isinstance(f, FnRef):
            pn = norm(f.path)
            if len(args) == 1 and isinstance(args[0], str) and len(args[0]) == 1 and "char" in pn:
                table = {"is_alphabetic": str.isalpha, "is_numeric": str.isnumeric, "is_alphanumeric": str.isalnum, "is_whitespace": str.isspace,
                         "is_ascii_digit": lambda c: c in "0123456789", "is_ascii_alphabetic": lambda c: c.isascii() and c.isalpha(),
                         "is_ascii_alphanumeric": lambda c: c.isascii() and c.isalnum(), "is_uppercase": str.isupper, "is_lowercase": str.islower}
                for k_, f_ in table.items():
                    if pn.endswith("::" + k_):
                        return bool(f_(args[0]))
            if pn.endswith(("f64>::min", "f64>::max", "f64::min", "f64::max")) and len(args) == 2 and all(isinstance(a, (int, float)) and not isinstance(a, bool) for a in args):
                a, b = float(args[0]), float(args[1])
                if a != a:
                    return b
                if b != b:
                    return a
                return min(a, b) if pn.endswith("min") else max(a, b)
            return self.call_fn(f.path, args)
        return Unknown("apply %r" % (f,))

    def ev_MCall(self, n, env):
        name = n["name"]
        recv = self.ev(n["recv"], env)
        callee = n.get("resolved") or n.get("callee") or ""
        cn = norm(callee)
        args = [self.ev(a, env) for a in n["args"]]
        if cn in self.models:
            return self.models[cn](self, [recv] + args)
        # Option's in-place setters: the receiver is a place
        if name in ("get_or_insert", "insert", "replace") and len(args) == 1 and "option::Option" in cn and isinstance(recv, Var) and (recv.path in SOME_PATHS or recv.path in NONE_PATHS):
            if name == "get_or_insert" and recv.path in SOME_PATHS:
                return recv.args[0]
            place = n["recv"]
            while isinstance(place, dict) and place.get("k") in ("AddrOf", "Deref") and "e" in place:
                place = place["e"]
            r = self.assign_place(place, Var(SOME_PATHS[0], [args[0]]), env)
            if is_unknown(r):
                return r
            return recv if name == "replace" else args[0]
        # `x.into()` through a local `From<X> for Y` impl (Y is the type of the call expression)
        if name == "into" and not args:
            r = self.local_from(recv, base_ty(self.F.ty(n) or ""))
            if r is not None:
                return r
        # local function with a body
        f = self.F.fns.get(callee)
        if f is not None and "body" in f and f.get("in_trait") and isinstance(recv, Var):
            # a provided trait method: the receiver's own impl may override it
            t = self.type_of(recv)
            if t:
                imp = "<%s as %s>::%s" % (norm(t), norm(f["in_trait"]), name)
                if imp not in self._dyn_cache:
                    g = self.F.fns.get(imp)
                    if g is None:
                        for p_, ff in self.F.fns.items():
                            if p_.startswith("<") and p_.endswith(">::" + name) and norm(p_) == imp:
                                g = ff
                                break
                    self._dyn_cache[imp] = g["path"] if g is not None and "body" in g else None
                if self._dyn_cache[imp] is not None:
                    return self.call_fn(self._dyn_cache[imp], [recv] + args)
        if f is not None and "body" in f:
            recv2 = self.coerce_recv(recv, callee) if isinstance(recv, Var) else recv
            return self.call_fn(callee, [recv2] + args)
        # dynamic dispatch: a trait method called on a value whose concrete type is known (Box<dyn Trait>, &dyn Trait)
        if isinstance(recv, Var) and "::" in cn:
            trait = cn.rsplit("::", 1)[0]
            t = self.type_of(recv)
            if t:
                imp = "<%s as %s>::%s" % (norm(t), trait, name)
                if imp not in self._dyn_cache:
                    g = self.F.fns.get(imp)
                    if g is None and not trait.startswith(("std::", "core::", "alloc::")):
                        for p_, ff in self.F.fns.items():
                            if p_.startswith("<") and p_.endswith(">::" + name) and norm(p_) == imp:
                                g = ff
                                break
                    self._dyn_cache[imp] = g["path"] if g is not None and "body" in g else None
                tgt = self._dyn_cache[imp]
                if tgt is not None:
                    return self.call_fn(tgt, [recv] + args)
        return self.builtin_method(name, cn, recv, args, n)

    def lazy_items(self, it):
        """generator over the items of a LazyIter (bounded)"""
        skip = {}
        produced = 0
        i = it.start
        counters = [0] * len(it.stages)
        while produced < LazyIter.LIMIT and i < it.start + 10 * LazyIter.LIMIT:
            v = i
            i += 1
            keep = True
            for si, (kind, f) in enumerate(it.stages):
                if kind == "map":
                    v = self.apply(f, [v])
                elif kind == "filter":
                    r = self.apply(f, [v])
                    if r is not True:
                        if r is not False:
                            yield Unknown("predicate not boolean: %r" % (r,))
                            return
                        keep = False
                        break
                elif kind == "filter_map":
                    r = self.apply(f, [v])
                    if isinstance(r, Var) and r.path in SOME_PATHS:
                        v = r.args[0]
                    elif isinstance(r, Var) and r.path in NONE_PATHS:
                        keep = False
                        break
                    else:
                        yield r if is_unknown(r) else Unknown("filter_map result %r" % (r,))
                        return
                elif kind == "skip":
                    if counters[si] < f:
                        counters[si] += 1
                        keep = False
                        break
                elif kind == "step_by":
                    c = counters[si]
                    counters[si] += 1
                    if c % f != 0:
                        keep = False
                        break
                elif kind == "enumerate":
                    v = (counters[si], v)
                    counters[si] += 1
                if is_unknown(v):
                    yield v
                    return
            if keep:
                produced += 1
                yield v
        yield Unknown("unbounded iterator not consumed within %d items" % LazyIter.LIMIT)

    def lazy_method(self, name, recv, args):
        if name in ("map", "filter", "filter_map") and len(args) == 1:
            return LazyIter(recv.start, recv.stages + [(name, args[0])])
        if name in ("skip", "step_by") and len(args) == 1 and isinstance(args[0], int):
            return LazyIter(recv.start, recv.stages + [(name, args[0])])
        if name == "enumerate" and not args:
            return LazyIter(recv.start, recv.stages + [("enumerate", None)])
        if name in ("into_iter", "iter", "by_ref", "peekable", "fuse") and not args:
            return recv
        if name == "next" and not args:
            # `next` consumes: the iterator object keeps its position (a counter handed out one by one inside a closure)
            if getattr(recv, "gen", None) is None:
                recv.gen = self.lazy_items(recv)
            v = next(recv.gen, Unknown("unbounded iterator exhausted"))
            return v if is_unknown(v) else Var(SOME_PATHS[0], [v])
        gen = getattr(recv, "gen", None) or self.lazy_items(recv)
        if name == "take" and len(args) == 1 and isinstance(args[0], int):
            out = []
            for v in gen:
                if len(out) >= args[0]:
                    break
                if is_unknown(v):
                    return v
                out.append(v)
            return ListV(out)
        if name == "zip" and len(args) == 1 and isinstance(args[0], ListV):
            out = []
            for v, w in zip(gen, args[0].items):
                if is_unknown(v):
                    return v
                out.append((v, w))
            return ListV(out)
        if name in ("find", "position", "any", "all", "find_map", "take_while", "nth", "next"):
            out = []
            for k, v in enumerate(gen):
                if is_unknown(v):
                    return v
                if name == "next":
                    return Var(SOME_PATHS[0], [v])
                if name == "nth":
                    if isinstance(args[0], int) and k == args[0]:
                        return Var(SOME_PATHS[0], [v])
                    continue
                r = self.apply(args[0], [v])
                if name == "find_map":
                    if isinstance(r, Var) and r.path in SOME_PATHS:
                        return r
                    if isinstance(r, Var) and r.path in NONE_PATHS:
                        continue
                    return r if is_unknown(r) else Unknown("find_map result %r" % (r,))
                if not isinstance(r, bool):
                    return r if is_unknown(r) else Unknown("predicate not boolean: %r" % (r,))
                if name == "find" and r:
                    return Var(SOME_PATHS[0], [v])
                if name == "position" and r:
                    return Var(SOME_PATHS[0], [k])
                if name == "any" and r:
                    return True
                if name == "all" and not r:
                    return False
                if name == "take_while":
                    if not r:
                        return ListV(out)
                    out.append(v)
        return Unknown("method %s on an unbounded iterator" % name)

    def builtin_method(self, name, cn, recv, args, n):
        if isinstance(recv, Var) and recv.path.endswith("ops::RangeFrom") and isinstance(recv.fields.get("start"), int):
            if name == "next" and not args:
                # a raw `start..` kept in a local and consumed one by one: the range value itself advances
                v0 = recv.fields["start"]
                recv.fields["start"] = v0 + 1
                return Var(SOME_PATHS[0], [v0])
            recv = LazyIter(recv.fields["start"])
        if isinstance(recv, LazyIter):
            return self.lazy_method(name, recv, args)
        if name == "zip" and isinstance(recv, ListV) and len(args) == 1 and ((isinstance(args[0], Var) and args[0].path.endswith("ops::RangeFrom") and isinstance(args[0].fields.get("start"), int)) or isinstance(args[0], LazyIter)):
            it = args[0] if isinstance(args[0], LazyIter) else LazyIter(args[0].fields["start"])
            out = []
            for v, w in zip(recv.items, self.lazy_items(it)):
                if is_unknown(w):
                    return w
                out.append((v, w))
            return ListV(out)
        # an integer range used as an iterator
        if isinstance(recv, Var) and "ops::Range" in recv.path and isinstance(recv.fields.get("start", 0), int) and isinstance(recv.fields.get("end"), int) and name in ("collect", "rev", "map", "filter", "filter_map", "flat_map", "for_each", "fold", "all", "any", "into_iter", "iter", "step_by", "zip", "enumerate", "sum", "count", "len", "find", "position", "skip", "take"):
            hi_ = recv.fields["end"] + (1 if recv.path.endswith("RangeInclusive") else 0)
            recv = ListV(list(range(recv.fields.get("start", 0), hi_)))
        # `iter.collect::<Option<Vec<_>>>()` / `Result<Vec<_>, _>`: the first None/Err wins
        if name == "collect" and not args and isinstance(recv, ListV):
            ty = self.F.ty(n) or ""
            t0_ = ty.replace("&", "").replace("mut ", "").strip()
            if re.match(r"(indexmap::(map::)?IndexMap|std::collections::(hash_map::)?HashMap|std::collections::(btree_map::)?BTreeMap|IndexMap|HashMap|BTreeMap)<", t0_) and all(isinstance(x, tuple) and len(x) == 2 for x in recv.items):
                # collecting pairs into a map: one entry per key, at the place of its first appearance, holding the last value
                out_, pos_ = [], {}
                for k_, v_ in recv.items:
                    kk = _plain(k_)
                    try:
                        hash(kk)
                    except TypeError:
                        return Unknown("collect into a map with an unhashable key %r" % (k_,))
                    if kk in pos_:
                        out_[pos_[kk]] = (out_[pos_[kk]][0], v_)
                    else:
                        pos_[kk] = len(out_)
                        out_.append((k_, v_))
                return ListV(out_)
            if re.match(r"(indexmap::(set::)?IndexSet|std::collections::(hash_set::)?HashSet|IndexSet|HashSet)<", t0_):
                out_, seen_ = [], set()
                for x_ in recv.items:
                    kk = _plain(x_)
                    try:
                        if kk in seen_:
                            continue
                        seen_.add(kk)
                    except TypeError:
                        return Unknown("collect into a set with an unhashable element %r" % (x_,))
                    out_.append(x_)
                return ListV(out_)
            if ty.startswith(("std::option::Option<", "core::option::Option<", "Option<", "std::result::Result<", "core::result::Result<", "Result<")):
                is_opt = "Option<" in ty.split("<", 1)[0] + "<"
                out = []
                for x in recv.items:
                    if not isinstance(x, Var):
                        return Unknown("collect of a non-variant element %r" % (x,))
                    if x.path in NONE_PATHS or x.path in ERR_PATHS:
                        return x
                    if not (x.path in SOME_PATHS or x.path in OK_PATHS) or not x.args:
                        return Unknown("collect of %r" % (x,))
                    out.append(x.args[0])
                return Var(SOME_PATHS[0] if is_opt else OK_PATHS[0], [ListV(out)])
        if isinstance(recv, Var) and (recv.path in SOME_PATHS or recv.path in NONE_PATHS or recv.path in OK_PATHS or recv.path in ERR_PATHS):
            some, none, ok, err = recv.path in SOME_PATHS, recv.path in NONE_PATHS, recv.path in OK_PATHS, recv.path in ERR_PATHS
            if not args:
                if name in ("is_none", "is_some") and (some or none):
                    return none if name == "is_none" else some
                if name in ("is_err", "is_ok") and (ok or err):
                    return err if name == "is_err" else ok
                if name == "transpose" and none:
                    return Var(OK_PATHS[0], [recv])
                if name == "transpose" and some and isinstance(recv.args[0], Var) and recv.args[0].path in OK_PATHS:
                    return Var(OK_PATHS[0], [Var(SOME_PATHS[0], [recv.args[0].args[0]])])
                if name == "transpose" and some and isinstance(recv.args[0], Var) and recv.args[0].path in ERR_PATHS:
                    return recv.args[0]
                if name == "ok" and (ok or err):
                    return Var(SOME_PATHS[0], [recv.args[0]]) if ok else Var(NONE_PATHS[0])
            if len(args) == 1:
                if name == "map" and (ok or err):
                    if err:
                        return recv
                    r = self.apply(args[0], [recv.args[0]])
                    return r if is_unknown(r) else Var(OK_PATHS[0], [r])
                if name == "map_err" and (ok or err):
                    if ok:
                        return recv
                    r = self.apply(args[0], [recv.args[0]])
                    return r if is_unknown(r) else Var(ERR_PATHS[0], [r])
                if name == "unwrap_or" and (ok or err):
                    return recv.args[0] if ok else args[0]
                if name == "unwrap_or_else" and (some or ok):
                    return recv.args[0]
                if name == "unwrap_or_else" and none:
                    return self.apply(args[0], [])
                if name == "unwrap_or_else" and err:
                    return self.apply(args[0], [recv.args[0]])
                if name in ("ok_or_else", "ok_or") and (some or none):
                    if some:
                        return Var(OK_PATHS[0], [recv.args[0]])
                    r = self.apply(args[0], []) if name == "ok_or_else" else args[0]
                    return r if is_unknown(r) else Var(ERR_PATHS[0], [r])
                if name == "and_then" and (some or none or ok or err):
                    if none or err:
                        return recv
                    return self.apply(args[0], [recv.args[0]])
            if len(args) == 2 and name in ("map_or", "map_or_else") and (some or none or ok or err):
                if some or ok:
                    return self.apply(args[1], [recv.args[0]])
                return args[0] if name == "map_or" else self.apply(args[0], [recv.args[0]] if err else [])
            if len(args) == 1:
                if name == "and_then_" and (some or none or ok or err):
                    if none or err:
                        return recv
                    return self.apply(args[0], [recv.args[0]])
                if name == "expect" and (some or ok):
                    return recv.args[0]
        if name == "parse" and not args and isinstance(recv, (str, Rope)):
            txt = recv if isinstance(recv, str) else (recv.text() if all(isinstance(x, str) for x in recv.pieces) else None)
            ty = self.F.ty(n) or ""
            mt = re.match(r"^(?:std|core)::result::Result<(.*), [^,]*>$", ty)
            if txt is not None and mt:
                target = mt.group(1).strip()
                if target in ("f64", "f32"):
                    if re.fullmatch(r"[+-]?(\d+\.?\d*([eE][+-]?\d+)?|\.\d+([eE][+-]?\d+)?|inf|infinity|nan)", txt, re.I):
                        return Var(OK_PATHS[0], [float(txt)])
                    return Var(ERR_PATHS[0], [Leaf("ParseFloatError")])
                if target in ("i64", "i32", "u64", "u32", "usize", "isize", "u8", "i8", "u16", "i16"):
                    if re.fullmatch(r"[+-]?\d+", txt) and not (target.startswith("u") and txt.startswith("-")):
                        v = int(txt)
                        bits = {"i64": 63, "i32": 31, "u64": 64, "u32": 32, "usize": 64, "isize": 63, "u8": 8, "i8": 7, "u16": 16, "i16": 15}[target]
                        lo = 0 if target.startswith("u") else -(1 << bits)
                        if lo <= v < (1 << bits):
                            return Var(OK_PATHS[0], [v])
                    return Var(ERR_PATHS[0], [Leaf("ParseIntError")])
                fs = "<%s as std::str::FromStr>::from_str" % target
                if self.F.fn(fs) is not None:
                    return self.call_fn(fs, [txt])
            return Unknown("parse::<%s> of %r" % (ty, recv))
        if name == "map" and len(args) == 1 and isinstance(recv, Var) and (recv.path in SOME_PATHS or recv.path in NONE_PATHS):
            if recv.path in NONE_PATHS:
                return recv
            r = self.apply(args[0], [recv.args[0]])
            return r if is_unknown(r) else Var(SOME_PATHS[0], [r])
        if name in ("clone", "to_owned", "as_ref", "borrow", "as_str", "as_mut", "deref", "into", "to_vec", "iter", "into_iter", "collect", "cloned", "copied", "as_slice", "by_ref", "into_boxed", "to_boxed") and not args:
            if name == "deref" and isinstance(recv, Var):
                d = self.deref(recv)
                if d is not None:
                    return d
            if name in ("clone", "to_vec", "to_owned", "cloned") and isinstance(recv, (ListV, Var, tuple, Rope)):
                return _deep_clone(recv)
            if isinstance(recv, ListV) and name in ("iter", "into_iter", "collect"):
                return ListV(list(recv.items))
            return recv
        if is_unknown(recv):
            return recv
        if name == "to_string" and not args:
            return self.display(recv)
        if name == "write_str" and isinstance(recv, Fmt):
            r = self.display(args[0])
            if is_unknown(r):
                return r
            recv.buf.add(r)
            return Var(OK_PATHS[0], [UNIT])
        if name == "push" and isinstance(recv, Rope) and len(args) == 1 and isinstance(args[0], str):
            recv.add(args[0])
            return UNIT
        if name == "push_str" and isinstance(recv, Rope):
            r = self.display(args[0])
            if is_unknown(r):
                return r
            recv.add(r)
            return UNIT
        if name == "value" and isinstance(recv, Var) and "value" in recv.fields:
            return recv.fields["value"]
        if isinstance(recv, ListV) and ("IndexSet" in cn or "HashSet" in cn or "BTreeSet" in cn):
            if name == "insert" and len(args) == 1:
                if any(_plain(x) == _plain(args[0]) for x in recv.items):
                    return False
                recv.items.append(args[0])
                return True
            if name == "extend" and len(args) == 1 and isinstance(args[0], ListV):
                for y in args[0].items:
                    if not any(_plain(x) == _plain(y) for x in recv.items):
                        recv.items.append(y)
                return UNIT
            if name in ("shift_remove", "swap_remove", "remove") and len(args) == 1:
                for i_, x in enumerate(recv.items):
                    if _plain(x) == _plain(args[0]):
                        del recv.items[i_]
                        return True
                return False
        if isinstance(recv, ListV):
            if name == "push" and len(args) == 1:
                recv.items.append(args[0])
                return UNIT
            if name == "extend" and len(args) == 1 and isinstance(args[0], ListV):
                recv.items.extend(args[0].items)
                return UNIT
            if name == "next" and not args:
                if recv.items:
                    return Var(SOME_PATHS[0], [recv.items.pop(0)])
                return Var(NONE_PATHS[0])
            if name == "pop_front" and not args:
                if recv.items:
                    return Var(SOME_PATHS[0], [recv.items.pop(0)])
                return Var(NONE_PATHS[0])
            if name in ("push_back",) and len(args) == 1:
                recv.items.append(args[0])
                return UNIT
            if name in ("push_front",) and len(args) == 1:
                recv.items.insert(0, args[0])
                return UNIT
            if name in ("pop_back",) and not args:
                if recv.items:
                    return Var(SOME_PATHS[0], [recv.items.pop()])
                return Var(NONE_PATHS[0])
            if name == "pop" and not args:
                if recv.items:
                    return Var(SOME_PATHS[0], [recv.items.pop()])
                return Var(NONE_PATHS[0])
            if name in ("last", "last_mut", "first_mut") and not args:
                if not recv.items:
                    return Var(NONE_PATHS[0])
                i_ = 0 if name == "first_mut" else len(recv.items) - 1
                x = recv.items[i_]
                return Var(SOME_PATHS[0], [x if isinstance(x, (Var, ListV)) or name == "last" else _slot_ref(recv, i_)])
            if name == "first" and not args:
                return Var(SOME_PATHS[0], [recv.items[0]]) if recv.items else Var(NONE_PATHS[0])
            if name == "rev" and not args:
                return ListV(list(reversed(recv.items)))
        if name == "fold" and isinstance(recv, ListV) and len(args) == 2:
            acc = args[0]
            for x in recv.items:
                acc = self.apply(args[1], [acc, x])
                if is_unknown(acc):
                    return acc
            return acc
        if name in ("all", "any") and isinstance(recv, ListV) and len(args) == 1:
            res = []
            for x in recv.items:
                r = self.apply(args[0], [x])
                if not isinstance(r, bool):
                    return Unknown("predicate not boolean: %r" % (r,))
                res.append(r)
            return all(res) if name == "all" else any(res)
        if name == "iter_mut" and isinstance(recv, ListV) and not args:
            return _mut_view(recv)
        if name == "values_mut" and isinstance(recv, ListV) and not args and all(isinstance(x, tuple) and len(x) == 2 for x in recv.items):
            return ListV([x[1] for x in _mut_view(recv).items])
        if name == "get_mut" and isinstance(recv, ListV) and len(args) == 1 and isinstance(args[0], int) and not all(isinstance(x, tuple) and len(x) == 2 for x in recv.items):
            i_ = args[0]
            if 0 <= i_ < len(recv.items):
                x = recv.items[i_]
                return Var(SOME_PATHS[0], [x if isinstance(x, (Var, ListV)) else _slot_ref(recv, i_)])
            return Var(NONE_PATHS[0])
        if name in ("as_mut_slice", "as_mut") and isinstance(recv, ListV) and not args:
            return recv
        if name == "for_each" and isinstance(recv, ListV) and len(args) == 1:
            for x in list(recv.items):
                r = self.apply(args[0], [x])
                if is_unknown(r):
                    return r
            return UNIT
        if name == "resize" and isinstance(recv, ListV) and len(args) == 2 and isinstance(args[0], int):
            if len(recv.items) > args[0]:
                del recv.items[args[0]:]
            while len(recv.items) < args[0]:
                recv.items.append(_deep_clone(args[1]))
            return UNIT
        if name in ("shift_remove", "swap_remove", "remove") and isinstance(recv, ListV) and len(args) == 1 and all(isinstance(x, tuple) and len(x) == 2 for x in recv.items) and recv.items and not isinstance(args[0], int):
            for i_, (k_, v_) in enumerate(recv.items):
                if _plain(k_) == _plain(args[0]):
                    del recv.items[i_]
                    return Var(SOME_PATHS[0], [v_])
            return Var(NONE_PATHS[0])
        if name == "remove" and isinstance(recv, ListV) and len(args) == 1 and isinstance(args[0], int) and 0 <= args[0] < len(recv.items):
            return recv.items.pop(args[0])
        if name in ("find", "position") and isinstance(recv, ListV) and len(args) == 1:
            for i_, x in enumerate(recv.items):
                r = self.apply(args[0], [x])
                if not isinstance(r, bool):
                    return Unknown("find predicate not boolean: %r" % (r,))
                if r:
                    return Var(SOME_PATHS[0], [x if name == "find" else i_])
            return Var(NONE_PATHS[0])
        if name in ("sort", "sort_unstable") and isinstance(recv, ListV) and not args:
            keys = [_plain(x) for x in recv.items]
            if all(isinstance(k_, str) for k_ in keys):
                # Rust orders strings by bytes
                order = sorted(range(len(keys)), key=lambda i_: keys[i_].encode("utf8"))
            elif all(isinstance(k_, (int, float)) and not isinstance(k_, bool) for k_ in keys):
                order = sorted(range(len(keys)), key=lambda i_: keys[i_])
            else:
                ks = [self._ord_key(x) for x in recv.items]
                if any(k_ is None for k_ in ks):
                    return Unknown("sort of %r" % (recv,))
                order = sorted(range(len(ks)), key=lambda i_: ks[i_])
            recv.items[:] = [recv.items[i_] for i_ in order]
            return UNIT
        if name == "flatten" and isinstance(recv, ListV) and not args:
            out = []
            for x in recv.items:
                if is_unknown(x):
                    return x
                if isinstance(x, ListV):
                    out.extend(x.items)
                elif isinstance(x, Var) and (x.path in SOME_PATHS or x.path in OK_PATHS):
                    out.append(x.args[0])
                elif isinstance(x, Var) and (x.path in NONE_PATHS or x.path in ERR_PATHS):
                    continue
                else:
                    return Unknown("flatten of %r" % (x,))
            return ListV(out)
        if name == "zip" and isinstance(recv, ListV) and len(args) == 1 and isinstance(args[0], ListV):
            return ListV([(a_, b_) for a_, b_ in zip(recv.items, args[0].items)])
        if name == "step_by" and isinstance(recv, ListV) and len(args) == 1 and isinstance(args[0], int) and args[0] > 0:
            return ListV(recv.items[::args[0]])
        if name in ("skip", "take") and isinstance(recv, ListV) and len(args) == 1 and isinstance(args[0], int):
            return ListV(recv.items[args[0]:] if name == "skip" else recv.items[:args[0]])
        if name == "last" and isinstance(recv, ListV) and not args:
            return Var(SOME_PATHS[0], [recv.items[-1]]) if recv.items else Var(NONE_PATHS[0])
        if name == "sum" and isinstance(recv, ListV) and not args and all(isinstance(x, (int, float)) and not isinstance(x, bool) for x in recv.items):
            tot = 0.0 if any(isinstance(x, float) for x in recv.items) or "f64" in (self.F.ty(n) or "") else 0
            for x in recv.items:
                tot = tot + x
            return tot
        if name == "count" and isinstance(recv, ListV) and not args:
            return len(recv.items)
        if name in ("min", "max") and cn.endswith(("Iterator::min", "Iterator::max")) and isinstance(recv, ListV) and not args and all(isinstance(x, int) and not isinstance(x, bool) for x in recv.items):
            return Var(SOME_PATHS[0], [min(recv.items) if name == "min" else max(recv.items)]) if recv.items else Var(NONE_PATHS[0])
        if name == "chain" and isinstance(recv, ListV) and len(args) == 1 and isinstance(args[0], ListV):
            return ListV(list(recv.items) + list(args[0].items))
        if name == "filter" and isinstance(recv, ListV) and len(args) == 1:
            out = []
            for x in recv.items:
                r = self.apply(args[0], [x])
                if not isinstance(r, bool):
                    return Unknown("filter predicate not boolean: %r" % (r,))
                if r:
                    out.append(x)
            return ListV(out)
        if name in ("reserve", "shrink_to_fit") and isinstance(recv, ListV):
            return UNIT
        if name == "retain" and isinstance(recv, ListV) and len(args) == 1 and isinstance(args[0], Closure) and len(args[0].node["params"]) == 2 and all(isinstance(x, tuple) and len(x) == 2 for x in recv.items):
            # map.retain(|key, value| ..): the closure may write through `value`
            f = args[0]
            keep = []
            for k_, v_ in recv.items:
                env = dict(f.env)
                pk, pv = f.node["params"]
                if self.bind(pk, k_, env) is not True or self.bind(pv, v_, env) is not True:
                    return Unknown("retain closure params")
                try:
                    r = self.ev(f.node["body"], env)
                except _Return as rr:
                    r = rr.v
                if not isinstance(r, bool):
                    return Unknown("retain predicate not boolean: %r" % (r,))
                ids = [n_["id"] for n_ in _walk_pat(pv) if n_.get("k") == "PBind"]
                nv = env.get(ids[0], v_) if ids else v_
                for kk in f.env:
                    if kk in env:
                        f.env[kk] = env[kk]
                if r:
                    keep.append((k_, nv))
            recv.items[:] = keep
            return UNIT
        if name == "retain" and isinstance(recv, ListV) and len(args) == 1:
            keep = []
            for x in recv.items:
                r = self.apply(args[0], [x])
                if not isinstance(r, bool):
                    return Unknown("retain predicate not boolean: %r" % (r,))
                if r:
                    keep.append(x)
            recv.items[:] = keep
            return UNIT
        if name == "enumerate" and isinstance(recv, ListV) and not args:
            return ListV([(i, x) for i, x in enumerate(recv.items)])
        if name in ("flat_map", "filter_map") and isinstance(recv, ListV) and len(args) == 1:
            out = []
            for x in recv.items:
                r = self.apply(args[0], [x])
                if is_unknown(r):
                    return r
                if isinstance(r, Var) and r.path in NONE_PATHS:
                    continue
                if isinstance(r, Var) and r.path in SOME_PATHS:
                    out.append(r.args[0])
                elif isinstance(r, ListV) and name == "flat_map":
                    out.extend(r.items)
                else:
                    return Unknown("%s closure result %r" % (name, r))
            return ListV(out)
        if name == "map" and isinstance(recv, ListV):
            out = []
            for x in recv.items:
                r = self.apply(args[0], [x])
                if is_unknown(r):
                    return r
                out.append(r)
            return ListV(out)
        if name == "join" and isinstance(recv, ListV):
            sep = self.display(args[0])
            if is_unknown(sep):
                return sep
            rope = Rope()
            for i, x in enumerate(recv.items):
                if i:
                    rope.add(sep)
                r = self.display(x)
                if is_unknown(r):
                    return r
                rope.add(r)
            return rope
        if name == "contains" and isinstance(recv, ListV) and len(args) == 1 and not is_unknown(args[0]):
            return any(_plain(x) == _plain(args[0]) for x in recv.items)
        if name == "get" and isinstance(recv, ListV) and len(args) == 1 and isinstance(args[0], int):
            return Var(SOME_PATHS[0], [recv.items[args[0]]]) if 0 <= args[0] < len(recv.items) else Var(NONE_PATHS[0])
        if name in ("trim_start_matches", "trim_end_matches", "starts_with", "ends_with", "trim", "trim_start", "trim_end") and isinstance(recv, (str, Rope)):
            txt = recv if isinstance(recv, str) else (recv.text() if all(isinstance(x, str) for x in recv.pieces) else None)
            if txt is not None:
                if not args:
                    return {"trim": txt.strip(), "trim_start": txt.lstrip(), "trim_end": txt.rstrip()}.get(name, Unknown(name))
                pat = args[0]
                if isinstance(pat, Rope) and all(isinstance(x, str) for x in pat.pieces):
                    pat = pat.text()
                pred = None
                if isinstance(pat, FnRef):
                    pn = norm(pat.path)
                    table = {"is_alphabetic": str.isalpha, "is_numeric": str.isnumeric, "is_alphanumeric": str.isalnum, "is_whitespace": str.isspace,
                             "is_ascii_digit": lambda c: c in "0123456789", "is_ascii_alphabetic": lambda c: c.isascii() and c.isalpha(), "is_uppercase": str.isupper, "is_lowercase": str.islower}
                    for k_, f_ in table.items():
                        if pn.endswith("::" + k_):
                            pred = f_
                if isinstance(pat, str) and pat:
                    if name == "starts_with":
                        return txt.startswith(pat)
                    if name == "ends_with":
                        return txt.endswith(pat)
                    if name == "trim_start_matches":
                        while txt.startswith(pat):
                            txt = txt[len(pat):]
                        return txt
                    if name == "trim_end_matches":
                        while txt.endswith(pat):
                            txt = txt[:-len(pat)]
                        return txt
                if pred is not None:
                    if name == "starts_with":
                        return bool(txt) and pred(txt[0])
                    if name == "ends_with":
                        return bool(txt) and pred(txt[-1])
                    if name == "trim_start_matches":
                        while txt and pred(txt[0]):
                            txt = txt[1:]
                        return txt
                    if name == "trim_end_matches":
                        while txt and pred(txt[-1]):
                            txt = txt[:-1]
                        return txt
        if name in ("strip_prefix", "strip_suffix", "chars", "to_lowercase", "to_uppercase", "to_ascii_lowercase", "to_ascii_uppercase") and isinstance(recv, (str, Rope)):
            txt = recv if isinstance(recv, str) else (recv.text() if all(isinstance(x, str) for x in recv.pieces) else None)
            if txt is not None:
                if name == "chars" and not args:
                    return ListV(list(txt))
                if name in ("to_lowercase", "to_ascii_lowercase") and not args:
                    return txt.lower()
                if name in ("to_uppercase", "to_ascii_uppercase") and not args:
                    return txt.upper()
                if args:
                    pat = args[0]
                    if isinstance(pat, Rope) and all(isinstance(x, str) for x in pat.pieces):
                        pat = pat.text()
                    if isinstance(pat, str):
                        if name == "strip_prefix":
                            return Var(SOME_PATHS[0], [txt[len(pat):]]) if txt.startswith(pat) else Var(NONE_PATHS[0])
                        if name == "strip_suffix":
                            return Var(SOME_PATHS[0], [txt[:len(txt) - len(pat)]]) if txt.endswith(pat) else Var(NONE_PATHS[0])
        if name in ("split", "lines") and isinstance(recv, (str, Rope)):
            txt = recv if isinstance(recv, str) else recv
            sep = "\n" if name == "lines" else (args[0] if args else None)
            if isinstance(sep, Rope):
                sep = sep.text() if all(isinstance(x, str) for x in sep.pieces) else None
            if isinstance(sep, str) and sep:
                # split a rope without losing its opaque leaves: only literal pieces are cut
                cur = Rope()
                out = []
                pieces = [txt] if isinstance(txt, str) else list(txt.pieces)
                joined_literal = all(isinstance(x, str) for x in pieces)
                if joined_literal:
                    return ListV([Rope([x]) if x else Rope() for x in "".join(pieces).split(sep)])
                for x in pieces:
                    if isinstance(x, str):
                        parts = x.split(sep)
                        for i_, part in enumerate(parts):
                            if i_:
                                out.append(cur)
                                cur = Rope()
                            if part:
                                cur.add(part)
                    else:
                        cur.add(x)
                out.append(cur)
                return ListV(out)
        if name == "contains" and isinstance(recv, (str, Rope)):
            s = recv if isinstance(recv, str) else (recv.text() if all(isinstance(x, str) for x in recv.pieces) else None)
            a = args[0]
            if isinstance(a, Rope):
                a = a.text()
            if s is not None and isinstance(a, str):
                return a in s
        if name == "is_empty":
            if isinstance(recv, ListV):
                return len(recv.items) == 0
            if isinstance(recv, (str,)):
                return recv == ""
            if isinstance(recv, Rope) and all(isinstance(x, str) for x in recv.pieces):
                return recv.text() == ""
            if isinstance(recv, Rope) and any(not isinstance(x, str) or x for x in recv.pieces):
                return False
        if name == "len" and isinstance(recv, (str, Rope)):
            t = recv if isinstance(recv, str) else (recv.text() if all(isinstance(x, str) for x in recv.pieces) else None)
            if t is not None:
                return len(t.encode("utf8"))
        if name == "repeat" and isinstance(recv, str) and len(args) == 1 and isinstance(args[0], int):
            return recv * args[0]
        if name == "len" and isinstance(recv, ListV):
            return len(recv.items)
        if name == "unwrap" and isinstance(recv, Var) and recv.args and (recv.path in OK_PATHS or recv.path in SOME_PATHS):
            return recv.args[0]
        if name == "abs" and isinstance(recv, (int, float)) and not isinstance(recv, bool):
            return abs(recv)
        if name == "powi" and isinstance(recv, (int, float)) and len(args) == 1 and isinstance(args[0], int):
            return float(recv) ** args[0]
        if name in ("max", "min") and len(args) == 1 and isinstance(recv, (int, float)) and isinstance(args[0], (int, float)) and not isinstance(recv, bool):
            a_, b_ = recv, args[0]
            if isinstance(a_, float) or isinstance(b_, float):
                if a_ != a_:
                    return b_
                if b_ != b_:
                    return a_
            return max(a_, b_) if name == "max" else min(a_, b_)
        if name in ("ceil", "floor", "round", "trunc") and not args and isinstance(recv, float):
            import math as _m
            if recv != recv or abs(recv) == float("inf"):
                return recv
            if name == "round":
                return float(_m.floor(abs(recv) + 0.5)) * (1.0 if recv >= 0 else -1.0)  # half away from zero
            return float({"ceil": _m.ceil, "floor": _m.floor, "trunc": _m.trunc}[name](recv))
        if name.startswith("to_") and name[3:] in INT_TYPES and not args and isinstance(recv, (int, float)) and not isinstance(recv, bool) and "ToPrimitive" in cn:
            bits, signed = INT_TYPES[name[3:]]
            lo = -(1 << (bits - 1)) if signed else 0
            hi = (1 << (bits - 1)) - 1 if signed else (1 << bits) - 1
            if isinstance(recv, float):
                if recv != recv or abs(recv) == float("inf"):
                    return Var(NONE_PATHS[0])
                iv = int(recv)  # num_traits truncates
            else:
                iv = recv
            return Var(SOME_PATHS[0], [iv]) if lo <= iv <= hi else Var(NONE_PATHS[0])
        if name in ("to_f64", "to_f32") and not args and isinstance(recv, (int, float)) and not isinstance(recv, bool) and "ToPrimitive" in cn:
            return Var(SOME_PATHS[0], [float(recv)])
        if name == "get_index" and isinstance(recv, ListV) and len(args) == 1 and isinstance(args[0], int):
            return Var(SOME_PATHS[0], [recv.items[args[0]]]) if 0 <= args[0] < len(recv.items) else Var(NONE_PATHS[0])
        mnum = re.search(r"num::<impl (i8|i16|i32|i64|isize|u8|u16|u32|u64|usize)>::(checked_|wrapping_|saturating_)?(neg|add|sub|mul|div|rem|abs|pow)$", cn)
        if mnum and isinstance(recv, int) and not isinstance(recv, bool) and all(isinstance(a_, int) and not isinstance(a_, bool) for a_ in args):
            bits, signed = INT_TYPES[mnum.group(1)]
            lo = -(1 << (bits - 1)) if signed else 0
            hi = (1 << (bits - 1)) - 1 if signed else (1 << bits) - 1
            mode, op_ = mnum.group(2) or "", mnum.group(3)
            try:
                if op_ == "neg":
                    v_ = -recv
                elif op_ == "abs":
                    v_ = abs(recv)
                elif op_ == "add":
                    v_ = recv + args[0]
                elif op_ == "sub":
                    v_ = recv - args[0]
                elif op_ == "mul":
                    v_ = recv * args[0]
                elif op_ == "pow":
                    v_ = recv ** args[0]
                elif op_ in ("div", "rem"):
                    if args[0] == 0:
                        return Var(NONE_PATHS[0]) if mode == "checked_" else Unknown("division by zero panics")
                    q = abs(recv) // abs(args[0]) * (1 if (recv >= 0) == (args[0] >= 0) else -1)  # truncating
                    v_ = q if op_ == "div" else recv - q * args[0]
            except Exception:
                return Unknown("integer operation")
            inr = lo <= v_ <= hi
            if mode == "checked_":
                return Var(SOME_PATHS[0], [v_]) if inr else Var(NONE_PATHS[0])
            if mode == "saturating_":
                return min(max(v_, lo), hi)
            if mode == "wrapping_":
                m_ = v_ & ((1 << bits) - 1)
                return m_ - (1 << bits) if signed and m_ >= (1 << (bits - 1)) else m_
            return v_ if inr else Unknown("integer overflow panics")
        if name in ("into_values", "into_keys") and not args and isinstance(recv, ListV) and all(isinstance(x, tuple) and len(x) == 2 for x in recv.items):
            return ListV([x[1] if name == "into_values" else x[0] for x in recv.items])
        if name == "fract" and not args and isinstance(recv, float):
            import math as _m
            return _m.fmod(recv, 1.0) if recv == recv and abs(recv) != float("inf") else float("nan")
        if isinstance(recv, ListV) and all(isinstance(x, tuple) and len(x) == 2 for x in recv.items) and ("IndexMap" in cn or "HashMap" in cn or "BTreeMap" in cn or "map::Entry" in cn or "Entry" in cn):
            key = _plain(args[0]) if args else None
            if name == "entry" and len(args) == 1:
                return Var("MAPENTRY", [recv, args[0]])
            if name in ("get", "get_mut") and len(args) == 1:
                for i_, (k_, v_) in enumerate(recv.items):
                    if _plain(k_) == key:
                        if name == "get_mut" and not isinstance(v_, (Var, ListV)):
                            return Var(SOME_PATHS[0], [_map_value_ref(recv, i_)])
                        return Var(SOME_PATHS[0], [v_])
                return Var(NONE_PATHS[0])
            if name == "contains_key" and len(args) == 1:
                return any(_plain(k_) == key for k_, _ in recv.items)
            if name == "insert" and len(args) == 2:
                for i_, (k_, v_) in enumerate(recv.items):
                    if _plain(k_) == key:
                        recv.items[i_] = (k_, args[1])
                        return Var(SOME_PATHS[0], [v_])
                recv.items.append((args[0], args[1]))
                return Var(NONE_PATHS[0])
        if isinstance(recv, Var) and recv.path == "MAPENTRY" and name == "key" and not args:
            return recv.args[1]
        if isinstance(recv, Var) and recv.path == "MAPENTRY" and name == "and_modify" and len(args) == 1:
            m_, k0 = recv.args
            for i_, (k_, v_) in enumerate(m_.items):
                if _plain(k_) == _plain(k0):
                    r_ = self.apply(args[0], [v_ if isinstance(v_, (Var, ListV, Rope)) else _map_value_ref(m_, i_)])
                    if is_unknown(r_):
                        return r_
            return recv
        if isinstance(recv, Var) and recv.path == "MAPOCC":
            m_, i_ = recv.args
            if 0 <= i_ < len(m_.items):
                k_, v_ = m_.items[i_]
                if name == "key" and not args:
                    return k_
                if name == "get" and not args:
                    return v_
                if name in ("get_mut", "into_mut") and not args:
                    return v_ if isinstance(v_, (Var, ListV, Rope)) else _map_value_ref(m_, i_)
                if name == "insert" and len(args) == 1:
                    m_.items[i_] = (k_, args[0])
                    return v_
                if name in ("remove", "swap_remove", "shift_remove") and not args:
                    if name == "swap_remove" and i_ != len(m_.items) - 1:
                        m_.items[i_] = m_.items[-1]
                        m_.items.pop()
                    else:
                        m_.items.pop(i_)
                    return v_
                if name in ("remove_entry", "shift_remove_entry") and not args:
                    m_.items.pop(i_)
                    return (k_, v_)
                if name == "index" and not args:
                    return i_
            return Unknown("occupied entry method %s" % name)
        if isinstance(recv, Var) and recv.path == "MAPVAC":
            m_, k0 = recv.args
            if name in ("key",) and not args:
                return k0
            if name == "into_key" and not args:
                return k0
            if name == "insert" and len(args) == 1:
                m_.items.append((k0, args[0]))
                v_ = args[0]
                return v_ if isinstance(v_, (Var, ListV, Rope)) or is_unknown(v_) else _map_value_ref(m_, len(m_.items) - 1)
            if name == "index" and not args:
                return len(m_.items)
            return Unknown("vacant entry method %s" % name)
        if isinstance(recv, Var) and recv.path == "MAPENTRY" and name in ("or_default", "or_insert", "or_insert_with"):
            m_, k0 = recv.args
            for i_, (k_, v_) in enumerate(m_.items):
                if _plain(k_) == _plain(k0):
                    return v_ if isinstance(v_, (Var, ListV, Rope)) else _map_value_ref(m_, i_)
            if name == "or_default":
                ty = self.F.ty(n) or ""
                v_ = ListV([]) if ("Vec<" in ty or "IndexMap<" in ty) else (Rope() if "String" in ty else (0 if re.search(r"\b(usize|u64|i64|u32|i32)\b", ty) else (0.0 if "f64" in ty else Unknown("default of " + ty))))
            elif name == "or_insert":
                v_ = args[0]
            else:
                v_ = self.apply(args[0], [])
            m_.items.append((k0, v_))
            return v_ if isinstance(v_, (Var, ListV, Rope)) or is_unknown(v_) else _map_value_ref(m_, len(m_.items) - 1)
        if name in ("values", "keys") and not args and isinstance(recv, ListV) and all(isinstance(x, tuple) and len(x) == 2 for x in recv.items):
            return ListV([x[1] if name == "values" else x[0] for x in recv.items])
        if name == "is_zero" and not args and isinstance(recv, (int, float)) and not isinstance(recv, bool):
            return recv == 0
        if name in ("is_nan",) and isinstance(recv, float):
            return recv != recv
        if name == "is_infinite" and isinstance(recv, (int, float)) and not isinstance(recv, bool):
            return abs(recv) == float("inf")
        if name in ("is_sign_negative", "is_sign_positive") and isinstance(recv, float):
            import math as _m
            neg = _m.copysign(1.0, recv) < 0
            return neg if name == "is_sign_negative" else not neg
        if name in ("is_normal", "is_subnormal") and not args and isinstance(recv, float):
            fin = recv == recv and abs(recv) != float("inf")
            sub = fin and recv != 0.0 and abs(recv) < 2.2250738585072014e-308
            return (fin and recv != 0.0 and not sub) if name == "is_normal" else sub
        if name in ("is_finite",) and isinstance(recv, (int, float)):
            return recv == recv and abs(recv) != float("inf")
        if name == "unwrap_or" and isinstance(recv, Var) and len(args) == 1:
            if recv.path in SOME_PATHS:
                return recv.args[0]
            if recv.path in NONE_PATHS:
                return args[0]
        if name in ("eq", "ne") and len(args) == 1:
            r = recv == args[0]
            return r if name == "eq" else not r
        if isinstance(recv, Var):
            d = self.deref(recv)
            if d is not None and not is_unknown(d):
                return self.builtin_method(name, cn, d, args, n)
        for a_ in args:
            if is_unknown(a_):
                return a_
        r = self.builtin_more(name, cn, recv, args, n)
        if r is not NotImplemented:
            return r
        if isinstance(recv, MutRef):
            # a method that reads through `&mut T` (`price.max(0.0)` on a `&mut f64`)
            cur = recv.get()
            if not isinstance(cur, MutRef) and not is_unknown(cur):
                return self.builtin_method(name, cn, cur, args, n)
        return Unknown("method %s (%s) on %r" % (name, cn, recv))

    def _ord_key(self, x):
        """a python sort key for values Rust can order (integers, floats through partial_cmp, strings by bytes, tuples, unit variants); None if not orderable here"""
        x = _plain(x)
        if isinstance(x, bool):
            return (0, int(x))
        if isinstance(x, (int, float)):
            return None if x != x else (1, x)
        if isinstance(x, str):
            return (2, x.encode("utf8"))
        if isinstance(x, tuple):
            ks = [self._ord_key(y) for y in x]
            return None if any(k is None for k in ks) else (3, tuple(ks))
        if isinstance(x, ListV):
            # vectors and slices order lexicographically
            ks = [self._ord_key(y) for y in x.items]
            return None if any(k is None for k in ks) else (4, tuple(ks))
        return None

    def builtin_more(self, name, cn, recv, args, n):
        """std methods that ordinary refactorings of the crate would reach for; NotImplemented when the method is not modelled"""
        some = isinstance(recv, Var) and recv.path in SOME_PATHS
        none = isinstance(recv, Var) and recv.path in NONE_PATHS
        ok = isinstance(recv, Var) and recv.path in OK_PATHS
        err = isinstance(recv, Var) and recv.path in ERR_PATHS
        mk_some = lambda v: Var(SOME_PATHS[0], [v])
        NONE = Var(NONE_PATHS[0])

        def pred(f, xs):
            r = self.apply(f, xs)
            return r if isinstance(r, bool) else Unknown("predicate not boolean: %r" % (r,))
        # ---- Option / Result
        if name == "unwrap_or_default" and not args and (some or none or ok or err):
            if some or ok:
                return recv.args[0]
            ty = self.F.ty(n) or ""
            t0 = ty.replace("&", "").replace("mut ", "").strip()
            if t0 in ("f64", "f32"):
                return 0.0
            if t0 in ("usize", "u64", "i64", "u32", "i32", "u16", "i16", "u8", "i8", "isize", "u128", "i128"):
                return 0
            if t0 == "bool":
                return False
            if t0 in ("std::string::String", "alloc::string::String", "String"):
                return Rope()
            if t0.startswith(("std::vec::Vec<", "alloc::vec::Vec<", "Vec<")) or "IndexMap<" in t0 or "HashMap<" in t0 or "IndexSet<" in t0 or "HashSet<" in t0:
                return ListV([])
            if t0.startswith(("std::option::Option<", "core::option::Option<", "Option<")):
                return NONE
            return Unknown("default value of " + ty)
        if some or none:
            if name == "is_some_and" and len(args) == 1:
                return pred(args[0], [recv.args[0]]) if some else False
            if name == "is_none_or" and len(args) == 1:
                return pred(args[0], [recv.args[0]]) if some else True
            if name in ("unwrap_or_default",) and not args and some:
                return recv.args[0]
            if name == "or" and len(args) == 1:
                return recv if some else args[0]
            if name == "or_else" and len(args) == 1:
                return recv if some else self.apply(args[0], [])
            if name == "and" and len(args) == 1:
                return args[0] if some else recv
            if name == "xor" and len(args) == 1 and isinstance(args[0], Var):
                o_some = args[0].path in SOME_PATHS
                return recv if some and not o_some else (args[0] if o_some and not some else NONE)
            if name == "filter" and len(args) == 1:
                if none:
                    return recv
                r = pred(args[0], [recv.args[0]])
                return r if is_unknown(r) else (recv if r else NONE)
            if name == "zip" and len(args) == 1 and isinstance(args[0], Var):
                return mk_some((recv.args[0], args[0].args[0])) if some and args[0].path in SOME_PATHS else NONE
            if name == "take" and not args:
                return recv
            if name == "inspect" and len(args) == 1:
                if some:
                    r = self.apply(args[0], [recv.args[0]])
                    if is_unknown(r):
                        return r
                return recv
            if name in ("iter", "into_iter") and not args:
                return ListV([recv.args[0]] if some else [])
            if name == "expect" and len(args) == 1 and some:
                return recv.args[0]
            if name == "flatten" and not args:
                return recv.args[0] if some else recv
            if name == "unzip" and not args:
                return (mk_some(recv.args[0][0]), mk_some(recv.args[0][1])) if some and isinstance(recv.args[0], tuple) else (NONE, NONE)
        if ok or err:
            if name == "is_ok_and" and len(args) == 1:
                return pred(args[0], [recv.args[0]]) if ok else False
            if name == "is_err_and" and len(args) == 1:
                return pred(args[0], [recv.args[0]]) if err else False
            if name == "err" and not args:
                return mk_some(recv.args[0]) if err else NONE
            if name == "or_else" and len(args) == 1:
                return recv if ok else self.apply(args[0], [recv.args[0]])
            if name == "or" and len(args) == 1:
                return recv if ok else args[0]
            if name == "and" and len(args) == 1:
                return args[0] if ok else recv
            if name in ("unwrap_or_default",) and not args and ok:
                return recv.args[0]
            if name in ("iter", "into_iter") and not args:
                return ListV([recv.args[0]] if ok else [])
            if name in ("inspect", "inspect_err") and len(args) == 1:
                if (ok and name == "inspect") or (err and name == "inspect_err"):
                    r = self.apply(args[0], [recv.args[0]])
                    if is_unknown(r):
                        return r
                return recv
            if name == "expect" and len(args) == 1 and ok:
                return recv.args[0]
        # ---- booleans
        if isinstance(recv, bool):
            if name == "then_some" and len(args) == 1:
                return mk_some(args[0]) if recv else NONE
            if name == "then" and len(args) == 1:
                if not recv:
                    return NONE
                r = self.apply(args[0], [])
                return r if is_unknown(r) else mk_some(r)
            if name == "not" and not args:
                return not recv
        # ---- numbers
        if isinstance(recv, (int, float)) and not isinstance(recv, bool):
            a = [x for x in args]
            num = lambda x: isinstance(x, (int, float)) and not isinstance(x, bool)
            if name == "clamp" and len(a) == 2 and num(a[0]) and num(a[1]):
                return a[0] if recv < a[0] else (a[1] if recv > a[1] else recv)
            if name == "signum" and not a:
                if isinstance(recv, float):
                    return recv if recv != recv else (1.0 if (recv > 0 or (recv == 0 and math.copysign(1.0, recv) > 0)) else -1.0)
                return (recv > 0) - (recv < 0)
            if name == "abs_diff" and len(a) == 1 and isinstance(recv, int) and isinstance(a[0], int):
                return abs(recv - a[0])
            if name == "pow" and len(a) == 1 and isinstance(recv, int) and isinstance(a[0], int) and 0 <= a[0] < 64:
                r = recv ** a[0]
                return r if abs(r) < (1 << 63) else Unknown("integer overflow in pow")
            if name == "powf" and len(a) == 1 and num(a[0]):
                try:
                    return float(recv) ** float(a[0])
                except (OverflowError, ZeroDivisionError, ValueError):
                    return Unknown("powf")
            if name == "sqrt" and not a and isinstance(recv, float):
                return math.sqrt(recv) if recv >= 0 else float("nan")
            if name == "mul_add" and len(a) == 2 and num(a[0]) and num(a[1]):
                return float(recv) * a[0] + a[1]
            if name in ("rem_euclid", "div_euclid") and len(a) == 1 and isinstance(recv, int) and isinstance(a[0], int) and a[0] != 0:
                q, m = divmod(recv, abs(a[0]))
                return m if name == "rem_euclid" else (q if a[0] > 0 else -q)
            if name == "recip" and not a and isinstance(recv, float):
                return 1.0 / recv if recv != 0 else math.copysign(float("inf"), recv)
            if name == "is_positive" and not a and isinstance(recv, int):
                return recv > 0
            if name == "is_negative" and not a and isinstance(recv, int):
                return recv < 0
            if name == "copysign" and len(a) == 1 and num(a[0]):
                return math.copysign(float(recv), float(a[0]))
            if name in ("partial_cmp", "cmp", "total_cmp") and len(a) == 1 and num(a[0]):
                if name == "partial_cmp" and (recv != recv or a[0] != a[0]):
                    return NONE
                o = Var("std::cmp::Ordering::" + ("Less" if recv < a[0] else "Greater" if recv > a[0] else "Equal"))
                return mk_some(o) if name == "partial_cmp" else o
            if name in ("lt", "le", "gt", "ge") and len(a) == 1 and num(a[0]):
                return {"lt": recv < a[0], "le": recv <= a[0], "gt": recv > a[0], "ge": recv >= a[0]}[name]
            if name == "to_bits" and not a and isinstance(recv, float):
                import struct
                return struct.unpack("<Q", struct.pack("<d", recv))[0]
        if isinstance(recv, Var) and recv.path.startswith(("std::cmp::Ordering::", "core::cmp::Ordering::")) and not recv.args:
            v = recv.path.rsplit("::", 1)[-1]
            table = {"is_lt": v == "Less", "is_le": v != "Greater", "is_gt": v == "Greater", "is_ge": v != "Less", "is_eq": v == "Equal", "is_ne": v != "Equal"}
            if name in table and not args:
                return table[name]
            if name == "reverse" and not args:
                return Var("std::cmp::Ordering::" + {"Less": "Greater", "Greater": "Less", "Equal": "Equal"}[v])
            if name == "then" and len(args) == 1:
                return recv if v != "Equal" else args[0]
            if name == "then_with" and len(args) == 1:
                return recv if v != "Equal" else self.apply(args[0], [])
        # ---- strings
        if isinstance(recv, (str, Rope)):
            txt = recv if isinstance(recv, str) else (recv.text() if all(isinstance(x, str) for x in recv.pieces) else None)
            if txt is not None:
                sarg = lambda x: x if isinstance(x, str) else (x.text() if isinstance(x, Rope) and all(isinstance(y, str) for y in x.pieces) else None)
                if name == "find" and len(args) == 1 and sarg(args[0]) is not None:
                    i_ = txt.find(sarg(args[0]))
                    return mk_some(len(txt[:i_].encode("utf8"))) if i_ >= 0 else NONE
                if name in ("replace", "replacen") and len(args) >= 2 and sarg(args[0]) is not None and sarg(args[1]) is not None:
                    return Rope([txt.replace(sarg(args[0]), sarg(args[1]), *( [args[2]] if name == "replacen" and len(args) == 3 else []))])
                if name == "split_whitespace" and not args:
                    return ListV(txt.split())
                if name == "char_indices" and not args and txt.isascii():
                    return ListV([(i_, c) for i_, c in enumerate(txt)])
                if name == "bytes" and not args:
                    return ListV(list(txt.encode("utf8")))
                if name == "eq_ignore_ascii_case" and len(args) == 1 and sarg(args[0]) is not None:
                    return txt.lower() == sarg(args[0]).lower() if txt.isascii() and sarg(args[0]).isascii() else NotImplemented
                if name == "split_once" and len(args) == 1 and sarg(args[0]) is not None:
                    i_ = txt.find(sarg(args[0]))
                    return mk_some((txt[:i_], txt[i_ + len(sarg(args[0])):])) if i_ >= 0 else NONE
                if name == "rsplit_once" and len(args) == 1 and sarg(args[0]) is not None:
                    i_ = txt.rfind(sarg(args[0]))
                    return mk_some((txt[:i_], txt[i_ + len(sarg(args[0])):])) if i_ >= 0 else NONE
                if name == "is_char_boundary" and len(args) == 1 and isinstance(args[0], int) and txt.isascii():
                    return 0 <= args[0] <= len(txt)
                if name in ("cmp", "partial_cmp") and len(args) == 1 and sarg(args[0]) is not None:
                    a_, b_ = txt.encode("utf8"), sarg(args[0]).encode("utf8")
                    o = Var("std::cmp::Ordering::" + ("Less" if a_ < b_ else "Greater" if a_ > b_ else "Equal"))
                    return mk_some(o) if name == "partial_cmp" else o
                if name == "clear" and not args and isinstance(recv, Rope):
                    recv.pieces[:] = []
                    return UNIT
                if name == "insert_str" and len(args) == 2 and args[0] == 0 and isinstance(recv, Rope) and sarg(args[1]) is not None:
                    recv.pieces.insert(0, sarg(args[1]))
                    return UNIT
                if name == "char_count" and not args:
                    return len(txt)
        if isinstance(recv, str) and len(recv) == 1:
            if name == "to_digit" and len(args) == 1 and isinstance(args[0], int):
                try:
                    return mk_some(int(recv, args[0]))
                except ValueError:
                    return NONE
            if name in ("to_ascii_lowercase", "to_ascii_uppercase") and not args:
                return recv.lower() if name.endswith("lowercase") else recv.upper()
            if name == "len_utf8" and not args:
                return len(recv.encode("utf8"))
        # ---- sequences
        if isinstance(recv, ListV):
            items = recv.items
            is_map = bool(items) and all(isinstance(x, tuple) and len(x) == 2 for x in items) and ("Map" in cn)
            if name in ("copied", "cloned", "iter", "into_iter", "by_ref", "peekable", "fuse", "drain_all") and not args:
                return ListV(list(items))
            if name == "nth" and len(args) == 1 and isinstance(args[0], int):
                return mk_some(items[args[0]]) if 0 <= args[0] < len(items) else NONE
            if name in ("take_while", "skip_while", "map_while") and len(args) == 1:
                out, k = [], 0
                for k, x in enumerate(items):
                    r = self.apply(args[0], [x])
                    if name == "map_while":
                        if is_unknown(r):
                            return r
                        if isinstance(r, Var) and r.path in SOME_PATHS:
                            out.append(r.args[0])
                            continue
                        break
                    if not isinstance(r, bool):
                        return Unknown("predicate not boolean: %r" % (r,))
                    if not r:
                        return ListV(out) if name == "take_while" else ListV(items[k:])
                    if name == "take_while":
                        out.append(x)
                return ListV(out) if name in ("take_while", "map_while") else ListV([])
            if name in ("min_by_key", "max_by_key", "min_by", "max_by", "min", "max") and len(args) <= 1 and "Iterator" in cn:
                if not items:
                    return NONE
                if name in ("min", "max"):
                    keys = [self._ord_key(x) for x in items]
                elif name.endswith("_key"):
                    ks = [self.apply(args[0], [x]) for x in items]
                    if any(is_unknown(k_) for k_ in ks):
                        return next(k_ for k_ in ks if is_unknown(k_))
                    keys = [self._ord_key(k_) for k_ in ks]
                else:
                    best = items[0]
                    for x in items[1:]:
                        o = self.apply(args[0], [best, x])
                        if not (isinstance(o, Var) and "Ordering::" in o.path):
                            return o if is_unknown(o) else Unknown("comparator result %r" % (o,))
                        v = o.path.rsplit("::", 1)[-1]
                        # max_by keeps the last of equal maxima, min_by the first of equal minima
                        if (name == "max_by" and v in ("Less", "Equal")) or (name == "min_by" and v == "Greater"):
                            best = x
                    return mk_some(best)
                if any(k_ is None for k_ in keys):
                    return NotImplemented
                bi = 0
                for i_ in range(1, len(items)):
                    if (name.startswith("max") and keys[i_] >= keys[bi]) or (name.startswith("min") and keys[i_] < keys[bi]):
                        bi = i_
                return mk_some(items[bi])
            if name in ("sort_by_key", "sort_unstable_by_key", "sort_by_cached_key") and len(args) == 1:
                ks = [self.apply(args[0], [x]) for x in items]
                if any(is_unknown(k_) for k_ in ks):
                    return next(k_ for k_ in ks if is_unknown(k_))
                keys = [self._ord_key(k_) for k_ in ks]
                if any(k_ is None for k_ in keys):
                    return NotImplemented
                order = sorted(range(len(items)), key=lambda i_: keys[i_])
                items[:] = [items[i_] for i_ in order]
                return UNIT
            if name in ("sort_by", "sort_unstable_by") and len(args) == 1:
                import functools
                bad = []

                def cmp_(a_, b_):
                    o = self.apply(args[0], [a_, b_])
                    if not (isinstance(o, Var) and "Ordering::" in o.path):
                        bad.append(o)
                        return 0
                    return {"Less": -1, "Equal": 0, "Greater": 1}[o.path.rsplit("::", 1)[-1]]
                out = sorted(items, key=functools.cmp_to_key(cmp_))
                if bad:
                    return bad[0] if is_unknown(bad[0]) else Unknown("comparator result %r" % (bad[0],))
                items[:] = out
                return UNIT
            if name == "dedup" and not args:
                out = []
                for x in items:
                    if not out or _plain(out[-1]) != _plain(x):
                        out.append(x)
                items[:] = out
                return UNIT
            if name == "reverse" and not args:
                items.reverse()
                return UNIT
            if name == "clear" and not args:
                items[:] = []
                return UNIT
            if name == "truncate" and len(args) == 1 and isinstance(args[0], int):
                del items[args[0]:]
                return UNIT
            if name == "insert" and len(args) == 2 and isinstance(args[0], int) and not is_map and 0 <= args[0] <= len(items) and "Vec" in cn:
                items.insert(args[0], args[1])
                return UNIT
            if name == "swap" and len(args) == 2 and all(isinstance(a_, int) and 0 <= a_ < len(items) for a_ in args):
                items[args[0]], items[args[1]] = items[args[1]], items[args[0]]
                return UNIT
            if name == "extend_from_slice" and len(args) == 1 and isinstance(args[0], ListV):
                items.extend(_deep_clone(x) for x in args[0].items)
                return UNIT
            if name == "append" and len(args) == 1 and isinstance(args[0], ListV):
                items.extend(args[0].items)
                args[0].items[:] = []
                return UNIT
            if name == "split_off" and len(args) == 1 and isinstance(args[0], int) and 0 <= args[0] <= len(items):
                tail = items[args[0]:]
                del items[args[0]:]
                return ListV(tail)
            if name == "drain" and len(args) == 1 and isinstance(args[0], Var) and "ops::Range" in args[0].path:
                lo = args[0].fields.get("start", 0)
                hi = args[0].fields.get("end", len(items))
                if isinstance(lo, int) and isinstance(hi, int):
                    hi += 1 if args[0].path.endswith("RangeInclusive") else 0
                    out = items[lo:hi]
                    del items[lo:hi]
                    return ListV(out)
            if name == "split_at" and len(args) == 1 and isinstance(args[0], int) and 0 <= args[0] <= len(items):
                return (ListV(items[:args[0]]), ListV(items[args[0]:]))
            if name == "split_at_mut" and len(args) == 1 and isinstance(args[0], int) and 0 <= args[0] <= len(items) and all(isinstance(x, (ListV, Var, Rope)) for x in items):
                # two views onto the same rows: the rows are shared objects, so writes into a row reach the vector
                return (ListV(items[:args[0]]), ListV(items[args[0]:]))
            if name in ("split_first", "split_last") and not args:
                if not items:
                    return NONE
                return mk_some((items[0], ListV(items[1:]))) if name == "split_first" else mk_some((items[-1], ListV(items[:-1])))
            if name in ("windows", "chunks") and len(args) == 1 and isinstance(args[0], int) and args[0] > 0:
                k = args[0]
                if name == "windows":
                    return ListV([ListV(items[i_:i_ + k]) for i_ in range(0, len(items) - k + 1)])
                return ListV([ListV(items[i_:i_ + k]) for i_ in range(0, len(items), k)])
            if name == "concat" and not args and items and all(isinstance(x, ListV) for x in items):
                return ListV([y for x in items for y in x.items])
            if name == "concat" and not args and all(isinstance(x, (str, Rope)) for x in items):
                r_ = Rope()
                for x in items:
                    r_.add(x)
                return r_
            if name == "partition" and len(args) == 1:
                yes, no = [], []
                for x in items:
                    r = self.apply(args[0], [x])
                    if not isinstance(r, bool):
                        return Unknown("predicate not boolean: %r" % (r,))
                    (yes if r else no).append(x)
                return (ListV(yes), ListV(no))
            if name == "unzip" and not args and all(isinstance(x, tuple) and len(x) == 2 for x in items):
                return (ListV([x[0] for x in items]), ListV([x[1] for x in items]))
            if name in ("try_fold",) and len(args) == 2:
                acc = args[0]
                for x in items:
                    r = self.apply(args[1], [acc, x])
                    if is_unknown(r):
                        return r
                    if isinstance(r, Var) and (r.path in ERR_PATHS or r.path in NONE_PATHS):
                        return r
                    if not (isinstance(r, Var) and (r.path in OK_PATHS or r.path in SOME_PATHS)):
                        return Unknown("try_fold step %r" % (r,))
                    acc = r.args[0]
                ty = self.F.ty(n) or ""
                return Var(SOME_PATHS[0] if "Option<" in ty.split("<", 1)[0] + "<" else OK_PATHS[0], [acc])
            if name == "try_for_each" and len(args) == 1:
                for x in list(items):
                    r = self.apply(args[0], [x])
                    if is_unknown(r):
                        return r
                    if isinstance(r, Var) and (r.path in ERR_PATHS or r.path in NONE_PATHS):
                        return r
                ty = self.F.ty(n) or ""
                return Var(SOME_PATHS[0] if "Option<" in ty.split("<", 1)[0] + "<" else OK_PATHS[0], [UNIT])
            if name == "reduce" and len(args) == 1:
                if not items:
                    return NONE
                acc = items[0]
                for x in items[1:]:
                    acc = self.apply(args[0], [acc, x])
                    if is_unknown(acc):
                        return acc
                return mk_some(acc)
            if name == "product" and not args and all(isinstance(x, (int, float)) and not isinstance(x, bool) for x in items):
                tot = 1.0 if any(isinstance(x, float) for x in items) or "f64" in (self.F.ty(n) or "") else 1
                for x in items:
                    tot = tot * x
                return tot
            if name == "rposition" and len(args) == 1:
                for i_ in range(len(items) - 1, -1, -1):
                    r = self.apply(args[0], [items[i_]])
                    if not isinstance(r, bool):
                        return Unknown("predicate not boolean: %r" % (r,))
                    if r:
                        return mk_some(i_)
                return NONE
            if name == "find_map" and len(args) == 1:
                for x in items:
                    r = self.apply(args[0], [x])
                    if is_unknown(r):
                        return r
                    if isinstance(r, Var) and r.path in SOME_PATHS:
                        return r
                return NONE
            if name == "inspect" and len(args) == 1:
                for x in items:
                    r = self.apply(args[0], [x])
                    if is_unknown(r):
                        return r
                return ListV(list(items))
            if name == "scan" and len(args) == 2:
                return NotImplemented
            if name in ("starts_with", "ends_with") and len(args) == 1 and isinstance(args[0], ListV):
                k = len(args[0].items)
                part = items[:k] if name == "starts_with" else (items[len(items) - k:] if k else [])
                return len(items) >= k and [_plain(x) for x in part] == [_plain(x) for x in args[0].items]
            if name == "binary_search" and len(args) == 1:
                keys = [self._ord_key(x) for x in items]
                kk = self._ord_key(args[0])
                if kk is None or any(k_ is None for k_ in keys):
                    return NotImplemented
                import bisect
                i_ = bisect.bisect_left(keys, kk)
                hit = i_ < len(keys) and keys[i_] == kk
                return Var(OK_PATHS[0], [i_]) if hit else Var(ERR_PATHS[0], [i_])
            if name == "iter_mut" and not args:
                return _mut_view(recv)
            if name == "is_sorted" and not args:
                keys = [self._ord_key(x) for x in items]
                return NotImplemented if any(k_ is None for k_ in keys) else all(keys[i_] <= keys[i_ + 1] for i_ in range(len(keys) - 1))
            if name == "eq" and len(args) == 1 and isinstance(args[0], ListV):
                return [_plain(x) for x in items] == [_plain(x) for x in args[0].items]
            if name == "sum" and not args and not items:
                return 0.0 if "f64" in (self.F.ty(n) or "") else 0
            if name == "cycle":
                return NotImplemented
            if is_map or (not items and "Map" in cn):
                if name == "get_or_insert_with":
                    return NotImplemented
                if name == "remove_entry" and len(args) == 1:
                    for i_, (k_, v_) in enumerate(items):
                        if _plain(k_) == _plain(args[0]):
                            del items[i_]
                            return mk_some((k_, v_))
                    return NONE
                if name == "get_key_value" and len(args) == 1:
                    for k_, v_ in items:
                        if _plain(k_) == _plain(args[0]):
                            return mk_some((k_, v_))
                    return NONE
                if name == "get_index_of" and len(args) == 1:
                    for i_, (k_, v_) in enumerate(items):
                        if _plain(k_) == _plain(args[0]):
                            return mk_some(i_)
                    return NONE
                if name == "first" and not args:
                    return mk_some(items[0]) if items else NONE
        # tuples of two
        if isinstance(recv, tuple) and name in ("clone", "to_owned") and not args:
            return _deep_clone(recv)
        return NotImplemented

    def ev_Index(self, n, env):
        a = self.ev(n["a"], env)
        i = self.ev(n["i"], env)
        if isinstance(i, MutRef):
            i = i.get()
        if isinstance(a, Var) and ("index:" + norm(a.path)) in self.models:
            return self.models["index:" + norm(a.path)](self, [a, i])
        if isinstance(i, Var) and "ops::Range" in i.path:
            kind = i.path.rsplit("::", 1)[-1]
            seq = a.items if isinstance(a, ListV) else (a if isinstance(a, str) else (a.text() if isinstance(a, Rope) and all(isinstance(x, str) for x in a.pieces) else None))
            if seq is not None:
                lo = i.fields.get("start", 0)
                hi = i.fields.get("end", len(seq))
                if kind in ("RangeInclusive", "RangeToInclusive") and isinstance(hi, int):
                    hi += 1
                if isinstance(lo, int) and isinstance(hi, int) and 0 <= lo <= hi <= len(seq):
                    if isinstance(a, ListV):
                        return ListV(list(seq[lo:hi]))
                    # Rust slices strings by byte offsets: only decided for ASCII text
                    if all(ord(c) < 128 for c in seq):
                        return seq[lo:hi]
                    return Unknown("byte slice of non-ASCII text")
                return Unknown("slice bounds")
        if isinstance(a, ListV) and isinstance(i, int):
            if 0 <= i < len(a.items):
                return a.items[i]
            return Unknown("index out of range")
        return Unknown("index")

    def ev_Assign(self, n, env):
        v = self.ev(n["rhs"], env)
        return self.assign_place(n["lhs"], v, env)

    def assign_place(self, lhs, v, env):
        through_deref = lhs.get("k") == "Unary" and lhs.get("op") == "*"
        lhs = strip_node(lhs)
        if lhs["k"] == "Path" and lhs.get("res") == "local" and through_deref and isinstance(env.get(lhs["id"]), MutRef):
            env[lhs["id"]].set(v)
            return UNIT
        if lhs["k"] == "Path" and lhs.get("res") == "local":
            env[lhs["id"]] = v
            return UNIT
        if lhs["k"] == "Index":
            base = self.ev(lhs["a"], env)
            i = self.ev(lhs["i"], env)
            if isinstance(base, ListV) and isinstance(i, int) and 0 <= i < len(base.items):
                base.items[i] = v
                return UNIT
            return Unknown("indexed assignment")
        if lhs["k"] == "Field":
            base = self.ev(lhs["a"], env)
            if isinstance(base, Var) and lhs["name"] in base.fields:
                base.fields[lhs["name"]] = v
                return UNIT
        return Unknown("assignment to non-local")

    def ev_AssignOp(self, n, env):
        rhs = self.ev(n["rhs"], env)
        lhs = strip_node(n["lhs"])
        op = n["op"].rstrip("=")
        def combine(cur):
            if is_unknown(cur) or is_unknown(rhs):
                return Unknown("assign-op on unknown")
            if isinstance(cur, (int, float)) and isinstance(rhs, (int, float)) and not isinstance(cur, bool):
                if op in ("/", "%"):
                    if isinstance(cur, float) or isinstance(rhs, float):
                        if op == "%":
                            return math.fmod(cur, rhs) if rhs != 0 and abs(cur) != float("inf") else float("nan")
                        if rhs == 0:
                            return float("nan") if cur == 0 or cur != cur else math.copysign(float("inf"), cur) * math.copysign(1.0, rhs)
                        return cur / rhs
                    if rhs == 0:
                        return Unknown("panic reached: attempt to divide by zero")
                    q = abs(cur) // abs(rhs) * (1 if (cur >= 0) == (rhs >= 0) else -1)
                    return q if op == "/" else cur - rhs * q
                r = {"+": cur + rhs, "-": cur - rhs, "*": cur * rhs}.get(op)
                if r is None:
                    return Unknown("assign-op " + op)
                if isinstance(r, int):
                    bits = INT_TYPES.get(self.F.ty(n["lhs"]) or "")
                    if bits is not None:
                        lo, hi = (-(1 << (bits[0] - 1)), (1 << (bits[0] - 1)) - 1) if bits[1] else (0, (1 << bits[0]) - 1)
                        if not lo <= r <= hi:
                            return Unknown("panic reached: arithmetic overflow in `%s=`" % op)
                return r
            if op == "+" and isinstance(cur, Rope) and isinstance(rhs, (Rope, str)):
                cur.add(rhs)
                return cur
            if isinstance(cur, bool) and isinstance(rhs, bool) and op in ("&", "|", "^"):
                return (cur and rhs) if op == "&" else ((cur or rhs) if op == "|" else cur != rhs)
            return Unknown("assign-op on %r" % (cur,))
        if isinstance(rhs, MutRef):
            rhs = rhs.get()
        if lhs.get("k") == "Path" and lhs.get("res") == "local":
            cur = env.get(lhs["id"], Unknown("unbound"))
            if isinstance(cur, MutRef):
                cur.set(combine(cur.get()))
                return UNIT
            env[lhs["id"]] = combine(cur)
            return UNIT
        if lhs.get("k") == "Field":
            base = self.ev(lhs["a"], env)
            if isinstance(base, Var) and lhs["name"] in base.fields:
                base.fields[lhs["name"]] = combine(base.fields[lhs["name"]])
                return UNIT
        if lhs.get("k") == "Index":
            base = self.ev(lhs["a"], env)
            i = self.ev(lhs["i"], env)
            if isinstance(base, ListV) and isinstance(i, int) and 0 <= i < len(base.items):
                base.items[i] = combine(base.items[i])
                return UNIT
        node = n["lhs"]
        while node.get("k") == "Unary" and node.get("op") == "*":
            node = node["a"]
        tgt = self.ev(node, env)
        if isinstance(tgt, MutRef):
            tgt.set(combine(tgt.get()))
            return UNIT
        return tgt if is_unknown(tgt) else Unknown("assign-op target")

    def ev_LetExpr(self, n, env):
        v = self.ev(n["init"], env)
        r = self.bind(n["pat"], v, env)
        if r is None:
            return Unknown("let-expr undecidable")
        return r

    def ev_For(self, n, env):
        it = self.ev(n["iter"], env)
        if isinstance(it, Var) and "ops::Range" in it.path and isinstance(it.fields.get("start", 0), int) and isinstance(it.fields.get("end"), int):
            hi = it.fields["end"] + (1 if it.path.endswith("RangeInclusive") else 0)
            it = ListV(list(range(it.fields.get("start", 0), hi)))
        if not isinstance(it, ListV):
            return it if is_unknown(it) else Unknown("for over non-list %r" % (it,))
        src = n["iter"]
        while src.get("k") == "Block" and not src.get("stmts") and src.get("e"):
            src = src["e"]
        if src.get("k") == "Ref" and src.get("mut"):
            it = _mut_view(it)      # `for x in &mut v`: the items are references into v
        for x in list(it.items):
            if self.bind(n["pat"], x, env) is not True:
                return Unknown("for pattern")
            try:
                r = self.ev(n["body"], env)
            except _Continue as c_:
                if c_.target is not None and n.get("lid") is not None and c_.target != n["lid"]:
                    raise
                continue
            except _Break as b_:
                if b_.target is not None and n.get("lid") is not None and b_.target != n["lid"]:
                    raise
                break
            if is_unknown(r):
                return r
        return UNIT

    def ev_While(self, n, env):
        for _ in range(100000):
            c = self.ev(n["cond"], env)
            if c is False:
                return UNIT
            if c is not True:
                return Unknown("while condition undecidable: %r" % (c,))
            try:
                r = self.ev(n["body"], env)
            except _Continue as c_:
                if c_.target is not None and n.get("lid") is not None and c_.target != n["lid"]:
                    raise
                continue
            except _Break as b_:
                if b_.target is not None and n.get("lid") is not None and b_.target != n["lid"]:
                    raise
                break
            if is_unknown(r):
                return r
        else:
            return Unknown("while loop bound exceeded")
        return UNIT

    def ev_Loop(self, n, env):
        for _ in range(100000):
            try:
                r = self.ev(n["body"], env)
            except _Continue as c_:
                if c_.target is not None and n.get("lid") is not None and c_.target != n["lid"]:
                    raise
                continue
            except _Break as b:
                if b.target is not None and n.get("lid") is not None and b.target != n["lid"]:
                    raise
                return getattr(b, "v", UNIT)
            if is_unknown(r):
                return r
        return Unknown("loop bound exceeded")

    def ev_Continue(self, n, env):
        c = _Continue()
        c.target = n.get("target")
        raise c

    def ev_Break(self, n, env):
        b = _Break()
        b.target = n.get("target")
        b.v = self.ev(n["e"], env) if n.get("e") is not None else UNIT
        raise b
