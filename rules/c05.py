"""C05 Solver verdicts -- T-VERDICT / ENUM-MAP: every conversion of a back-end error or status
into SolverError keeps the verdict (Infeasible stays Infeasible, Unbounded stays Unbounded).
Not decided: correctness of optima and verdicts themselves (numeric, in the back-ends)."""
from facts import norm, base_ty, walk, strip, sexp
import table

SOLVER_ERROR = "solvers::common::SolverError"
VERDICT = {"Infeasible": "Infeasible", "Infesible": "Infeasible", "Unbounded": "Unbounded", "IterationLimitReached": "LimitReached"}
# foreign error enums whose variants we know from the vendored sources (re-read in the thorough tier)
FOREIGN_ENUMS = {
    "microlp::Error": ["InternalError", "Unbounded", "InvalidOptions", "InvalidOperation", "Infeasible"],
    "good_lp::ResolutionError": ["Unbounded", "Infeasible", "Other", "Str"],
}


def enum_variants(F, ty):
    if ty in F.enums:
        return [v["name"] for v in F.enums[ty]["variants"]]
    return FOREIGN_ENUMS.get(ty)


def produces_solver_error(h):
    return h[0] in ("variant", "struct") and h[1].startswith(SOLVER_ERROR + "::")


def arm_value_head(body):
    """head of an arm body, looking through Err(..)/Ok(..) wrappers and `return`"""
    h = table.head(body)
    if h[0] == "variant" and h[1].endswith("Result::Err") and h[2]:
        return table.head(h[2][0])
    return h


def verdict_matches(F):
    """matches over an error enum with a verdict variant whose arms build SolverError values"""
    out = []
    for f in F.fn_list:
        if "body" not in f:
            continue
        for n in walk(f["body"]):
            if n.get("k") != "Match":
                continue
            ty = table.scrut_type(F, n)
            vs = enum_variants(F, ty) if ty else None
            if not vs or not (set(vs) & set(VERDICT)) or ty == SOLVER_ERROR:
                continue
            heads = {}
            anyse = False
            for arm in n["arms"]:
                h = arm_value_head(arm["body"])
                if produces_solver_error(h):
                    anyse = True
                for alt in table.pat_alternatives(arm["pat"]):
                    ph = table.pat_head(alt)
                    if ph[0] == "variant":
                        heads.setdefault(ph[1].rsplit("::", 1)[-1], h)
                    elif ph[0] == "any":
                        for v in vs:
                            heads.setdefault(v, h)
            if anyse:
                out.append((f, n, ty, vs, heads))
    return out


def uniform_conversions(F):
    """closures |e: E| -> SolverError that do not look at the variant of e, E having a verdict variant"""
    out = []
    for f in F.fn_list:
        if "body" not in f:
            continue
        for n in walk(f["body"]):
            if n.get("k") != "Closure" or len(n.get("params", [])) != 1:
                continue
            pty = base_ty(F.tyi(n["params"][0].get("t")) or "")
            vs = enum_variants(F, pty)
            if not vs or not (set(vs) & set(VERDICT)) or pty == SOLVER_ERROR:
                continue
            bty = base_ty(F.ty(n["body"]) or "")
            if bty != SOLVER_ERROR:
                continue
            has_match = any(x.get("k") == "Match" and table.scrut_type(F, x) == pty for x in walk(n["body"]))
            if not has_match:
                out.append((f, n, pty, vs))
    return out


def check(F, R):
    sites = verdict_matches(F)
    for f, m, ty, vs, heads in sites:
        R.fn(f["path"])
        tab = {}
        for v in vs:
            h = heads.get(v)
            got = h[1].rsplit("::", 1)[-1] if h and produces_solver_error(h) else (str(h[:2]) if h else None)
            tab[v] = got
            if v in VERDICT:
                R.ob("T-VERDICT", "%s:%s::%s" % (f["path"], ty.rsplit("::", 1)[-1], v), got == VERDICT[v], F.loc(f, m),
                     "%s::%s is converted to SolverError::%s, expected SolverError::%s" % (ty, v, got, VERDICT[v]), undecided=not (h and produces_solver_error(h)))
            else:
                R.ob("T-VERDICT", "%s:%s::%s" % (f["path"], ty.rsplit("::", 1)[-1], v), got not in ("Infeasible", "Unbounded"), F.loc(f, m),
                     "%s::%s (not a verdict) is converted to the verdict SolverError::%s" % (ty, v, got))
        R.table("%s@%s" % (ty, f["path"]), tab)
    for f, c, ty, vs in uniform_conversions(F):
        R.fn(f["path"])
        lost = sorted(set(vs) & set(VERDICT))
        R.ob("ENUM-MAP", "%s:%s" % (f["path"], ty.rsplit("::", 1)[-1]), False, F.loc(f, c),
             "closure `%s` converts every %s, including the verdict variant(s) %s, into the same SolverError: an infeasible/unbounded verdict is reported as a generic error" % (sexp(c)[:90], ty, lost))
    R.count("ENUM-MAP.scan", 1)
    # Clarabel: dual infeasible => Unbounded
    n_cl = 0
    for f in F.fn_list:
        if "body" not in f:
            continue
        for n in walk(f["body"]):
            if n.get("k") == "Match" and n.get("m") == "matches":
                pv = set()
                for arm in n["arms"]:
                    for alt in table.pat_alternatives(arm["pat"]):
                        ph = table.pat_head(alt)
                        if ph[0] == "variant" and "SolverStatus" in ph[1]:
                            pv.add(ph[1].rsplit("::", 1)[-1])
                if pv:
                    n_cl += 1
                    R.fn(f["path"])
                    R.ob("T-VERDICT", "clarabel:status-set", pv == {"DualInfeasible", "AlmostDualInfeasible"}, F.loc(f, n), "statuses treated as unbounded: %s" % sorted(pv))
                    # the enclosing If returns Err(Unbounded)
                    ok = False
                    for i in walk(f["body"]):
                        if i.get("k") == "If" and any(x is n for x in walk(i["cond"])):
                            for x in walk(i["then"]):
                                if x.get("k") == "Path" and norm(x.get("path") or "") == SOLVER_ERROR + "::Unbounded":
                                    ok = True
                    R.ob("T-VERDICT", "clarabel:dual-infeasible->Unbounded", ok, F.loc(f, n), "DualInfeasible must be reported as SolverError::Unbounded")
    R.ob("T-VERDICT", "clarabel:site", n_cl == 1, "packages/rooc/src/solvers/clarabel.rs", "clarabel status inspection site count %d" % n_cl, undecided=True)
    # infinite / NaN objective mapping in the real microlp path
    for f in F.fn_list:
        if "body" not in f or not f["path"].endswith("solve_real_lp_problem_micro_lp"):
            continue
        guards = {}
        for n in walk(f["body"]):
            if n.get("k") == "Match":
                for arm in n["arms"]:
                    g = arm.get("guard")
                    if g is not None:
                        gt = sexp(g)
                        for x in walk(arm["body"]):
                            if x.get("k") == "Path" and norm(x.get("path") or "").startswith(SOLVER_ERROR + "::"):
                                guards[gt.split(".")[-1]] = x["path"].rsplit("::", 1)[-1]
        R.ob("T-VERDICT", "microlp-real:inf->Unbounded", guards.get("is_infinite()") == "Unbounded", F.loc(f), "guards %s" % guards, undecided="is_infinite()" not in guards)
        R.ob("T-VERDICT", "microlp-real:nan->Infeasible", guards.get("is_nan()") == "Infeasible", F.loc(f), "guards %s" % guards, undecided="is_nan()" not in guards)
    # who may construct the simplex verdicts
    producers(F, R)


def producers(F, R):
    """CanonicalTransformError::Infesible and SimplexError::Unbounded each have a single guarded producer"""
    wanted = {
        "Infesible": ("solvers::simplex::simplex_enums::CanonicalTransformError::Infesible", "float_ne"),
        "Unbounded": ("solvers::simplex::simplex_enums::SimplexError::Unbounded", None),
    }
    for name, (path, guard) in wanted.items():
        sites = []
        for f in F.fn_list:
            if "body" not in f:
                continue
            for n in walk(f["body"]):
                if n.get("k") in ("Path", "Call") and norm(n.get("path") or n.get("callee") or "") == path and n.get("k") != "PPath":
                    # exclude pattern positions: Path nodes in patterns have kind PPath already
                    sites.append((f, n))
        R.ob("W-PRODUCER", "%s:single-producer" % name, len(sites) == 1, F.loc(*sites[0]) if sites else "", "%d construction site(s) of %s" % (len(sites), path), undecided=True)
        for f, n in sites:
            R.fn(f["path"])
            cond = None
            for i in walk(f["body"]):
                if i.get("k") == "If" and any(x is n for x in walk(i["then"])):
                    cond = i["cond"]
                if i.get("k") == "Match":
                    for arm in i["arms"]:
                        if any(x is n for x in walk(arm["body"])):
                            # innermost enclosing arm wins (pre-order walk visits it last)
                            sc = strip(i["scrut"])
                            sctxt = sexp(sc)
                            if sc.get("k") == "Path" and sc.get("res") == "local":
                                from flow import LocalFlow
                                ds = LocalFlow(f["body"]).defs.get(sc["id"], [])
                                if ds:
                                    sctxt = sexp(ds[0])
                            cond = {"k": "Lit", "v": "match %s : %s arm %s" % (sctxt, F.ty(i["scrut"]), sexp(arm["pat"]))}
            ctxt = sexp(cond) if cond else "unconditional"
            if guard:
                R.ob("W-PRODUCER", "%s:guard" % name, guard in ctxt and "0.0" in ctxt, F.loc(f, n), "infeasibility must be declared only when the phase-1 optimum differs from 0: guard is `%s`" % ctxt[:120], undecided=True)
            else:
                R.ob("W-PRODUCER", "%s:guard" % name, ctxt.endswith("arm Option::None") and "Option<(usize, f64)>" in ctxt, F.loc(f, n), "unboundedness must be declared only when no leaving row exists: producer context `%s`" % ctxt[:120], undecided=True)
