"""C09 Expressions parse with the documented precedence and associativity.

Decides (static, structural): T-PRATT, S-3WAY, G rules, H-IMPLICIT, H-INTOEXP.
Does not decide: pest's engine, evaluation semantics of the operators.
"""
from facts import norm, walk, strip, sexp, base_ty
import table
import pratt
import grammar as G_
from flow import LocalFlow, pat_binds

RULE_ENUM = "parser::pre_model::Rule"
BINOP = "math::operators::BinOp"
UNOP = "math::operators::UnOp"

# documented order (property statement): lowest first
DOC_LEVELS = [
    {"implies_op": ("infix", "Right"), "iff_op": ("infix", "Left")},
    {"or_op": ("infix", "Left")},
    {"xor_op": ("infix", "Left")},
    {"and_op": ("infix", "Left")},
    {"add": ("infix", "Left"), "sub": ("infix", "Left")},
    {"mul": ("infix", "Left"), "div": ("infix", "Left")},
    {"neg": ("prefix",), "not_op": ("prefix",)},
]
# rule -> operator (name preserving) and the literal spellings the property documents
RULE_TO_OP = {"add": "Add", "sub": "Sub", "mul": "Mul", "div": "Div", "and_op": "And", "or_op": "Or", "xor_op": "Xor", "implies_op": "Implies", "iff_op": "Iff"}
RULE_TO_UNOP = {"neg": "Neg", "not_op": "Not"}
DOC_LITERALS = {
    "add": {"+"}, "sub": {"-"}, "mul": {"*"}, "div": {"/"},
    "and_op": {"and", "&&"}, "or_op": {"or", "||"}, "xor_op": {"xor"},
    "implies_op": {"implies", "->"}, "iff_op": {"iff", "<->"},
    "neg": {"-"}, "not_op": {"not", "!"},
}
BINOP_TO_EXP = {"And": "Exp::And", "Or": "Exp::Or", "Xor": "Exp::Xor", "Implies": "Exp::Implies", "Iff": "Exp::Iff",
                "Add": "Exp::BinOp", "Sub": "Exp::BinOp", "Mul": "Exp::BinOp", "Div": "Exp::BinOp"}


def pratt_table(F, R, rule="T-PRATT"):
    tabs = pratt.extract_pratt_tables(F)
    R.count(rule + ".tables", len(tabs))
    if len(tabs) != 1:
        R.ob(rule, "single-table", False, "", "expected exactly one PrattParser table, found %d" % len(tabs), undecided=True)
        return None
    f, levels = tabs[0]
    R.fn(f["path"])
    where = F.loc(f)
    R.table("pratt_levels", [{k: list(v) for k, v in l.items()} for l in levels])
    flat = {}
    for i, l in enumerate(levels):
        for r, a in l.items():
            flat[r] = (i, a)
    doc = {}
    for i, l in enumerate(DOC_LEVELS):
        for r, a in l.items():
            doc[r] = (i, a)
    for r in sorted(set(flat) | set(doc)):
        got = flat.get(r)
        want = doc.get(r)
        # compare relative order, not absolute index: map both to rank among documented groups
        R.ob(rule, "op:" + r, got == want, where,
             "operator %s: table has %s, documented %s" % (r, got, want))
    R.ob(rule, "levels", len(levels) == len(DOC_LEVELS), where, "number of precedence levels %d vs documented %d" % (len(levels), len(DOC_LEVELS)))
    return levels


def rule_maps(F, R, rule="S-3WAY"):
    """matches over Rule whose arms produce BinOp / UnOp variants (map_infix / map_prefix)"""
    found = {"bin": [], "un": []}
    for f, m in table.find_matches(F, scrut_ty=RULE_ENUM):
        heads = {}
        for arm in m["arms"]:
            h = table.head(arm["body"], unwrap_ok=True)
            for alt in table.pat_alternatives(arm["pat"]):
                ph = table.pat_head(alt)
                if ph[0] == "variant" and h[0] == "variant" and not h[1].endswith(("Option::None", "Result::Err")):
                    heads[ph[1].rsplit("::", 1)[-1]] = h[1]
        if heads and all(v.startswith(BINOP + "::") for v in heads.values()):
            found["bin"].append((f, m, heads))
        elif heads and all(v.startswith(UNOP + "::") for v in heads.values()):
            found["un"].append((f, m, heads))
    return found


def check(F, R, Gm):
    levels = pratt_table(F, R)
    R.floor("T-PRATT", 12)
    # ---- S-3WAY ------------------------------------------------------------------
    maps = rule_maps(F, R)
    gram_bin = [G_.untag(a) for a in G_.choices(G_.untag(Gm.expr("binary_op")))]
    gram_un = [G_.untag(a) for a in G_.choices(G_.untag(Gm.expr("unary_op")))]
    gb = [a["v"] for a in gram_bin if a["k"] == "Ident"]
    gu = [a["v"] for a in gram_un if a["k"] == "Ident"]
    R.ob("S-3WAY", "grammar-binary_op-idents", len(gb) == len(gram_bin), "grammar.pest:binary_op", "binary_op must be a choice of operator rules")
    R.ob("S-3WAY", "grammar-unary_op-idents", len(gu) == len(gram_un), "grammar.pest:unary_op", "unary_op must be a choice of operator rules")
    if levels is not None:
        t_inf = {r for l in levels for r, a in l.items() if a[0] == "infix"}
        t_pre = {r for l in levels for r, a in l.items() if a[0] == "prefix"}
        R.ob("S-3WAY", "binary:grammar=pratt", set(gb) == t_inf, "grammar.pest:binary_op",
             "grammar binary_op alternatives %s vs Pratt infix rules %s (an operator missing from the table makes pest's Pratt parser panic)" % (sorted(gb), sorted(t_inf)))
        R.ob("S-3WAY", "unary:grammar=pratt", set(gu) == t_pre, "grammar.pest:unary_op",
             "grammar unary_op alternatives %s vs Pratt prefix rules %s" % (sorted(gu), sorted(t_pre)))
    for kind, ref, gl in (("bin", RULE_TO_OP, gb), ("un", RULE_TO_UNOP, gu)):
        ms = maps[kind]
        R.ob("S-3WAY", "map-%s:unique" % kind, len(ms) == 1, "", "expected one Rule->%s mapping match, found %d" % (kind, len(ms)), undecided=True)
        for f, m, heads in ms:
            R.fn(f["path"])
            where = F.loc(f, m)
            R.ob("S-3WAY", "map-%s:domain" % kind, set(heads) == set(gl), where,
                 "rules handled %s vs grammar alternatives %s" % (sorted(heads), sorted(gl)))
            for r, v in sorted(heads.items()):
                want = ref.get(r)
                R.ob("S-3WAY", "map-%s:%s" % (kind, r), want is not None and v.rsplit("::", 1)[-1] == want, where,
                     "Rule::%s maps to %s, expected %s (name preserving)" % (r, v, want))
    R.floor("S-3WAY", 17)
    # ---- G rules -----------------------------------------------------------------
    for r, lits in sorted(DOC_LITERALS.items()):
        if r not in Gm.rules:
            R.ob("G-LITERALS", r, False, "grammar.pest", "operator rule %s missing" % r)
            continue
        ex = G_.exact_literals(Gm, Gm.expr(r))
        where = "grammar.pest:" + r
        if ex is None:
            R.ob("G-LITERALS", r, False, where, "operator rule is not a choice of literals")
            continue
        R.ob("G-LITERALS", r, {l for l, _ in ex} == lits, where, "spellings %s, documented %s (aliases must be alternatives of the same rule as the keyword)" % (sorted(l for l, _ in ex), sorted(lits)))
        for l, boundary in ex:
            if l.isalpha():
                R.ob("G-BOUNDARY", "%s:%s" % (r, l), boundary and Gm.ty(r) == "Atomic", where,
                     "alphabetic operator %r must be atomic and followed by !(LETTER|NUMBER|\"_\") so that identifiers starting with it stay identifiers" % l)
    # every other rule below exp_leaf that matches nothing but alphabetic words (the boolean literal): a leaf alternative
    # that is tried before `variable` and ends inside an identifier splits the identifier (`truex` = `true` then `x`)
    below = set()
    todo = ["exp_leaf"] if "exp_leaf" in Gm.rules else []
    while todo:
        r_ = todo.pop()
        if r_ in below or r_ not in Gm.rules:
            continue
        below.add(r_)
        for n_ in walk(Gm.expr(r_)):
            if isinstance(n_, dict) and n_.get("k") == "Ident":
                todo.append(n_["v"])
    for r_ in sorted(below):
        if r_ in DOC_LITERALS or r_ == "keyword":
            continue
        ex_ = G_.exact_literals(Gm, Gm.expr(r_))
        if not ex_:
            continue
        words = [(l_, b_) for l_, b_ in ex_ if l_.lstrip("^").isalpha()]
        if len(words) != len(ex_):
            continue
        for l_, b_ in words:
            R.ob("G-BOUNDARY", "%s:%s" % (r_, l_), b_ and Gm.ty(r_) == "Atomic", "grammar.pest:" + r_,
                 "the word %r of rule %s is an expression leaf: it must be atomic and followed by !(LETTER|NUMBER|\"_\"), else an identifier that starts with it is split (`%sx + 1 >= 0` reads as `%s` and `x + 1 >= 0`)" % (l_, r_, l_.lstrip("^"), l_.lstrip("^")), positive=True)
    # keyword rule
    kw = G_.exact_literals(Gm, Gm.expr("keyword")) if "keyword" in Gm.rules else None
    R.ob("G-BOUNDARY", "keyword:atomic+boundary", kw is not None and all(b for _, b in kw) and Gm.ty("keyword") == "Atomic", "grammar.pest:keyword",
         "keyword must be atomic with an identifier-boundary look-ahead")
    if kw is not None:
        kws = {l for l, _ in kw}
        for r, lits in DOC_LITERALS.items():
            for l in lits:
                if l.isalpha():
                    R.ob("G-KEYWORD", "reserved:" + l, l in kws, "grammar.pest:keyword", "operator word %r must be a keyword (else it parses as a variable)" % l)
    # variable guarded by !keyword
    ve = [G_.untag(p) for p in G_.seq(G_.untag(Gm.expr("variable")))]
    guarded = bool(ve) and ve[0]["k"] == "NegPred" and any(n.get("k") == "Ident" and n.get("v") == "keyword" for n in walk(ve[0]))
    R.ob("G-KEYWORD", "variable:!keyword", guarded, "grammar.pest:variable", "variable must start with !keyword")
    # ordered-choice shadowing
    for r in ("binary_op", "unary_op", "comparison", "number", "range_type", "objective_type", "boolean"):
        if r not in Gm.rules:
            continue
        sh = G_.shadowed_alternatives(Gm, r)
        R.ob("G-SHADOW", r, not sh, "grammar.pest:" + r, "earlier alternative is a proper prefix of a later one (PEG never reaches the later): %s" % sh)
    # number: float before integer (float starts with the digits integer would consume)
    num = [G_.untag(a) for a in G_.choices(G_.untag(Gm.expr("number")))]
    names = [a.get("v") for a in num]
    R.ob("G-SHADOW", "number:float-before-integer", "float" in names and "integer" in names and names.index("float") < names.index("integer"), "grammar.pest:number", "alternatives %s" % names)
    # exp shape and exp_leaf order
    leafs = [G_.untag(a).get("v") for a in G_.choices(G_.untag(Gm.expr("exp_leaf")))]
    R.table("exp_leaf_alternatives", leafs)
    def before(a, b):
        return a in leafs and b in leafs and leafs.index(a) < leafs.index(b)
    R.ob("G-LEAF", "implicit_mul-is-leaf", "implicit_mul" in leafs, "grammar.pest:exp_leaf", "implicit_mul must be a primary (leaf) so that 2x, 2(x+1), (a)(b)c form one factor")
    for a, b in (("implicit_mul", "parenthesis"), ("implicit_mul", "primitive"), ("function", "variable"), ("block_function", "variable"), ("block_scoped_function", "block_function"), ("array_access", "variable")):
        R.ob("G-LEAF", "%s<%s" % (a, b), before(a, b), "grammar.pest:exp_leaf", "%s must be tried before %s (the latter matches a prefix of the former)" % (a, b))
    es = [G_.untag(p) for p in G_.seq(G_.untag(Gm.expr("exp")))]
    shape = [(p["k"], (G_.untag(p["e"]).get("v") if p["k"] in ("Opt", "Rep") and G_.untag(p["e"])["k"] == "Ident" else p.get("v"))) for p in es]
    ok_shape = len(es) == 3 and shape[0] == ("Opt", "unary_op") and shape[1] == ("Ident", "exp_leaf") and es[2]["k"] == "Rep"
    if ok_shape:
        inner = [G_.untag(p) for p in G_.seq(G_.untag(es[2]["e"]))]
        ishape = [(p["k"], (G_.untag(p["e"]).get("v") if p["k"] in ("Opt",) else p.get("v"))) for p in inner]
        ok_shape = ishape == [("Ident", "binary_op"), ("Opt", "unary_op"), ("Ident", "exp_leaf")]
    R.ob("G-LEAF", "exp-shape", ok_shape, "grammar.pest:exp", "exp must be `unary_op? ~ exp_leaf ~ (binary_op ~ unary_op? ~ exp_leaf)*` (the token stream the Pratt table is written for)")
    im = Gm.rules.get("implicit_mul")
    if im:
        idents = {n["v"] for n in walk(im["expr"]) if n.get("k") == "Ident"}
        R.ob("G-LEAF", "implicit_mul-operands", idents <= {"number", "parenthesis", "variable"}, "grammar.pest:implicit_mul", "operands %s" % sorted(idents))
    R.floor("G-LITERALS", 11)
    R.floor("G-BOUNDARY", 7)
    R.floor("G-SHADOW", 5)
    R.floor("G-LEAF", 8)
    # ---- H-IMPLICIT --------------------------------------------------------------
    h_implicit(F, R)
    # ---- H-INTOEXP ---------------------------------------------------------------
    h_intoexp(F, R)
    g_tags(R, Gm, F)
    import c09rt
    c09rt.check(F, R, Gm)


def h_implicit(F, R):
    """the arm for Rule::implicit_mul builds only BinOp::Mul nodes and folds to the left"""
    hits = 0
    for f, m in table.find_matches(F, scrut_ty=RULE_ENUM):
        for arm in m["arms"]:
            alts = [table.pat_head(a) for a in table.pat_alternatives(arm["pat"])]
            if not any(h[0] == "variant" and h[1].endswith("::implicit_mul") for h in alts):
                continue
            ctors = [n for n in walk(arm["body"]) if n.get("k") == "Call" and norm(n.get("callee") or "").endswith("PreExp::BinaryOperation")]
            if not ctors:
                continue
            hits += 1
            R.fn(f["path"])
            where = F.loc(f, arm["body"])
            lf = LocalFlow(f["body"])
            ops = set()
            for c in ctors:
                for n in walk(c["args"][0]):
                    if n.get("k") == "Path" and n.get("dk") == "Variant" and norm(n["path"]).startswith(BINOP):
                        ops.add(n["path"].rsplit("::", 1)[-1])
            R.ob("H-IMPLICIT", "only-mul", ops == {"Mul"}, where, "implicit multiplication builds operators %s, expected only Mul" % sorted(ops))
            # left fold: inside the loop, the accumulator is the *left* operand
            loops = [n for n in walk(arm["body"]) if n.get("k") == "For"]
            ok_fold = False
            detail = "no fold loop found"
            for lp in loops:
                loopvars = {i for i, _ in pat_binds(lp["pat"])}
                for n in walk(lp["body"]):
                    if n.get("k") == "Assign":
                        acc = strip(n["lhs"])
                        rhs = strip(n["rhs"])
                        if acc.get("k") == "Path" and rhs.get("k") == "Call" and norm(rhs.get("callee") or "").endswith("PreExp::BinaryOperation"):
                            from flow import free_locals
                            a1 = free_locals(rhs["args"][1])
                            a2 = free_locals(rhs["args"][2])
                            ok_fold = acc["id"] in a1 and acc["id"] not in a2 and bool(loopvars & a2) and not (loopvars & a1)
                            detail = "fold step %s" % sexp(n)[:160]
            # the fold is recognised as a `for` loop; an iterator `fold` is not (undecided).  CONVERT-EXP decides the reading of
            # `(a)(b)c`, `2x`, `2(x + 1)` by evaluating the converter
            R.ob("H-IMPLICIT", "left-fold", ok_fold, where, "implicit multiplication must fold left (accumulator as left operand): " + detail, undecided=True)
            # the iteration order of the operands is the source order (no rev/sort)
            bad = [n["name"] for n in walk(arm["body"]) if n.get("k") == "MCall" and n["name"] in ("rev", "sort", "sort_by", "reverse", "skip", "step_by", "dedup")]
            R.ob("H-IMPLICIT", "source-order", not bad, where, "operand order adapters: %s" % bad)
    R.floor("H-IMPLICIT", 3)


def h_intoexp(F, R):
    """PreExp::into_exp maps each operator to the same-named Exp form with operands in place"""
    EXP = "parser::model_transformer::model::Exp"
    hits = 0
    for f, m in table.find_matches(F, scrut_ty=BINOP):
        heads = {}
        for arm in m["arms"]:
            h = table.head(arm["body"])
            if h[0] == "variant" and h[1].startswith(EXP + "::"):
                for alt in table.pat_alternatives(arm["pat"]):
                    ph = table.pat_head(alt)
                    if ph[0] == "variant":
                        heads[ph[1].rsplit("::", 1)[-1]] = (h, arm)
        if len(heads) < 5:
            continue
        hits += 1
        R.fn(f["path"])
        where = F.loc(f, m)
        # operands: the enclosing arm binds (op, lhs, rhs) of PreExp::BinaryOperation
        encl = None
        for mm in walk(f["body"]):
            if mm.get("k") == "Match":
                for arm in mm["arms"]:
                    if any(x is m for x in walk(arm["body"])):
                        ph = [table.pat_head(a) for a in table.pat_alternatives(arm["pat"])]
                        if any(h[0] == "variant" and h[1].endswith("PreExp::BinaryOperation") for h in ph):
                            encl = arm
        lf = LocalFlow(f["body"])
        ids = None
        if encl is not None:
            alt = table.pat_alternatives(encl["pat"])[0]
            subs = alt.get("pats", [])
            if len(subs) == 3:
                b = [pat_binds(s) for s in subs]
                if all(len(x) == 1 for x in b):
                    ids = [x[0][0] for x in b]
        R.ob("H-INTOEXP", "operands-bound", ids is not None, where, "could not find the (op, lhs, rhs) bindings of PreExp::BinaryOperation", undecided=True)
        for v in F.variants(BINOP):
            if v not in heads:
                R.ob("H-INTOEXP", "binop:" + v, False, where, "BinOp::%s has no arm building an Exp form" % v)
                continue
            h, arm = heads[v]
            want = BINOP_TO_EXP[v]
            okc = h[1].endswith(want)
            detail = "BinOp::%s -> %s, expected %s" % (v, h[1], want)
            args = h[2]
            operands = []
            if want == "Exp::BinOp":
                # first arg must be the operator itself (bound by `op @ (..)`) or the same variant
                a0 = strip(args[0]) if args else {}
                binds = {i for i, _ in pat_binds(arm["pat"])}
                same_op = (a0.get("k") == "Path" and a0.get("res") == "local" and a0["id"] in binds) or (a0.get("k") == "Path" and norm(a0.get("path") or "").endswith("BinOp::" + v))
                okc = okc and same_op
                operands = args[1:3]
            elif want in ("Exp::And", "Exp::Or"):
                arr = [n for n in walk(args[0]) if n.get("k") == "Array"] if args else []
                operands = arr[0]["es"] if arr else []
            else:
                operands = args[0:2]
            okp = False
            if ids is not None and len(operands) == 2:
                S = set(ids)
                r0 = lf.roots(operands[0], stop=S) & S
                r1 = lf.roots(operands[1], stop=S) & S
                # shadowing `let lhs = lhs.into_exp(..)`: follow through
                okp = r0 == {ids[1]} and r1 == {ids[2]}
                detail += "; operand sources %s / %s" % (sorted(str(lf.names.get(i, i)) for i in r0), sorted(str(lf.names.get(i, i)) for i in r1))
            R.ob("H-INTOEXP", "binop:" + v, okc and okp, F.loc(f, arm["body"]), detail)
    for f, m in table.find_matches(F, scrut_ty=UNOP):
        heads = {}
        for arm in m["arms"]:
            h = table.head(arm["body"])
            if h[0] == "variant" and h[1].startswith(EXP + "::"):
                for alt in table.pat_alternatives(arm["pat"]):
                    ph = table.pat_head(alt)
                    if ph[0] == "variant":
                        heads[ph[1].rsplit("::", 1)[-1]] = h
        if len(heads) < 2:
            continue
        R.fn(f["path"])
        for v, h in sorted(heads.items()):
            want = {"Not": "Exp::Not", "Neg": "Exp::UnOp"}[v]
            ok = h[1].endswith(want)
            if v == "Neg" and ok:
                a0 = strip(h[2][0])
                ok = norm(a0.get("path") or "").endswith("UnOp::Neg")
            R.ob("H-INTOEXP", "unop:" + v, ok, F.loc(f, m), "UnOp::%s -> %s, expected %s" % (v, h[1], want))
    R.floor("H-INTOEXP", 12)


# ---- G-TAG ------------------------------------------------------------------------------------------------
# The converters fetch the parts of a pair with `pairs.find_first_tagged(tag)`, which searches ALL nested pairs in
# document order (pest: Pairs::find_tagged = flatten().filter(tag)), not only the direct children.  A tag is therefore only
# safe if no pair that can precede the intended one in document order can carry the same tag: no earlier sibling element
# may derive (through any chain of rules) a pair with that tag, and when the intended element may be absent (optional, or
# an alternative that produces no pair such as a bare literal) no later sibling may either.

def g_tags(R, Gm, F=None):
    from grammar import untag
    memo = {}

    def tags_star(e, seen=()):
        """all node tags a pair derived from expression e can carry, at any depth"""
        k = e["k"]
        if k == "NodeTag":
            return {e["tag"]} | tags_star(e["e"], seen)
        if k == "Ident":
            n = e["v"]
            if n not in Gm.rules or n in seen:
                return set()
            if n in memo:
                return memo[n]
            r = tags_star(Gm.expr(n), seen + (n,))
            if not seen:
                memo[n] = r
            return r
        out = set()
        for key in ("a", "b", "e"):
            if isinstance(e.get(key), dict):
                out |= tags_star(e[key], seen)
        return out

    def must_pair(e, depth=0):
        """every match of e produces at least one pair"""
        k = e["k"]
        if depth > 12:
            return False
        if k == "Ident":
            n = e["v"]
            if n not in Gm.rules:
                return n == "EOI"
            if Gm.ty(n) == "Silent":
                return must_pair(Gm.expr(n), depth + 1)
            return True
        if k == "Seq":
            return must_pair(e["a"], depth + 1) or must_pair(e["b"], depth + 1)
        if k == "Choice":
            return must_pair(e["a"], depth + 1) and must_pair(e["b"], depth + 1)
        if k in ("RepOnce", "NodeTag"):
            return must_pair(e["e"], depth + 1)
        if k in ("RepMin", "RepExact"):
            return e["n"] > 0 and must_pair(e["e"], depth + 1)
        return False

    def paths(e):
        """the alternative element sequences of a rule body in document order, silent rules inlined:
        [[(expr, optional?), ...], ...] -- one list per combination of top-level choice alternatives"""
        k = e["k"]
        if k == "Seq":
            return [x + y for x in paths(e["a"]) for y in paths(e["b"])]
        if k == "Ident" and e["v"] in Gm.rules and Gm.ty(e["v"]) == "Silent":
            return paths(Gm.expr(e["v"]))
        if k in ("Opt", "Rep"):
            return [[(x, True) for x, _ in p] for p in paths(e["e"])]
        if k == "Choice":
            return paths(e["a"]) + paths(e["b"])
        return [[(e, False)]]

    n = 0
    hazards = {}
    direct = {}
    for name in Gm.order:
        if Gm.ty(name) == "Silent":
            continue
        verdict = {}
        for els in paths(Gm.expr(name))[:64]:
            for i, (el, opt) in enumerate(els):
                if el["k"] != "NodeTag":
                    continue
                tag = el["tag"]
                inner = el["e"]
                maybe_absent = opt or inner["k"] in ("Opt", "Rep") or not must_pair(inner)
                before = set()
                for x, _ in els[:i]:
                    before |= tags_star(x)
                after = set()
                for x, _ in els[i + 1:]:
                    after |= tags_star(x)
                why = None
                if tag in before:
                    why = "an earlier element of `%s` can contain a nested pair tagged `%s`, which find_first_tagged meets first" % (name, tag)
                elif maybe_absent and tag in after:
                    why = "`#%s` may be absent (or its expression may match without producing a pair), and a later element of `%s` can contain a nested pair tagged `%s`" % (tag, name, tag)
                if why or tag not in verdict:
                    verdict[tag] = why
        for tag, why in verdict.items():
            n += 1
            hazards[(name, tag)] = why
            direct.setdefault(name, set()).add(tag)
    lookups = converter_lookups(F) if F is not None else {}
    # associate every group of lookups on one receiver with the grammar rule(s) whose direct tags they are
    by_rule = {}
    for (fn, recv), tags in lookups.items():
        asked = set(tags)
        cands = [r for r, ts in direct.items() if ts == asked] or [r for r, ts in direct.items() if asked <= ts]
        if len(cands) > 1:
            m = min(len(direct[r]) for r in cands)
            cands = [r for r in cands if len(direct[r]) == m]
        R.ob("G-TAG", "site:%s:%s" % (fn.rsplit("::", 1)[-1], recv), bool(cands), F.loc(F.fn(fn)), "tags %s looked up on `%s` are the direct tags of grammar rule(s) %s" % (sorted(asked), recv, cands or "NONE: the converter asks for tags no rule declares together"))
        for r in cands:
            for t, kind in tags.items():
                by_rule.setdefault((r, t), []).append((fn, kind))
    for (name, tag), why in sorted(hazards.items()):
        users = by_rule.get((name, tag), [])
        flat = [fn.rsplit("::", 1)[-1] for fn, kind in users if kind == "flattened"]
        if why is None:
            R.ob("G-TAG", "%s#%s" % (name, tag), True, "grammar.pest:" + name, "no nested `%s` can be met before the intended pair" % tag)
        elif F is None:
            R.ob("G-TAG", "%s#%s" % (name, tag), False, "grammar.pest:" + name, why)
        else:
            R.ob("G-TAG", "%s#%s" % (name, tag), not flat, "grammar.pest:" + name, why + ("; read with the nested search find_first_tagged in %s" % flat if flat else "; every converter reads it among the direct children only (%s)" % sorted({fn.rsplit("::", 1)[-1] for fn, _ in users})))
    R.count("G-TAG.tags", n)


def converter_lookups(F):
    """{(function, receiver text): {tag: 'flattened' | 'direct'}} for every tag lookup in the parse-tree converters:
    pest's Pairs::find_first_tagged / find_tagged search nested pairs; a local helper that filters the pairs themselves by
    as_node_tag (without flatten) looks at direct children only"""
    helpers = set()
    for f in F.fn_list:
        if "body" not in f:
            continue
        names = {n.get("name") for n in walk(f["body"]) if n.get("k") == "MCall"}
        if "as_node_tag" in names and not ({"flatten", "find_tagged", "find_first_tagged"} & names) and len(f.get("params", [])) == 2:
            helpers.add(f["path"])
    out = {}
    for f in F.fn_list:
        if "body" not in f or f["path"] in helpers:
            continue
        for n in walk(f["body"]):
            tag = recv = kind = None
            if n.get("k") == "MCall" and n["name"] in ("find_first_tagged", "find_tagged") and "pest::iterators" in (n.get("callee") or "") and n["args"]:
                recv, tag, kind = sexp(strip(n["recv"])), strip(n["args"][0]), "flattened"
            elif n.get("k") == "Call" and F.fn(n.get("resolved") or n.get("callee") or "") is not None and F.fn(n.get("resolved") or n.get("callee"))["path"] in helpers and len(n["args"]) == 2:
                recv, tag, kind = sexp(strip(n["args"][0])), strip(n["args"][1]), "direct"
            if tag is None:
                continue
            if tag.get("k") != "Lit":
                out.setdefault((f["path"], recv), {})["<non-literal>"] = kind
                continue
            out.setdefault((f["path"], recv), {})[str(tag["v"])] = kind
    return out
