"""RECOMPILE-EQUIV (C12): the rendering of a compiled linear model compiles again, to the same text.

Source programs (the construct side of EXPAND-EQUIV's family, the text side of FRONT-DOOR-EQUIV's family, and programs
whose generated names meet user names: an index fragment that is also a variable's name, graph nodes named like
variables, row names made of a prefix and a variable name) are compiled by the emulated front end and compile step
(matcher model, converters, type checker, transformer, linearizer -- all from typed HIR).  The printed linear model is
then given to the same chain as a new source text: it must be accepted by the grammar, the converters, the type checker
and the transformer, and its linear model must print as the very same text."""
import roundtrip
from interp import Var, ListV, is_unknown

TC = "parser::pre_model::PreModel::create_type_checker"
TRANSFORM = "parser::model_transformer::model::transform_parsed_problem"
LINEARIZE = "transformers::linearizer::Linearizer::linearize"


def collisions():
    P = lambda obj, cons, where=None, define=None: obj + "\ns.t.\n" + "\n".join("    " + c for c in cons) + ("\nwhere\n" + "\n".join("    " + w for w in where) if where else "") + "\ndefine\n" + "\n".join("    " + d for d in define) + "\n"
    return [
        ("index fragment is a variable name", P("min a + sum(s in S) { x_s }", ["x_s >= 1 for s in S", "a >= 2"], ['let S = ["a", "b"]'], ["x_s as NonNegativeReal for s in S", "a as NonNegativeReal"])),
        ("graph node named like a variable", P("min B + sum(v in nodes(G)) { x_v }", ["x_v + B >= 1 for v in nodes(G)"], ["let G = Graph { A -> [ B ], B }"], ["x_v as Boolean for v in nodes(G)", "B as NonNegativeReal"])),
        ("row name made of a variable name", P("min x + y", ["limit_s: x + y >= 1 for s in S", "x >= 0.5"], ['let S = ["x", "y"]'], ["x, y as NonNegativeReal"])),
        ("variable named like an indexed one", P("min cost + pick_cost", ["cost + pick_cost >= 3", "pick_cost <= 2"], None, ["cost, pick_cost as NonNegativeReal"])),
        ("numeric fragments", P("min x_1_23 + x_12_3", ["x_1_23 >= 1", "x_12_3 >= 2"], None, ["x_1_23, x_12_3 as NonNegativeReal"])),
        ("auxiliaries next to user names", P("min abs { x - y } + max { x, y }", ["x >= 1", "y >= 2"], None, ["x, y as Real(-5, 5)"])),
    ]


def compile_text(RT, text, checked=True):
    """-> printed linear model, or ('error', stage, why)"""
    I = RT.I
    ast = RT.parse_text(text)
    if isinstance(ast, tuple):
        return ("error", "parse", ast[1][:200])
    if checked:
        r = I.call_fn(TC, [ast, ListV([]), ListV([])])
        if is_unknown(r) or not isinstance(r, Var):
            return ("error", "unknown", "type checker not evaluable: %r" % (r,))
        if not r.path.endswith("Result::Ok"):
            return ("error", "typecheck", repr(r)[:200])
        ast = RT.parse_text(text)
    r = I.call_fn(TRANSFORM, [ast, ListV([]), ListV([])])
    if is_unknown(r) or not isinstance(r, Var):
        return ("error", "unknown", "transformer not evaluable: %r" % (r,))
    if not r.path.endswith("Result::Ok"):
        return ("error", "transform", repr(r)[:300])
    u = roundtrip.find_unknown(r.args[0])
    if u is not None:
        return ("error", "unknown", "transformer not evaluable: %r" % (u,))
    r2 = I.call_fn(LINEARIZE, [r.args[0]])
    if is_unknown(r2) or not isinstance(r2, Var):
        return ("error", "unknown", "compile step not evaluable: %r" % (r2,))
    if not r2.path.endswith("Result::Ok"):
        return ("error", "linearize", repr(r2)[:200])
    t = I.display(r2.args[0])
    if is_unknown(t):
        return ("error", "unknown", "printer not evaluable: %r" % (t,))
    t = roundtrip.concretise(t)
    return t if t is not None else ("error", "unknown", "opaque value in the rendering")


def check(F, R, Gm, tier="quick"):
    import c06rt
    import c16rt
    RT = roundtrip.RoundTrip(F, Gm)
    RT.I.max_depth = 1500
    srcs = [("collision:" + l, t) for l, t in collisions()]
    ex = c06rt.pairs() + c06rt.generated(tier)
    srcs += [("expand:" + l, a) for k, (l, a, b) in enumerate(ex) if tier == "thorough" or k % 3 == 0]
    srcs += [("frontdoor:" + md["label"], c16rt.text_model(md)) for k, md in enumerate(c16rt.models()) if tier == "thorough" or k % 4 == 0]
    R.count("RECOMPILE-EQUIV.programs", len(srcs))
    where = "packages/rooc/src/transformers/linear_model.rs"
    n_ok = 0
    for label, text in srcs:
        key = label.replace(" ", "-")
        first = compile_text(RT, text)
        if isinstance(first, tuple):
            if first[1] == "unknown":
                R.undecided("RECOMPILE-EQUIV", key, where, first[2])
            continue     # a source the compile step refuses is not this rule's business
        again = compile_text(RT, first)
        if isinstance(again, tuple):
            if again[1] == "unknown":
                R.undecided("RECOMPILE-EQUIV", key, where, again[2])
            else:
                R.ob("RECOMPILE-EQUIV", key, False, where, "the compiled model `%s` is rejected when compiled again (%s): %s" % (first.replace("\n", " / ")[:220], again[1], again[2]))
            continue
        if again != first:
            la, lb = first.split("\n"), again.split("\n")
            d = next((i for i, (x, y) in enumerate(zip(la, lb)) if x != y), min(len(la), len(lb)))
            R.ob("RECOMPILE-EQUIV", key, False, where, "compiling the rendering again changes line %d: `%s` becomes `%s`" % (d + 1, la[d] if d < len(la) else "<end>", lb[d] if d < len(lb) else "<end>"))
            continue
        n_ok += 1
        R.ob("RECOMPILE-EQUIV", key, True, where, "compiles again to the same text (%d lines)" % len(first.split("\n")))
    R.count("RECOMPILE-EQUIV.fixpoints", n_ok)
