"""OBJ-HEADER: the objective line written by each printer is a sentence of the grammar rule `objective`.

grammar side: every alternative of `objective` is (keyword set, body required?) -- extracted from the pest AST.
printer side: each printer's Display impl is evaluated by the table interpreter for every OptimizationType variant with a
symbolic body, and the first line is split into keyword / rest.  Obligation per (printer, variant): the keyword is one of an
alternative's keywords, the alternative's body-ness equals the printed line's, and the keyword parses back (FromStr table)
to the same variant."""
from facts import norm
from grammar import choices, seq, untag, exact_literals
from interp import Interp, Var, Rope, Leaf, ListV, is_unknown

OPT = "math::math_enums::OptimizationType"
PRINTERS = {
    "C11": [("parser::il::il_problem::PreObjective", {"rhs": "BODY"})],
    "C12": [("parser::model_transformer::model::Objective", {"rhs": "BODY"}),
            ("transformers::linear_model::LinearModel", {"constraints": [], "objective": [], "variables": [], "domain": [], "objective_offset": 0.0})],
}


def grammar_headers(G):
    out = {}
    for alt in choices(G.expr("objective")):
        parts = [untag(x) for x in seq(alt)]
        lits = exact_literals(G, parts[0])
        if lits is None:
            return None
        for l, _b in lits:
            out[l.lstrip("^").lower()] = len(parts) > 1
    return out


def check(F, R, G, prop):
    gh = grammar_headers(G)
    R.ob("OBJ-HEADER", "grammar:objective-alternatives", bool(gh), "packages/rooc/src/parser/grammar.pest", "alternatives of `objective` as (keyword, body?) = %s" % (gh,))
    if not gh:
        return
    en = F.enums.get(OPT)
    R.ob("OBJ-HEADER", "anchor:OptimizationType", en is not None, "packages/rooc/src/math/math_enums.rs", "enum OptimizationType present")
    if en is None:
        return
    variants = [v["name"] if isinstance(v, dict) else v for v in en["variants"]]
    I = Interp(F, max_depth=80)
    for ty, fields in PRINTERS[prop]:
        st = F.structs.get(ty)
        R.ob("OBJ-HEADER", "anchor:" + ty, st is not None and norm(ty) in I.display_impls, "packages/rooc/src", "printer %s has a Display impl" % ty)
        if st is None or norm(ty) not in I.display_impls:
            continue
        R.fn(I.display_impls[norm(ty)])
        for v in variants:
            fl = {}
            for k, x in fields.items():
                fl[k] = Leaf(x) if isinstance(x, str) else (ListV([]) if isinstance(x, list) else x)
            for fname in st["variants"][0]["fields"]:
                fn_ = fname["name"]
                fty = fname.get("ty") or ""
                if fn_ not in fl and norm(fty).endswith("OptimizationType"):
                    fl[fn_] = Var(OPT + "::" + v)
            r = I.display(Var(ty, fields=fl))
            key = "%s:%s" % (ty.rsplit("::", 1)[-1], v)
            if is_unknown(r):
                R.ob("OBJ-HEADER", key, False, F.loc(F.fn(I.display_impls[norm(ty)])), "header not evaluable: %r" % (r,))
                continue
            line = []
            for p in r.pieces:
                if isinstance(p, str) and "\n" in p:
                    line.append(p.split("\n", 1)[0])
                    break
                line.append(p)
            text = "".join(x if isinstance(x, str) else "\x00" for x in line)
            kw, _, rest = text.strip().partition(" ")
            has_body = bool(rest.strip())
            ok = kw.lower() in gh and gh[kw.lower()] == has_body
            # the keyword must read back as the same variant
            back = I.call_fn("<" + OPT + " as std::str::FromStr>::from_str", [kw])
            if ok:
                same = isinstance(back, Var) and back.args and isinstance(back.args[0], Var) and back.args[0].path == OPT + "::" + v
                R.ob("OBJ-HEADER", key + ":reads-back", bool(same), "packages/rooc/src/math/math_enums.rs", "`%s`.parse::<OptimizationType>() is %r, expected %s" % (kw, back, v))
            R.ob("OBJ-HEADER", key, ok, F.loc(F.fn(I.display_impls[norm(ty)])),
                 "objective line for %s is `%s`%s; the grammar %s" % (v, kw, " <body>" if has_body else "", ("has no alternative starting with `%s`" % kw) if kw.lower() not in gh else ("requires `%s`%s" % (kw, " <body>" if gh[kw.lower()] else " alone on its line"))))
