"""C14 Simplex steps -- termination and state discipline only (thin claim).

Decides: L (the solve loops are bounded by the iteration counter), T-PRED (the six tolerance
predicates form a consistent order), W-STATE (pivot updates all five state components in a
consistent order; optimality test and entering rule use complementary predicates; Bland's rule is
enabled by the stall counter and selects the smallest index; ratio test over positive entries
with smallest-basis-index tie break).  Not decided: the tableau invariants themselves (numeric).
"""
import re
from facts import norm, base_ty, walk, strip, sexp
from interp import Interp, is_unknown
import table

T = "solvers::simplex::tableau::Tableau"
MU = "math::math_utils::"



def S(R, rule, key, ok, where="", detail=""):
    """a clause that recognises a spelling of the code: when the spelling is not there the clause cannot tell a defect from
    a refactoring, so a miss is undecided; the behaviour behind these clauses is decided by SIMPLEX-EQUIV (c05rt.py)"""
    return R.ob(rule, key, ok, where, detail, undecided=True)

def loops(F, R):
    for name in ("solve_avoiding", "solve_step_by_step"):
        f = F.fn("%s::%s" % (T, name))
        if f is None:
            S(R, "L", name + ":anchor", False, "", "not found")
            continue
        R.fn(f["path"])
        ws = [w for w in walk(f["body"]) if w.get("k") == "While"]
        if not S(R, "L", name + ":loop", len(ws) == 1 and sexp(strip(ws[0]["cond"])) == "(iteration < limit)", F.loc(f), "the solve loop must be `while iteration < limit`"):
            continue
        w = ws[0]
        ms = [m for m in walk(w["body"]) if m.get("k") == "Match" and "step_inner" in sexp(m["scrut"])]
        ok = False
        detail = "no match over the step result"
        if ms:
            arms = ms[0]["arms"]
            kinds = {}
            for a in arms:
                p = sexp(a["pat"])
                b = a["body"]
                incr = any(x.get("k") == "AssignOp" and sexp(x["lhs"]) == "iteration" and x["op"] == "+=" and sexp(x["rhs"]) == "1" for x in walk(b))
                ret = any(x.get("k") == "Ret" for x in walk(b))
                kinds[p.split("(")[1].split("{")[0].split(")")[0] if "(" in p else p] = (incr, ret)
            # every arm either increments the counter or leaves the loop
            ok = all(i or r for (i, r) in kinds.values()) and any(i for (i, r) in kinds.values())
            detail = "arms (increments counter, returns): %s" % kinds
        S(R, "L", name + ":progress", ok, F.loc(f, w), "every arm of the loop body must increment the iteration counter or return: " + detail)
        t = sexp(f["body"])
        S(R, "L", name + ":limit-error", t.rstrip("}").rstrip().endswith("IterationLimitReached)"), F.loc(f), "leaving the loop by the limit must report IterationLimitReached")
        # stall counter drives Bland's rule
        lets = {sexp(s["pat"]): sexp(s["init"]) for s in walk(w["body"]) if s.get("k") == "Let" and s.get("init") is not None}
        S(R, "W-STATE", name + ":bland-trigger", lets.get("use_bland") == "(stalls > stall_limit)" and "use_bland)" in sexp(ms[0]["scrut"]) if ms else False, F.loc(f, w), "Bland's rule must be switched on by the stall counter and passed to the step: %s" % lets.get("use_bland"))
        # W-STALL: the counter is reset only when the objective moved; otherwise Bland's rule would be switched off in the
        # middle of a degenerate sequence and the anti-cycling argument (Bland persists while the vertex stalls) is lost
        import flow, re as _re
        moved = lambda g: any((_re.fullmatch(r"(math_utils::)?float_eq\(self\.current_value, last_value\)", c) and b is False) or (_re.fullmatch(r"(math_utils::)?float_ne\(self\.current_value, last_value\)", c) and b is True) for c, b in g)
        stalled = lambda g: any((_re.fullmatch(r"(math_utils::)?float_eq\(self\.current_value, last_value\)", c) and b is True) or (_re.fullmatch(r"(math_utils::)?float_ne\(self\.current_value, last_value\)", c) and b is False) for c, b in g)
        ws_ = flow.guarded_writes(w["body"], "stalls")
        bad_w = [(op, rhs, [c for c, _ in g]) for op, rhs, g in ws_ if not ((op == "+=" and rhs == "1" and stalled(g)) or (op == "=" and rhs == "0" and moved(g)))]
        S(R, "W-STATE", name + ":stall-writes", not bad_w and any(op == "+=" for op, _, _ in ws_) and any(op == "=" for op, _, _ in ws_), F.loc(f, w),
             "inside the loop `stalls` is only incremented when the objective did not move and only reset when it did (a reset anywhere else switches Bland's rule off inside a degenerate sequence): %s" % (bad_w or "%d writes ok" % len(ws_)))
        lv = flow.guarded_writes(w["body"], "last_value")
        bad_l = [(op, rhs) for op, rhs, g in lv if not (op == "=" and rhs == "self.current_value" and moved(g))]
        S(R, "W-STATE", name + ":last-value-writes", not bad_l and len(lv) >= 1, F.loc(f, w), "`last_value` follows the objective only when it moved: %s" % (bad_l or "ok"))
        S(R, "W-STATE", name + ":stall-count", "stalls += 1" in sexp(w["body"]) and "stalls = 0" in sexp(w["body"]) and "float_eq(self.current_value, last_value)" in sexp(w["body"]), F.loc(f, w), "stalls count consecutive pivots that leave the objective unchanged")


def predicates(F, R):
    I = Interp(F)
    names = ["float_lt", "float_gt", "float_le", "float_ge", "float_eq", "float_ne"]
    for n in names:
        R.fn(MU + n)
    vals = [0.0, 1e-7, -1e-7, 1e-4, -1e-4, 9.9e-6, 1.1e-5, 1.0, 1.0 + 1e-7, 1.0 + 1e-3, -5.0, 1e9, 1e9 + 1e-7]
    bad = []
    n = 0
    for a in vals:
        for b in vals:
            r = {k: I.call_fn(MU + k, [a, b]) for k in names}
            n += 1
            if any(not isinstance(v, bool) for v in r.values()):
                bad.append("(%r,%r) not evaluable: %s" % (a, b, r))
                continue
            tri = [r["float_lt"], r["float_eq"], r["float_gt"]].count(True) == 1
            le = r["float_le"] == (r["float_lt"] or r["float_eq"])
            ge = r["float_ge"] == (r["float_gt"] or r["float_eq"])
            ne = r["float_ne"] == (not r["float_eq"])
            sym = True
            if not (tri and le and ge and ne):
                bad.append("(%r,%r): %s" % (a, b, r))
    R.count("T-PRED.pairs", n)
    R.ob("T-PRED", "consistent-order", not bad, "packages/rooc/src/math/math_utils.rs", "on %d value pairs around the tolerance: exactly one of lt/eq/gt, le = lt|eq, ge = gt|eq, ne = !eq; failures: %s" % (n, bad[:4]))
    # antisymmetry lt(a,b) == gt(b,a)
    bad2 = []
    for a in vals:
        for b in vals:
            if I.call_fn(MU + "float_lt", [a, b]) != I.call_fn(MU + "float_gt", [b, a]):
                bad2.append((a, b))
    R.ob("T-PRED", "antisymmetry", not bad2, "packages/rooc/src/math/math_utils.rs", "float_lt(a,b) must equal float_gt(b,a): %s" % bad2[:4])


def state(F, R):
    f = F.fn(T + "::pivot")
    if f is None:
        S(R, "W-STATE", "pivot:anchor", False, "", "pivot not found")
        return
    R.fn(f["path"])
    body = strip(f["body"])
    stmts = body.get("stmts", [])
    text = [sexp(s) for s in stmts]
    # aliases: let a = &mut self.a ...
    alias = {}
    for s in stmts:
        if s.get("k") == "Let" and s.get("init") is not None and sexp(s["init"]).startswith("&self."):
            alias[sexp(s["pat"])] = sexp(s["init"])[len("&self."):]
    writes = []
    for i, s in enumerate(stmts):
        for x in walk(s):
            if x.get("k") in ("AssignOp", "Assign"):
                l = strip(x["lhs"])
                base = l
                while base.get("k") in ("Index", "Field", "Unary"):
                    base = strip(base.get("a"))
                nm = sexp(l)
                root = sexp(base)
                comp = alias.get(root, root.replace("self.", ""))
                if root == "self" and l.get("k") == "Field":
                    comp = l["name"]
                if root == "row":
                    comp = "c"
                writes.append((i, comp, x.get("op", "="), nm, sexp(x["rhs"])))
    comps = {w[1] for w in writes}
    R.table("pivot_writes", [list(w) for w in writes])
    S(R, "W-STATE", "pivot:write-set", {"a", "b", "c", "current_value", "in_basis"} <= comps, F.loc(f), "pivot must update the matrix, the right-hand side, the costs, the objective value and the basis; it writes %s" % sorted(comps))
    # formulas
    def find(comp, pred):
        return [w for w in writes if w[1] == comp and pred(w)]
    elim_a = find("a", lambda w: w[2] == "-=" and w[4] == "(factor * a[t][j])")
    elim_b = find("b", lambda w: w[2] == "-=" and w[4] == "(factor * b[t])")
    elim_c = find("c", lambda w: w[2] == "-=" and w[4] == "(factor * a[t][i])")
    val = find("current_value", lambda w: w[2] == "-=" and w[4] == "(factor * b[t])")
    norm_a = find("a", lambda w: w[2] == "/=" and w[4] == "pivot")
    norm_b = find("b", lambda w: w[2] == "/=" and w[4] == "pivot")
    basis = find("in_basis", lambda w: w[2] == "=" and w[3] == "in_basis[t]" and w[4] == "h")
    S(R, "W-STATE", "pivot:formulas", all([elim_a, elim_b, elim_c, val, norm_a, norm_b, basis]), F.loc(f), "row elimination, cost update, value update, pivot-row normalisation and basis update must all be present: %s" % [bool(x) for x in (elim_a, elim_b, elim_c, val, norm_a, norm_b, basis)])
    if all([elim_a, elim_b, elim_c, val, norm_a, norm_b]):
        order_ok = max(elim_a[0][0], elim_b[0][0], elim_c[0][0], val[0][0]) < min(norm_a[0][0], norm_b[0][0])
        S(R, "W-STATE", "pivot:order", order_ok, F.loc(f), "the pivot row must be normalised only after every other row, the costs and the value were updated with the un-normalised pivot row (the factors already divide by the pivot)")
    factors = [sexp(s["init"]) for s in walk(f["body"]) if s.get("k") == "Let" and sexp(s.get("pat", {})) == "factor"]
    S(R, "W-STATE", "pivot:factors", factors == ["(a[i][h] / pivot)", "(c[h] / pivot)"], F.loc(f), "elimination factors %s" % factors)
    skip = [sexp(i["cond"]) for i in walk(f["body"]) if i.get("k") == "If"]
    S(R, "W-STATE", "pivot:skip-pivot-row", "(i != t)" in skip, F.loc(f), "the elimination must skip the pivot row: conditions %s" % skip)
    # optimality / entering rule complementarity
    g, h = F.fn(T + "::is_optimal"), F.fn(T + "::find_h")
    if g is not None and h is not None:
        R.fn(g["path"])
        R.fn(h["path"])
        tg, th = sexp(g["body"]), sexp(h["body"])
        S(R, "W-STATE", "optimal-vs-entering", "all(|c| math_utils::float_ge(*c, 0.0))" in tg and "math_utils::float_lt(**c, 0.0)" in th, F.loc(h), "optimal iff no reduced cost is < 0 (float_ge all) and entering candidates are exactly the costs that are float_lt 0: %s / %s" % (tg[:80], th[:160]))
        S(R, "W-STATE", "entering:non-basic", "!self.in_basis.contains(i)" in th, F.loc(h), "only non-basic columns may enter")
        ifs = [i for i in walk(h["body"]) if i.get("k") == "If" and sexp(strip(i["cond"])) == "use_bland"]
        okb = bool(ifs) and sexp(strip(ifs[0]["then"])).endswith(".min()") and "map(|(i, _)| i)" in sexp(ifs[0]["then"]) and "min_by" in sexp(ifs[0]["else"])
        S(R, "W-STATE", "entering:bland-smallest-index", okb, F.loc(h), "under Bland's rule the smallest eligible index enters; otherwise the most negative cost")
    k = F.fn(T + "::find_t")
    if k is not None:
        R.fn(k["path"])
        t = sexp(k["body"])
        S(R, "W-STATE", "ratio-test:positive-entries", "filter(|(_, a)| math_utils::float_gt(a[h], 0.0))" in t and "(self.b[i] / a[h])" in t, F.loc(k), "the ratio test runs over rows with a positive entry in the entering column and uses b[i] / a[i][h]")
        S(R, "W-STATE", "ratio-test:tie-break", "float_eq(ratio, min.1)" in t and "(basis[i] < basis[min.0])" in t and "float_lt(ratio, min.1)" in t, F.loc(k), "ties are broken by the smallest basic variable index, strict improvements replace the minimum")
    s = F.fn(T + "::step_inner")
    if s is not None:
        R.fn(s["path"])
        t = sexp(s["body"])
        S(R, "W-STATE", "step:optimal-first", t.startswith("{if self.is_optimal() {return Result::Ok(simplex_enums::StepAction::Finished)}") or "if self.is_optimal()" in t.split("match")[0], F.loc(s), "a step first tests optimality")


def check(F, R):
    loops(F, R)
    predicates(F, R)
    state(F, R)
    canonical_start(F, R)


def canonical_start(F, R):
    """T-CANON: structure of the canonical start (direct basis and two-phase drive-out).
    - direct basis: each selected row is normalised (matrix row and right-hand side) BEFORE its
      right-hand side is used to build the objective constant and before the costs are reduced;
    - drive-out: an artificial that stays basic at level 0 is pivoted out on ANY structural column
      with a non-zero entry; its row may be dropped as redundant only when no such column exists
      (a sign test instead of a non-zero test drops genuine constraints);
    - phase-1 verdict: infeasible iff the phase-1 optimum differs from 0 (float_ne)."""
    index_spaces(F, R)
    SLM = "transformers::standard_linear_model::StandardLinearModel::"
    f = F.fn(SLM + "into_tableau")
    if f is None:
        S(R, "T-CANON", "into_tableau:anchor", False, "", "not found")
    else:
        R.fn(f["path"])
        loops = [l for l in walk(f["body"]) if l.get("k") == "For" and any(x.get("k") == "Call" and norm(x.get("callee") or "").endswith("divide_matrix_row_by") for x in walk(l["body"]))]
        ok = False
        detail = "normalisation loop not found"
        if len(loops) == 1:
            items = strip(loops[0]["body"]).get("stmts", [])
            pos = {}
            for i, s in enumerate(items):
                t = sexp(s)
                if "divide_matrix_row_by(" in t:
                    pos.setdefault("row", i)
                if re.search(r"b\[.*\] /= ", t):
                    pos.setdefault("rhs", i)
                if re.search(r"^value -= \(amount \* b\[", t) or re.search(r"value -= \(amount \* b\[", t):
                    pos.setdefault("value", i)
                if "c[index] -= (amount * *coefficient)" in t or re.search(r"c\[index\] -= \(amount \* \*?coefficient\)", t):
                    pos.setdefault("costs", i)
            ok = {"row", "rhs", "value", "costs"} <= set(pos) and pos["row"] < pos["costs"] and pos["rhs"] < pos["value"]
            detail = "statement order in the loop body: %s" % sorted(pos.items(), key=lambda kv: kv[1])
        S(R, "T-CANON", "direct-basis:normalise-before-use", ok, F.loc(f), "the basic row and its right-hand side must be divided by the basic coefficient before the costs are reduced with that row and before b[row] enters the objective constant: " + detail)
    g = F.fn(SLM + "into_tableau_two_phase")
    if g is None:
        S(R, "T-CANON", "two-phase:anchor", False, "", "not found")
        return
    R.fn(g["path"])
    # drive-out pivot search
    finds = [x for x in walk(g["body"]) if x.get("k") == "MCall" and x["name"] == "find" and x["args"] and strip(x["args"][0]).get("k") == "Closure"]
    ok = False
    detail = "pivot-column search not found"
    for x in finds:
        body = strip(strip(x["args"][0])["body"])
        t = sexp(body)
        if "a[row]" in t:
            nonzero = (body.get("k") == "Call" and norm(body.get("callee") or "").endswith("math_utils::float_ne") and sexp(strip(body["args"][1])) == "0.0") or (body.get("k") == "Binary" and body["op"] == "!=" and sexp(strip(body["b"])) == "0.0")
            rng = sexp(strip(x["recv"]))
            ok = nonzero and "number_of_variables" in rng and rng.startswith("std::ops::Range{start: 0") or (nonzero and "Range{start: 0, end: number_of_variables}" in rng)
            detail = "search `%s.find(|j| %s)`" % (rng, t)
    S(R, "T-CANON", "drive-out:non-zero-pivot", ok, F.loc(g), "an artificial basic at level 0 must be pivoted out on any structural column with a NON-ZERO entry (the right-hand side is 0, so the sign is irrelevant); only a row without structural support is redundant: " + detail)
    # the None arm is the only producer of rows_to_drop
    pushes = [x for x in walk(g["body"]) if x.get("k") == "MCall" and x["name"] == "push" and sexp(strip(x["recv"])) == "rows_to_drop"]
    in_none = False
    for m in walk(g["body"]):
        if m.get("k") == "Match" and sexp(strip(m["scrut"])) == "pivot_col":
            for arm in m["arms"]:
                if sexp(arm["pat"]).endswith("None") and len(pushes) == 1 and any(y is pushes[0] for y in walk(arm["body"])):
                    in_none = True
    S(R, "T-CANON", "drive-out:drop-only-unsupported-rows", in_none, F.loc(g), "rows are dropped only in the `None` arm of the pivot-column search (%d push site(s))" % len(pushes))
    # skip rows whose basic variable is structural
    conds = [sexp(strip(i["cond"])) for i in walk(g["body"]) if i.get("k") == "If"]
    S(R, "T-CANON", "drive-out:only-artificial-rows", "(basis[row] < number_of_variables)" in conds, F.loc(g), "the drive-out only touches rows whose basic variable is artificial: conditions %s" % conds[:4])
    # phase-1 verdict
    S(R, "T-CANON", "phase1:infeasible-iff-nonzero", any("float_ne(tableau.current_value(), 0.0)" in c for c in conds), F.loc(g), "phase 1 declares infeasibility iff its optimum differs from 0")
    # artificial columns: unit entry at i + number_of_variables, cost 1, basis entry, value -= b[i]
    t = sexp(g["body"])
    S(R, "T-CANON", "phase1:artificial-columns", "constraint[(i + number_of_variables)] = 1.0" in t and "c[(number_of_variables + i)] = 1.0" in t and "basis[i] = (number_of_variables + i)" in t and "value -= b[i]" in t and "c[j] -= *coefficient" in t.replace("c[j] -= coefficient", "c[j] -= *coefficient"), F.loc(g), "artificial i gets a unit entry in row i, cost 1 and is basic in row i; the phase-1 costs and value are reduced by every row")


def index_spaces(F, R):
    """T-CANON (index spaces): vectors that are filled together by sibling `push` calls of one loop body share one row
    numbering; a loop that enumerates one of them may only use its counter to index members of the same group, and a
    tableau is assembled from members of one group only.  (After redundant rows are dropped, `new_a/new_b/new_basis` are
    numbered differently from `a/b/basis`: pricing the costs with the old matrices reads the wrong rows.)"""
    SLM = "transformers::standard_linear_model::StandardLinearModel::"
    n = 0
    for f in F.fn_list:
        if "body" not in f or not f["path"].startswith(SLM):
            continue
        groups = []
        for blk in walk(f["body"]):
            if blk.get("k") != "Block":
                continue
            pushed = []
            for st in blk.get("stmts", []):
                e = strip(st.get("e") or {}) if st.get("k") in ("Semi", "Expr") else {}
                if e.get("k") == "MCall" and e.get("name") == "push" and strip(e["recv"]).get("k") == "Path":
                    pushed.append(strip(e["recv"])["name"])
            if len(pushed) >= 2:
                groups.append(set(pushed))
        if not groups:
            continue
        for lp in walk(f["body"]):
            if lp.get("k") != "For":
                continue
            it_ = sexp(lp["iter"])
            m = re.match(r"^&?([a-z_]+)\.iter\(\)\.enumerate\(\)$", it_)
            if not m:
                continue
            g = next((gr for gr in groups if m.group(1) in gr), None)
            if g is None:
                continue
            pats = [p_ for p_ in walk(lp["pat"]) if p_.get("k") == "PBind"]
            if not pats:
                continue
            counter = pats[0]["name"]
            n += 1
            wrong = []
            for ix in walk(lp["body"]):
                if ix.get("k") == "Index" and sexp(strip(ix["i"])) == counter:
                    base = strip(ix["a"])
                    while base.get("k") == "Index":
                        base = strip(base["a"])
                    if base.get("k") == "Path" and base.get("name") not in g:
                        wrong.append("%s[%s]" % (base.get("name"), counter))
            R.fn(f["path"])
            S(R, "T-CANON", "%s:index-space:%s" % (f["path"].rsplit("::", 1)[-1], m.group(1)), not wrong, F.loc(f, lp), "the counter of the loop over `%s` (rows numbered as in %s) indexes %s" % (m.group(1), sorted(g), wrong or "only vectors of that group"))
        # the tableau is assembled from one group
        for c in walk(f["body"]):
            if c.get("k") == "Call" and norm(c.get("callee") or "").endswith("Tableau::new") and len(c["args"]) >= 4:
                names = [strip(a).get("name") for a in c["args"][1:4] if strip(a).get("k") == "Path"]
                gs = [next((i for i, gr in enumerate(groups) if nm in gr), None) for nm in names]
                if any(x is not None for x in gs):
                    n += 1
                    S(R, "T-CANON", "%s:tableau-from-one-group" % f["path"].rsplit("::", 1)[-1], len(set(gs)) == 1 and None not in gs, F.loc(f, c), "Tableau::new takes the matrix, right-hand side and basis %s, which must come from one row numbering %s" % (names, [sorted(g) for g in groups]))
    S(R, "T-CANON", "index-space:sites", n >= 2, "", "expected at least 2 index-space obligations in the canonical start, found %d" % n)
