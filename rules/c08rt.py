"""WELL-FORMED-SRC (C08): source programs written to provoke ill-formed linear models, compiled by the emulated front
end and compile step (typed HIR); the result is inspected as a value.

  names     user-written row names that repeat, that equal a generated suffix form (`a__2`), that are mixed with unnamed
            rows: the compiled rows must carry distinct names, and the first row written with a name keeps it
  finite    infinite constants that cancel or multiply (`Infinity - Infinity`, `Infinity * y`, `x <= Infinity`): the model is
            either refused or contains finite numbers only
  missing   exact abs / min / max lowerings over a variable with an infinite end: compilation must fail with
            MissingFiniteBounds, and its `variables` must be exactly the variables of the expression without two finite
            ends (a variable bounded on one side only is one of them)
  contents  every variable of the source objective and rows is a variable of the linear model, the variable list is
            sorted and duplicate-free and equals the key set of the domain, every row has one coefficient per variable"""
import roundtrip
import c01rt
from interp import Var, ListV, Rope, is_unknown

TRANSFORM = "parser::model_transformer::model::transform_parsed_problem"
LINEARIZE = "transformers::linearizer::Linearizer::linearize"


def P(obj, cons, define, where=None):
    return obj + "\ns.t.\n" + "\n".join("    " + c for c in cons) + ("\nwhere\n" + "\n".join("    " + w for w in where) if where else "") + "\ndefine\n" + "\n".join("    " + d for d in define) + "\n"


def compile_value(RT, text):
    I = RT.I
    ast = RT.parse_text(text)
    if isinstance(ast, tuple):
        return ("noparse", ast[1][:200])
    r = I.call_fn(TRANSFORM, [ast, ListV([]), ListV([])])
    if is_unknown(r) or not isinstance(r, Var):
        return ("unknown", "transformer not evaluable: %r" % (r,))
    if not r.path.endswith("Result::Ok"):
        return ("transform-error", repr(r)[:200])
    r2 = I.call_fn(LINEARIZE, [r.args[0]])
    if is_unknown(r2) or not isinstance(r2, Var):
        return ("unknown", "compile step not evaluable: %r" % (r2,))
    if not r2.path.endswith("Result::Ok"):
        return ("refused", r2.args[0])
    return ("ok", r2.args[0])


def check(F, R, Gm, tier="quick"):
    RT = roundtrip.RoundTrip(F, Gm)
    RT.I.max_depth = 1500
    RT.I.concrete_floats = True
    where = "packages/rooc/src/transformers/linearizer.rs"
    n = 0
    # ---- names
    name_cases = [
        ("repeated name", ["a: x >= 1", "a: x + y >= 2", "a: y <= 9"]),
        ("repeat next to its generated form", ["a: x >= 1", "a: x + y >= 2", "a__2: y <= 9", "a: x <= 8"]),
        ("generated form first", ["a__2: y <= 9", "a: x >= 1", "a: x + y >= 2", "a: x - y <= 8"]),
        ("unnamed rows between", ["x >= 1", "a: x + y >= 2", "y <= 9", "a: x <= 8", "x - y <= 3"]),
        ("two families", ["a: x >= 1", "b: y >= 1", "a: x + y >= 3", "b: x - y <= 4", "a__2: x <= 7", "b__2: y <= 7", "b: x + 2 * y <= 20"]),
        ("quantified name repeats", ["c_i: x >= i for i in 0..2", "c_0: y >= 1", "c_1: y <= 9"]),
    ]
    for label, cons in name_cases:
        n += 1
        key = "names:" + label.replace(" ", "-")
        st, v = compile_value(RT, P("min x + y", cons, ["x, y as Real(-50, 50)"]))
        if st == "unknown":
            R.undecided("WELL-FORMED-SRC", key, where, v)
            continue
        if st != "ok":
            R.ob("WELL-FORMED-SRC", key, False, where, "rows %s: the program is not compiled (%s: %r)" % (cons, st, v))
            continue
        L = c01rt.Lin(v)
        names = [nm for nm, _, _, _ in L.rows if nm]
        wf = L.well_formed()
        written = [c.split(":")[0].strip() if ":" in c.split(" ")[0] else "" for c in cons]
        # the first row written with a name keeps it (rows implied by the ranges may be dropped, so look names up)
        firsts = []
        for w in written:
            if w and "_i" not in w and w not in firsts:
                firsts.append(w)
        R.ob("WELL-FORMED-SRC", key, len(set(names)) == len(names) and wf is None, where, "rows %s compile to row names %s%s" % (cons, names, ("; " + wf) if wf else ""))
    # ---- finite
    fin_cases = [
        ("cancelling infinities in the objective", P("min x + Infinity - Infinity", ["x >= 1"], ["x as Real(0, 9)"])),
        ("infinite right-hand side", P("min x", ["x <= Infinity", "x >= 1"], ["x as Real(0, 9)"])),
        ("infinite coefficient", P("min x + y", ["Infinity * y <= 3", "x >= 1"], ["x, y as Real(0, 9)"])),
        ("zero times infinity", P("min x", ["x + 0 * Infinity >= 1"], ["x as Real(0, 9)"])),
        ("infinite constant on both sides", P("min x", ["x + Infinity >= Infinity"], ["x as Real(0, 9)"])),
        ("minus infinity bound in a row", P("max x", ["x >= MinusInfinity", "x <= 4"], ["x as Real(0, 9)"])),
        ("huge product", P("min x", ["100000000000000000000 * 100000000000000000000 * x <= 1e300 * 1e300"], ["x as Real(0, 9)"])),
    ]
    for label, text in fin_cases:
        n += 1
        key = "finite:" + label.replace(" ", "-")
        st, v = compile_value(RT, text)
        if st == "unknown":
            R.undecided("WELL-FORMED-SRC", key, where, v)
            continue
        if st != "ok":
            R.ob("WELL-FORMED-SRC", key, True, where, "not compiled (%s)" % st)
            continue
        wf = c01rt.Lin(v).well_formed()
        R.ob("WELL-FORMED-SRC", key, wf is None, where, "`%s` compiles to a linear model with %s" % (text.replace("\n", " / ")[:160], wf))
    # ---- missing bounds name the unbounded variables
    miss_cases = [
        ("abs over a one-sided variable", P("max abs { x - 3 }", ["x >= 1"], ["x as NonNegativeReal"]), ["x"]),
        ("abs over a free variable", P("max abs { x }", ["x + 0 >= x"], ["x as Real"]), ["x"]),
        ("abs over a bounded and a one-sided variable", P("max abs { x - y }", ["x <= 3"], ["x as Real(-5, 5)", "y as NonNegativeReal"]), ["y"]),
        ("abs over two unbounded variables", P("max abs { x + y }", ["x - y <= 3"], ["x as Real", "y as NonNegativeReal"]), ["x", "y"]),
        ("max under min over a one-sided variable", P("min max { x, 2 }", ["x <= 7"], ["x as Real(MinusInfinity, 9)"]), None),
        ("min in an exact position", P("max y", ["y = min { x, 4 }"], ["x as Real(MinusInfinity, 9)", "y as Real(-100, 100)"]), ["x"]),
        ("max in an exact position", P("min y", ["y = max { x, 4 }"], ["x as NonNegativeReal", "y as Real(-100, 100)"]), ["x"]),
    ]
    for label, text, want in miss_cases:
        n += 1
        key = "missing:" + label.replace(" ", "-")
        st, v = compile_value(RT, text)
        if st == "unknown":
            R.undecided("WELL-FORMED-SRC", key, where, v)
            continue
        if want is None:
            # a relaxable position: compiling or refusing are both fine, an infinite constant is not
            if st == "ok":
                wf = c01rt.Lin(v).well_formed()
                R.ob("WELL-FORMED-SRC", key, wf is None, where, "compiles to a linear model with %s" % wf)
            continue
        if st == "ok":
            wf = c01rt.Lin(v).well_formed()
            R.ob("WELL-FORMED-SRC", key, wf is None, where, "`%s` needs a bound of %s that cannot be derived; it compiles to a linear model with %s" % (text.replace("\n", " / ")[:140], want, wf or "finite numbers (a constant was invented?)"), undecided=(wf is None))
            continue
        if st != "refused" or not (isinstance(v, Var) and v.path.endswith("MissingFiniteBounds")):
            R.ob("WELL-FORMED-SRC", key, False, where, "`%s` must be refused with the missing-bounds error, got %s %r" % (text.replace("\n", " / ")[:140], st, v), undecided=(st != "refused"))
            continue
        got = v.fields.get("variables")
        got = sorted(x.text() if isinstance(x, Rope) else str(x) for x in got.items) if isinstance(got, ListV) else None
        R.ob("WELL-FORMED-SRC", key, got == sorted(want), where, "`%s`: the missing-bounds error names %s, the variables without two finite ends are %s" % (text.replace("\n", " / ")[:140], got, sorted(want)))
    # ---- contents
    cont_cases = [
        ("every used variable present", P("min b + 0 * a", ["c - c + d >= 1", "e <= 3"], ["a, b, c, d, e, unused as Real(0, 9)"]), ["a", "b", "c", "d", "e"]),
        ("variable only under a zero factor", P("min x + 0 * y", ["x >= 1", "0 * (z + 1) + x <= 8"], ["x, y, z as Real(0, 9)"]), ["x", "y", "z"]),
        ("variable only under an implicit zero factor", P("min x + 0y", ["x >= 1"], ["x, y as Real(0, 9)"]), ["x", "y"]),
        ("variable under a zero entry of a cost table", P("min sum(i in 0..len(c)) { c[i] * x_i }", ["x_0 + x_2 >= 1"], ["x_i as Real(0, 9) for i in 0..3"], where=["let c = [3, 0, 2]"]), ["x_0", "x_1", "x_2"]),
        ("variable times zero on the right", P("min x + y * 0", ["x >= 1", "x - z * 0 <= 8"], ["x, y, z as Real(0, 9)"]), ["x", "y", "z"]),
        ("variable that cancels", P("min x", ["x + y - y >= 1", "z / 2 - 0.5 * z + x <= 8"], ["x, y, z as Real(0, 9)"]), ["x", "y", "z"]),
        ("names sort bytewise", P("min B + a + Z_1 + z", ["B + a + Z_1 + z >= 1", "x_10 + x_2 + x_1 >= 1"], ["B, a, Z_1, z, x_10, x_2, x_1 as Real(0, 9)"]), ["B", "Z_1", "a", "x_1", "x_10", "x_2", "z"]),
    ]
    for label, text, must in cont_cases:
        n += 1
        key = "contents:" + label.replace(" ", "-")
        st, v = compile_value(RT, text)
        if st == "unknown":
            R.undecided("WELL-FORMED-SRC", key, where, v)
            continue
        if st != "ok":
            R.ob("WELL-FORMED-SRC", key, False, where, "not compiled (%s: %r)" % (st, v))
            continue
        L = c01rt.Lin(v)
        wf = L.well_formed()
        missing = [m for m in must if m not in L.vars]
        R.ob("WELL-FORMED-SRC", key, wf is None and not missing, where, "variables %s%s%s" % (L.vars, ("; missing %s" % missing) if missing else "", ("; " + wf) if wf else ""))
    # ---- collisions: a user declaration spelled like a generated auxiliary (used in a row, or never used)
    bases = [
        ("exact abs", "max abs { x - 3 } + y", ["x + y <= 6"], ["x as Real(-5, 5)", "y as Real(0, 9)"]),
        ("exact max", "min x + y", ["max { x, y } = 4"], ["x, y as Real(0, 9)"]),
        ("exact min", "max x + y", ["min { x, 2 * y } = 1"], ["x, y as Real(0, 9)"]),
        ("logic value", "min p + q + y", ["y >= (p or q)", "p + q >= 1"], ["p, q as Boolean", "y as NonNegativeReal(0, 3)"]),
        ("logic assertion", "min p + q + r", ["(p and q) or r"], ["p, q, r as Boolean"]),
    ]
    n_aux = 0
    for label, obj, cons, define in bases:
        key0 = "collision:" + label.replace(" ", "-")
        st, v = compile_value(RT, P(obj, cons, define))
        n += 1
        if st != "ok":
            R.undecided("WELL-FORMED-SRC", key0, where, "base program not compiled (%s: %r)" % (st, v))
            continue
        declared = set()
        for d in define:
            declared |= {t.strip() for t in d.split(" as ")[0].split(",")}
        aux = [a for a in c01rt.Lin(v).vars if a not in declared]
        if not aux:
            R.undecided("WELL-FORMED-SRC", key0, where, "the base program compiles without auxiliaries: nothing to collide with")
            continue
        for a in aux[:3]:
            n_aux += 1
            for used in (False, True):
                n += 1
                key = "%s:%s:%s" % (key0, a, "used" if used else "unused")
                st2, v2 = compile_value(RT, P(obj, cons + (["%s >= 3" % a] if used else []), define + ["%s as IntegerRange(3, 7)" % a]))
                if st2 == "unknown":
                    R.undecided("WELL-FORMED-SRC", key, where, v2)
                    continue
                if st2 == "noparse":
                    R.undecided("WELL-FORMED-SRC", key, where, "the grammar does not accept the name %s in a declaration: %s" % (a, v2))
                    continue
                if st2 != "ok":
                    R.ob("WELL-FORMED-SRC", key, True, where, "a declaration named %s is refused (%s)" % (a, st2))
                    continue
                L2 = c01rt.Lin(v2)
                dk = L2.dom.get(a)
                ok = dk is None or (dk[0] == "IntegerRange" and len(dk[1]) == 2 and dk[1][0] >= 3 and dk[1][1] <= 7)
                wf = L2.well_formed()
                R.ob("WELL-FORMED-SRC", key, ok and wf is None, where, "the user declares %s as IntegerRange(3, 7) (%s); the compiled model has %s as %s%s: the name belongs to an auxiliary of the lowering" % (a, "used in a row" if used else "never used", a, dk, ("; " + wf) if wf else ""))
    R.count("WELL-FORMED-SRC.auxiliary-names", n_aux)
    R.count("WELL-FORMED-SRC.programs", n)
