"""TYPE-SOUND (C19): accepted by the type checker => the transformer raises no type-class error.

A family of programs with deliberately perturbed types is generated: a value of every kind (integer, float, string,
boolean, array, nested array, string array, graph, node, edge, tuple, range) is put in every operand, index, bound,
argument, iteration-set and destructuring position of the language (arithmetic and logic operators in constants and in
constraints, compound-variable indexes, range ends, array access target and index, every builtin function and argument
position incl. wrong argument counts, domain bounds, block and scoped block functions, nested scopes).  For each
program the type checker (PreModel::create_type_checker and everything it calls) and the transformer
(transform_parsed_problem) are both evaluated from their typed HIR.  If the checker accepts the program and the
transformer fails with a type-class error -- WrongArgument, WrongExpectedArgument, WrongFunctionSignature,
WrongNumberOfArguments, BinOpError, UnOpError, Unspreadable, SpreadError, NonExistentFunction, UndeclaredVariable --
the program is a counterexample to the property.  Data-dependent failures (OutOfBounds, TooLarge, AlreadyDeclared*,
Other) are allowed."""
import roundtrip
from interp import Var, ListV, is_unknown

TC = "parser::pre_model::PreModel::create_type_checker"
TRANSFORM = "parser::model_transformer::model::transform_parsed_problem"
TYPE_CLASS = {"WrongArgument", "WrongExpectedArgument", "WrongFunctionSignature", "WrongNumberOfArguments", "BinOpError", "UnOpError", "Unspreadable", "SpreadError", "NonExistentFunction", "UndeclaredVariable"}

# value kinds: (label, expression text, setup lines for `where`, iteration wrapper or None)
# a kind that only exists inside an iteration (node, edge, tuple) is reached through `for <pat> in <set>`
PRELUDE = ['let A = [1, 2, 3]', 'let M = [[1, 2], [3, 4]]', 'let S = ["a", "b"]', 'let G = Graph { A -> [ B: 2, C ], B -> [ C ], C }', 'let n = 2', 'let f = 2.5', 'let s = "str"', 'let t = true']
KINDS = [
    ("integer", "n", None), ("float", "f", None), ("string", "s", None), ("boolean", "t", None), ("array", "A", None), ("matrix", "M", None), ("strings", "S", None),
    ("graph", "G", None), ("range", "range(0, 3, false)", None), ("int-literal", "4", None), ("string-literal", '"lit"', None), ("bool-literal", "false", None),
    ("node", "v", "v in nodes(G)"), ("edge", "e", "e in edges(G)"), ("row", "row", "row in M"), ("element", "a", "a in A"), ("tuple-part", "p", "(p, q) in M"), ("str-element", "c", "c in S"),
    ("array-element", "A[0]", None), ("matrix-row", "M[1]", None), ("len", "len(A)", None),
]


def positions():
    """(label, constraint template with {v}, extra where lines using {v}, extra define lines)  -- {v} is the perturbed value"""
    P = []

    def add(label, cons, where=(), define=()):
        P.append((label, cons, list(where), list(define)))
    for op in ("+", "-", "*", "/"):
        add("constraint %s left" % op, "x >= {v} %s 2" % op)
        add("constraint %s right" % op, "x >= 2 %s {v}" % op)
        add("constant %s left" % op, "x >= 1", where=["let k = {v} %s 2" % op])
        add("constant %s right" % op, "x >= 1", where=["let k = 2 %s {v}" % op])
        add("variable %s" % op, "x %s {v} <= 4" % op)
    add("negation", "x >= -{v}")
    add("constant negation", "x >= 1", where=["let k = -{v}"])
    add("comparison side", "{v} <= x")
    add("both sides", "{v} >= {v}")
    for op in ("and", "or", "xor", "->", "<->"):
        add("logic %s left" % op, "{v} %s b" % op)
        add("logic %s right" % op, "b %s {v}" % op)
    add("not", "not {v}")
    add("bare assertion", "{v}")
    add("compound index", "y_{{{v}}} >= 1", define=["y_i as Real for i in 0..5"])
    add("second compound index", "w_{{n}}_{{{v}}} >= 1", define=["w_i_j as Real for i in 0..5, j in 0..5"])
    add("range start", "x >= sum(i in {v}..4) {{ i }}")
    add("range end", "x >= sum(i in 0..{v}) {{ i }}")
    add("inclusive range end", "x >= sum(i in 0..={v}) {{ i }}")
    add("iteration set", "x >= sum(i in {v}) {{ 1 }}")
    add("iteration set element use", "x >= sum(i in {v}) {{ i }}")
    add("quantifier set", "x >= 1 for i in {v}")
    add("quantifier element use", "x >= i for i in {v}")
    add("destructuring", "x >= 1 for (i, j) in {v}")
    add("destructuring element use", "x >= i + j for (i, j) in {v}")
    add("destructuring three", "x >= 1 for (i, j, k) in {v}")
    add("array index", "x >= A[{v}]")
    add("array second index", "x >= M[0][{v}]")
    add("array target", "x >= {v}[0]")
    add("array target twice", "x >= {v}[0][1]")
    add("block min", "x >= min {{ {v}, 1 }}")
    add("block max", "x >= max {{ {v}, 1 }}")
    add("block avg", "x >= avg {{ 1, {v} }}")
    add("block all", "all {{ b, {v} }}")
    add("abs block", "x >= abs {{ {v} }}")
    add("scoped body", "x >= sum(i in 0..2) {{ {v} }}")
    add("scoped max body", "x >= max(i in 0..2) {{ {v} + i }}")
    add("scoped any body", "any(i in 0..2) {{ {v} }}")
    add("domain lower bound", "x >= 1", define=["u as Real({v}, 9)"])
    add("domain upper bound", "x >= 1", define=["u as IntegerRange(0, {v})"])
    add("domain quantifier set", "x >= 1", define=["u_i as Boolean for i in {v}"])
    fns = {"len": 1, "enumerate": 1, "nodes": 1, "edges": 1, "neigh_edges": 1, "neigh_edges_of": 2, "range": 3, "zip": 2, "union": 2, "intersection": 2, "difference": 2}
    good = {"len": ["A"], "enumerate": ["A"], "nodes": ["G"], "edges": ["G"], "neigh_edges": ["v0"], "neigh_edges_of": ['"A"', "G"], "range": ["0", "3", "true"], "zip": ["A", "A"], "union": ["A", "A"], "intersection": ["A", "A"], "difference": ["A", "A"]}
    for fn, ar in fns.items():
        for k in range(ar):
            args = list(good[fn])
            args[k] = "{v}"
            call = "%s(%s)" % (fn, ", ".join(args))
            if "v0" in args:
                add("%s argument %d" % (fn, k + 1), "x >= sum(z in %s) {{ 1 }} for v0 in nodes(G)" % call)
            else:
                add("%s argument %d" % (fn, k + 1), "x >= sum(z in %s) {{ 1 }}" % call)
            add("%s argument %d in a constant" % (fn, k + 1), "x >= 1" if "v0" not in args else "x >= 1 for v0 in nodes(G)", where=["let k = %s" % call] if "v0" not in args else [])
        # wrong counts
        add("%s with an extra argument" % fn, "x >= sum(z in %s(%s)) {{ 1 }}%s" % (fn, ", ".join(good[fn] + ["{v}"]), " for v0 in nodes(G)" if "v0" in good[fn] else ""))
        if ar > 1:
            add("%s with a missing argument" % fn, "x >= sum(z in %s(%s)) {{ 1 }}" % (fn, ", ".join(good[fn][:-1]).replace(good[fn][0], "{v}", 1)))
    # the elements of a set function's result are used with the kind the checker gives them
    for fn in ("union", "intersection", "difference"):
        add("%s element as a number" % fn, "x >= sum(z in %s(A, {v})) {{ z }}" % fn)
        add("%s element as a number, first operand" % fn, "x >= sum(z in %s({v}, A)) {{ z }}" % fn)
        add("%s element as an index" % fn, "x >= A[z] for z in %s([0, 1], {v})" % fn)
        add("%s of rows, element indexed" % fn, "x >= sum(row in %s(M, {v})) {{ row[0] }}" % fn)
        add("%s of edges, destructured" % fn, "x >= sum((u1, u2, w) in %s(edges(G), {v})) {{ w }}" % fn)
    add("zip element as a number", "x >= sum((l, r) in zip(A, {v})) {{ l + r }}")
    add("enumerate element as a number", "x >= sum((el, ix) in enumerate({v})) {{ el }}")
    add("len as a number", "x >= len({v})")
    add("len of len", "x >= len(len({v}))")
    add("unknown function", "x >= nope({v})")
    add("enumerate destructuring use", "x >= el + ix for (el, ix) in enumerate({v})")
    add("zip destructuring use", "x >= l + r for (l, r) in zip({v}, A)")
    add("edges destructuring weight", "x >= w for (u1, u2, w) in edges({v})")
    add("edge endpoints as index", "y_u1 >= 1 for (u1, u2) in edges({v})", define=["y_i as Real for i in nodes(G)"])
    add("nested scope shadow", "x >= sum(i in 0..2) {{ sum(j in {v}) {{ i }} }}")
    add("outer variable in inner set", "x >= sum(i in A) {{ sum(j in 0..i) {{ {v} }} }}")
    add("undeclared name beside it", "x >= {v} + zz9")
    return P


def program(kind, pos):
    label, vtext, scope = kind
    plabel, cons, where, define = pos
    c = cons.format(v=vtext)
    if scope is not None:
        c = c + (", " + scope if " for " in c else " for " + scope)
    wh = PRELUDE + [w.format(v=vtext) for w in where]
    df = ["x as Real(0, 100)", "b as Boolean"] + [d.format(v=vtext) for d in define]
    if scope is not None and (any("{v}" in w for w in where) or any("{v}" in d for d in define)):
        return None      # a scoped value cannot appear in a constant or a domain
    return "min x\ns.t.\n    x <= 50\n    %s\nwhere\n%s\ndefine\n%s\n" % (c, "\n".join("    " + w for w in wh), "\n".join("    " + d for d in df))


def scoping_programs():
    """names used where they are not (yet) bound: the checker must see the scopes the transformer sees"""
    def prog(cons, where=(), define=()):
        return "min x\ns.t.\n    x <= 50\n%s\nwhere\n%s\ndefine\n%s\n" % ("\n".join("    " + c for c in cons), "\n".join("    " + w for w in PRELUDE + list(where)), "\n".join("    " + d for d in ["x as Real(0, 100)", "b as Boolean"] + list(define)))
    out = [
        ("iterator mentions its own name", prog(["x >= sum(i in 0..i) { i }"])),
        ("iterator mentions its own name, range start", prog(["x >= sum(i in i..3) { i }"])),
        ("second iterator mentions its own name", prog(["x >= sum(i in 0..3, j in i..j) { i + j }"])),
        ("iterator mentions a later name of the same block", prog(["x >= sum(i in 0..j, j in 0..2) { i }"])),
        ("destructured name in its own iterator", prog(["x >= sum((u1, u2) in neigh_edges_of(u1, G)) { 1 }"])),
        ("destructured name in its own enumerate", prog(["x >= sum((el, ix) in enumerate(el)) { 1 }"])),
        ("scoped max iterator mentions its own name", prog(["x >= max(i in 0..i) { i }"])),
        ("scoped any iterator mentions its own name", prog(["any(i in 0..i) { b }"])),
        ("quantifier mentions its own name", prog(["x >= i for i in 0..i"])),
        ("second quantifier mentions its own name", prog(["x >= i + j for i in 0..2, j in j..3"])),
        ("quantifier mentions a later quantifier", prog(["x >= i + j for i in 0..j, j in 0..2"])),
        ("domain quantifier mentions its own name", prog(["x >= 1"], define=["u_i as Boolean for i in 0..i"])),
        ("block name used after the block", prog(["x >= sum(i in 0..2) { i } + i"])),
        ("block name used in a sibling block", prog(["x >= sum(i in 0..2) { i } + sum(j in 0..i) { j }"])),
        ("quantifier name used in the next constraint", prog(["x >= i for i in 0..2", "x >= i + 1"])),
        ("block name used in the next constraint", prog(["x >= sum(i in 0..2) { i }", "x >= sum(j in 0..i) { j }"])),
        ("inner name used in the outer iterator", prog(["x >= sum(i in 0..j) { sum(j in 0..2) { i + j } }"])),
        ("constant defined from a later constant", prog(["x >= k1"], where=["let k1 = k2 + 1", "let k2 = 1"])),
        ("constant defined from itself", prog(["x >= k1"], where=["let k1 = k1 + 1"])),
        ("constant defined from an iteration name", prog(["x >= k1 for i in 0..2"], where=["let k1 = i + 1"])),
        ("domain bound from a quantifier of another declaration", prog(["x >= 1"], define=["u_i as Boolean for i in 0..2", "w as Real(0, i)"])),
        ("outer names feed the inner block", prog(["x >= sum(i in 0..3, j in 0..i) { i + j } for k in 0..2"])),
        ("outer quantifier feeds the block iterator", prog(["x >= sum(i in 0..k) { i } for k in 1..3"])),
    ]
    return [("scope: " + l, t) for l, t in out]


def error_kind(r):
    """innermost TransformError variant name of an Err(..) value"""
    v = r.args[0] if r.args else None
    seen = 0
    while isinstance(v, Var) and seen < 50:
        seen += 1
        name = v.path.rsplit("::", 1)[-1]
        if name == "SpannedError":
            sp = v.fields.get("spanned_error")
            inner = sp.fields.get("value") if isinstance(sp, Var) else None
            v = inner
            continue
        return name
    return None


def family(tier):
    ks, ps = KINDS, positions()
    out = []
    for ki, k in enumerate(ks):
        for pi, p in enumerate(ps):
            if tier != "thorough" and (ki * 7 + pi) % 3 != 0:
                continue
            t = program(k, p)
            if t is not None:
                out.append(("%s @ %s" % (k[0], p[0]), t))
    return out + scoping_programs()


def verdicts(RT, text):
    """('noparse'|'unknown'|'rejected'|'ok'|'error', detail)"""
    I = RT.I
    ast = RT.parse_text(text)
    if isinstance(ast, tuple):
        return ("noparse", ast[1][:120])
    r = I.call_fn(TC, [ast, ListV([]), ListV([])])
    if is_unknown(r) or not isinstance(r, Var):
        return ("unknown", "type checker not evaluable: %r" % (r,))
    if not r.path.endswith("Result::Ok"):
        return ("rejected", error_kind(r) or "?")
    ast2 = RT.parse_text(text)     # the transformer consumes its own copy
    r2 = I.call_fn(TRANSFORM, [ast2, ListV([]), ListV([])])
    if is_unknown(r2) or not isinstance(r2, Var):
        return ("unknown", "transformer not evaluable: %r" % (r2,))
    if r2.path.endswith("Result::Ok"):
        return ("ok", "")
    k = error_kind(r2)
    if k is None:
        return ("unknown", "error value not readable: %r" % (r2,))
    return ("error", k)


def check(F, R, Gm, tier="quick"):
    RT = roundtrip.RoundTrip(F, Gm)
    RT.I.max_depth = 1500
    R.fn(TC)
    R.fn(TRANSFORM)
    fam = family(tier)
    R.count("TYPE-SOUND.programs", len(fam))
    n = {"noparse": 0, "unknown": 0, "rejected": 0, "ok": 0, "error": 0}
    where = "packages/rooc/src/type_checker"
    bad_unknown = []
    for label, text in fam:
        v, d = verdicts(RT, text)
        n[v] += 1
        if v == "unknown":
            bad_unknown.append("%s: %s" % (label, d[-200:]))
        if v == "error" and d in TYPE_CLASS:
            body = " / ".join(l_.strip() for l_ in text.split("where")[0].split("\n")[3:] if l_.strip()) if label.startswith("scope: ") and "for i in 0..i" not in text.split("define")[-1] else text.split("\n")[3].strip()
            R.ob("TYPE-SOUND", label.replace(" ", "-"), False, where, "the type checker accepts `%s` and the transformer fails with the type-class error %s" % (body, d))
    for k, c in n.items():
        R.count("TYPE-SOUND." + k, c)
    R.ob("TYPE-SOUND", "evaluable", not bad_unknown, where, "%d programs of the family could not be evaluated: %s" % (len(bad_unknown), "; ".join(bad_unknown[:3])))
    R.ob("TYPE-SOUND", "family-reaches-both-verdicts", n["rejected"] >= len(fam) // 5 and n["ok"] >= len(fam) // 20, where, undecided=n["unknown"] > len(fam) // 4, detail= "rejected %d, accepted and transformed %d of %d: the family must exercise both the rejecting and the accepting side" % (n["rejected"], n["ok"], len(fam)))
    R.ob("TYPE-SOUND", "family-parses", n["noparse"] <= len(fam) // 4, where, "%d of %d programs are not in the grammar" % (n["noparse"], len(fam)))
