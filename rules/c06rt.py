"""EXPAND-EQUIV (C06): data-driven constructs against their hand-unrolled text.

A family of programs written with iteration and aggregation constructs is paired, construct by construct, with the text
obtained by unrolling them by hand in iteration order (the pairs are written out below: the unrolled side is produced by
a few lines of Python per template, from the same data).  Both texts go through the emulated front end -- the model of
pest's matcher, the crate's converters, `transform_parsed_problem` (scopes, frames, builtin functions, block folding,
name flattening, declaration expansion) and `Linearizer::linearize`, all evaluated from their typed HIR -- and the two
linear models must be identical: same rows in the same order with the same names, coefficients and right-hand sides,
same objective, same variables and domains.  During development the emulated front end was compared with the real
compiler on the 202 program texts of the repository: identical models and linear models.

Families: exclusive / inclusive / empty / single-element ranges; arrays and nested arrays with indexes; tuple
destructuring with enumerate and zip; len; union / intersection / difference; graph node and edge sets with and without
weights; nested iterations; multi-index names; sum / prod / avg / min / max / all / any / xor blocks and their scoped
forms; for-quantified constraints (named and unnamed) and declarations."""
import roundtrip
from interp import ListV, Var, is_unknown

TRANSFORM = "parser::model_transformer::model::transform_parsed_problem"
LINEARIZE = "transformers::linearizer::Linearizer::linearize"


def prog(objective, constraints, where=None, define=None):
    t = objective + "\ns.t.\n" + "\n".join("    " + c for c in constraints)
    if where:
        t += "\nwhere\n" + "\n".join("    " + w for w in where)
    if define:
        t += "\ndefine\n" + "\n".join("    " + d for d in define)
    return t + "\n"


def pairs():
    out = []
    A = [3, 1, 4]
    W = [2.5, 1, 0.5]
    M = [[1, 2], [3, 4]]

    def add(label, rolled, unrolled):
        out.append((label, rolled, unrolled))
    xs = lambda idx, dom="NonNegativeReal": ["%s as %s" % (", ".join("x_%s" % i for i in idx), dom)]
    # ranges
    add("sum over exclusive range", prog("min sum(i in 0..3) { x_i }", ["x_0 >= 1"], define=["x_i as NonNegativeReal for i in 0..3"]),
        prog("min x_0 + x_1 + x_2", ["x_0 >= 1"], define=xs(range(3))))
    add("sum over inclusive range", prog("min sum(i in 1..=3) { i * x_i }", ["x_1 >= 1"], define=["x_i as NonNegativeReal for i in 1..=3"]),
        prog("min 1 * x_1 + 2 * x_2 + 3 * x_3", ["x_1 >= 1"], define=xs([1, 2, 3])))
    add("single-element inclusive range", prog("min x_2", ["x_i >= i for i in 2..=2"], define=["x_2 as NonNegativeReal"]),
        prog("min x_2", ["x_2 >= 2"], define=["x_2 as NonNegativeReal"]))
    add("empty range quantifier", prog("min x", ["x >= 1", "x >= i for i in 3..3"], define=["x as NonNegativeReal"]),
        prog("min x", ["x >= 1"], define=["x as NonNegativeReal"]))
    add("range with computed ends", prog("min sum(i in n - 2..n + 1) { x_i }", ["x_1 >= 1"], where=["let n = 3"], define=["x_i as NonNegativeReal for i in 1..4"]),
        prog("min x_1 + x_2 + x_3", ["x_1 >= 1"], define=xs([1, 2, 3])))
    # quantified constraints, names
    add("for-quantified named constraint", prog("min x_0 + x_1 + x_2", ["cap_i: x_i <= i + 1 for i in 0..3"], define=["x_i as NonNegativeReal for i in 0..3"]),
        prog("min x_0 + x_1 + x_2", ["cap_0: x_0 <= 0 + 1", "cap_1: x_1 <= 1 + 1", "cap_2: x_2 <= 2 + 1"], define=xs(range(3))))
    add("two nested iterations", prog("min sum(i in 0..2, j in 0..2) { x_i_j }", ["x_i_j >= i + j for i in 0..2, j in 0..2"], define=["x_i_j as NonNegativeReal for i in 0..2, j in 0..2"]),
        prog("min x_0_0 + x_0_1 + x_1_0 + x_1_1", ["x_0_0 >= 0 + 0", "x_0_1 >= 0 + 1", "x_1_0 >= 1 + 0", "x_1_1 >= 1 + 1"], define=["x_0_0, x_0_1, x_1_0, x_1_1 as NonNegativeReal"]))
    add("dependent inner range", prog("min x_0_0", ["x_i_j >= 1 for i in 0..3, j in 0..i"], define=["x_i_j as NonNegativeReal for i in 0..3, j in 0..3"]),
        prog("min x_0_0", ["x_1_0 >= 1", "x_2_0 >= 1", "x_2_1 >= 1"], define=["x_0_0, x_0_1, x_0_2, x_1_0, x_1_1, x_1_2, x_2_0, x_2_1, x_2_2 as NonNegativeReal"]))
    # arrays
    add("array elements as coefficients", prog("min sum(i in 0..len(A)) { A[i] * x_i }", ["x_0 >= 1"], where=["let A = [3, 1, 4]"], define=["x_i as NonNegativeReal for i in 0..len(A)"]),
        prog("min 3 * x_0 + 1 * x_1 + 4 * x_2", ["x_0 >= 1"], define=xs(range(3))))
    add("iteration over array values", prog("min sum(a in A) { x_a }", ["x_3 >= 1"], where=["let A = [3, 1, 4]"], define=["x_a as NonNegativeReal for a in A"]),
        prog("min x_3 + x_1 + x_4", ["x_3 >= 1"], define=xs(A)))
    add("enumerate destructuring", prog("min sum((w, i) in enumerate(W)) { w * x_i }", ["x_0 >= 1"], where=["let W = [2.5, 1, 0.5]"], define=["x_i as NonNegativeReal for i in 0..3"]),
        prog("min 2.5 * x_0 + 1 * x_1 + 0.5 * x_2", ["x_0 >= 1"], define=xs(range(3))))
    add("zip destructuring", prog("min x_3", ["x_a <= b for (a, b) in zip(A, W)"], where=["let A = [3, 1, 4]", "let W = [2.5, 1, 0.5]"], define=["x_a as NonNegativeReal for a in A"]),
        prog("min x_3", ["x_3 <= 2.5", "x_1 <= 1", "x_4 <= 0.5"], define=xs(A)))
    add("nested array access", prog("min sum(i in 0..2, j in 0..2) { M[i][j] * x_i_j }", ["x_0_0 >= 1"], where=["let M = [[1, 2], [3, 4]]"], define=["x_i_j as NonNegativeReal for i in 0..2, j in 0..2"]),
        prog("min 1 * x_0_0 + 2 * x_0_1 + 3 * x_1_0 + 4 * x_1_1", ["x_0_0 >= 1"], define=["x_0_0, x_0_1, x_1_0, x_1_1 as NonNegativeReal"]))
    add("rows of a nested array", prog("min x_0", ["sum((v, j) in enumerate(row)) { v * x_j } <= 10 for row in M"], where=["let M = [[1, 2], [3, 4]]"], define=["x_j as NonNegativeReal for j in 0..2"]),
        prog("min x_0", ["1 * x_0 + 2 * x_1 <= 10", "3 * x_0 + 4 * x_1 <= 10"], define=xs(range(2))))
    add("tuple destructuring of rows", prog("min x_1", ["x_a + x_b <= 1 for (a, b) in M"], where=["let M = [[1, 2], [3, 4]]"], define=["x_i as NonNegativeReal for i in 1..=4"]),
        prog("min x_1", ["x_1 + x_2 <= 1", "x_3 + x_4 <= 1"], define=xs([1, 2, 3, 4])))
    add("len in bounds and values", prog("min x", ["x >= len(A) + len(M)"], where=["let A = [3, 1, 4]", "let M = [[1, 2], [3, 4]]"], define=["x as NonNegativeReal"]),
        prog("min x", ["x >= 3 + 2"], define=["x as NonNegativeReal"]))
    # set functions
    add("union", prog("min sum(i in union(A, B)) { x_i }", ["x_1 >= 1"], where=["let A = [1, 2, 1, 3]", "let B = [3, 4]"], define=["x_i as NonNegativeReal for i in 1..=4"]),
        prog("min x_1 + x_2 + x_3 + x_4", ["x_1 >= 1"], define=xs([1, 2, 3, 4])))
    add("intersection and difference", prog("min sum(i in intersection(A, B)) { x_i } + sum(i in difference(A, B)) { 2 * x_i }", ["x_1 >= 1"], where=["let A = [1, 2, 3]", "let B = [3, 2, 5]"], define=["x_i as NonNegativeReal for i in 1..=3"]),
        prog("min x_2 + x_3 + 2 * x_1", ["x_1 >= 1"], define=xs([1, 2, 3])))
    # graphs
    G = "let G = Graph { A -> [ B: 2, C ], B -> [ C: 3 ], C }"
    add("graph nodes", prog("min sum(n in nodes(G)) { x_n }", ["x_A >= 1"], where=[G], define=["x_n as Boolean for n in nodes(G)"]),
        prog("min x_A + x_B + x_C", ["x_A >= 1"], define=["x_A, x_B, x_C as Boolean"]))
    add("graph edges with tuple destructuring", prog("min x_A", ["x_u + x_v <= 1 for (u, v) in edges(G)"], where=[G], define=["x_n as Boolean for n in nodes(G)"]),
        prog("min x_A", ["x_A + x_B <= 1", "x_A + x_C <= 1", "x_B + x_C <= 1"], define=["x_A, x_B, x_C as Boolean"]))
    add("edge weights", prog("min sum((u, v, w) in edges(G)) { w * y_u_v }", ["y_A_B >= 1"], where=[G], define=["y_u_v as NonNegativeReal for (u, v) in edges(G)"]),
        prog("min 2 * y_A_B + 1 * y_A_C + 3 * y_B_C", ["y_A_B >= 1"], define=["y_A_B, y_A_C, y_B_C as NonNegativeReal"]))
    add("neighbour edges of a node", prog("min x_A", ["x_v + sum((_, u) in neigh_edges(v)) { x_u } >= 1 for v in nodes(G)"], where=[G], define=["x_n as Boolean for n in nodes(G)"]),
        prog("min x_A", ["x_A + (x_B + x_C) >= 1", "x_B + x_C >= 1", "x_C + 0 >= 1"], define=["x_A, x_B, x_C as Boolean"]))
    # block functions
    add("block min / max", prog("min max { x_0, x_1, 2 } + min { x_0, 3 }", ["x_0 >= 1"], define=["x_0, x_1 as Real(0, 5)"]),
        prog("min max { x_0, x_1, 2 } + min { x_0, 3 }", ["x_0 >= 1"], define=["x_0, x_1 as Real(0, 5)"]))
    add("scoped max / min", prog("min max(i in 0..3) { x_i } - min(i in 0..3) { x_i }", ["x_0 >= 1"], define=["x_i as Real(0, 5) for i in 0..3"]),
        prog("min max { x_0, x_1, x_2 } - min { x_0, x_1, x_2 }", ["x_0 >= 1"], define=["x_0, x_1, x_2 as Real(0, 5)"]))
    add("avg block and scoped avg", prog("min avg { x_0, x_1 } + avg(i in 0..2) { 2 * x_i }", ["x_0 >= 1"], define=["x_0, x_1 as NonNegativeReal"]),
        prog("min (x_0 + x_1) / 2 + (2 * x_0 + 2 * x_1) / 2", ["x_0 >= 1"], define=["x_0, x_1 as NonNegativeReal"]))
    add("prod of constants", prog("min prod(i in 1..=3) { i } * x", ["x >= 1"], define=["x as NonNegativeReal"]),
        prog("min 1 * 2 * 3 * x", ["x >= 1"], define=["x as NonNegativeReal"]))
    add("scoped all / any / xor", prog("min x_0", ["all(i in 0..2) { x_i }", "any(i in 0..3) { x_i }", "xor(i in 1..3) { x_i }"], define=["x_i as Boolean for i in 0..3"]),
        prog("min x_0", ["x_0 and x_1", "x_0 or x_1 or x_2", "x_1 xor x_2"], define=["x_0, x_1, x_2 as Boolean"]))
    add("abs block", prog("min abs { x_0 - x_1 }", ["x_0 >= 1"], define=["x_0, x_1 as Real(-3, 3)"]),
        prog("min abs { x_0 - x_1 }", ["x_0 >= 1"], define=["x_0, x_1 as Real(-3, 3)"]))
    # names
    add("multi-index and computed index names", prog("min x_1_A_0 + x_2_A_2", ["x_{i + 1}_A_{2 * i} >= 1 for i in 0..2"], define=["x_{i + 1}_A_{2 * i} as NonNegativeReal for i in 0..2"]),
        prog("min x_1_A_0 + x_2_A_2", ["x_1_A_0 >= 1", "x_2_A_2 >= 1"], define=["x_1_A_0, x_2_A_2 as NonNegativeReal"]))
    add("string index", prog("min sum(s in S) { x_s }", ["x_a >= 1"], where=['let S = ["a", "b"]'], define=["x_s as NonNegativeReal for s in S"]),
        prog("min x_a + x_b", ["x_a >= 1"], define=["x_a, x_b as NonNegativeReal"]))
    # declarations
    add("quantified declaration with bounds from data", prog("min x_0", ["x_0 >= 1"], where=["let U = [4, 5]"], define=["x_i as Real(0, U[i]) for i in 0..2"]),
        prog("min x_0", ["x_0 >= 1"], define=["x_0 as Real(0, 4)", "x_1 as Real(0, 5)"]))
    # constant arithmetic: a constant defined by an expression is the number the expression has (real division, also of
    # two whole numbers), wherever it is evaluated: a `let`, a domain bound, an index, a range end
    X = ["x, y as NonNegativeReal(0, 10)"]
    add("constant: quotient of two whole numbers", prog("max x", ["x <= h"], where=["let h = 7 / 2"], define=X), prog("max x", ["x <= 3.5"], define=X))
    add("constant: quotient below one", prog("min 4 * x + 3 * y", ["x + y >= k", "x + y <= 2 * k"], where=["let k = 1 / 2"], define=X), prog("min 4 * x + 3 * y", ["x + y >= 0.5", "x + y <= 2 * 0.5"], define=X))
    add("constant: negative quotient", prog("max x", ["x - y <= q"], where=["let q = -7 / 2"], define=X), prog("max x", ["x - y <= -3.5"], define=X))
    add("constant: exact quotient", prog("max x", ["x <= d"], where=["let d = 6 / 3"], define=X), prog("max x", ["x <= 2"], define=X))
    add("constant: quotient in a domain bound", prog("max x", ["x + y <= 9"], define=["x as Real(0, 9 / 2)", "y as NonNegativeReal(1 / 4, 10 / 4)"]), prog("max x", ["x + y <= 9"], define=["x as Real(0, 4.5)", "y as NonNegativeReal(0.25, 2.5)"]))
    add("constant: mixed arithmetic", prog("max x", ["x <= e", "y >= m"], where=["let e = 2 * (3 + 4) / 4", "let m = 3 * 2.5 - 7"], define=X), prog("max x", ["x <= 3.5", "y >= 0.5"], define=X))
    add("constant: quotient of array elements and a length", prog("max x", ["x <= A[0] / 2", "y <= len(A) / 2"], where=["let A = [3, 1, 4]"], define=X), prog("max x", ["x <= 1.5", "y <= 1.5"], define=X))
    add("constant: quotient of iteration values", prog("min x", ["x >= i / 2 for i in 1..4"], define=X), prog("min x", ["x >= 0.5", "x >= 1", "x >= 1.5"], define=X))
    add("constant: constant from constants", prog("max x", ["x <= c"], where=["let a = 9", "let b = 2", "let c = a / b + b / a * 0"], define=X), prog("max x", ["x <= 4.5"], define=X))
    add("constant: difference and product of whole numbers", prog("max x", ["x <= p", "y >= s"], where=["let p = 3 * 4 - 5", "let s = 2 - 5 + 4"], define=X), prog("max x", ["x <= 7", "y >= 1"], define=X))
    # quantified declarations that produce the same name twice: like the hand-unrolled text, accepted when the domains agree,
    # rejected when they differ
    add("repeated declared name, same domain", prog("min x_1 + x_2", ["x_1 >= 1"], define=["x_i as IntegerRange(0, 5) for (i, c) in zip([1, 2, 1], [5, 6, 7])"]),
        prog("min x_1 + x_2", ["x_1 >= 1"], define=["x_1 as IntegerRange(0, 5)", "x_2 as IntegerRange(0, 5)", "x_1 as IntegerRange(0, 5)"]))
    add("both rejected: repeated declared name, domains differ", prog("min x_1 + x_2", ["x_1 >= 1"], define=["x_i as IntegerRange(0, c) for (i, c) in zip([1, 2, 1], [5, 6, 7])"]),
        prog("min x_1 + x_2", ["x_1 >= 1"], define=["x_1 as IntegerRange(0, 5)", "x_2 as IntegerRange(0, 6)", "x_1 as IntegerRange(0, 7)"]))
    add("both rejected: node entered by two edges of different weight", prog("min x_B + x_C", ["x_B >= 1"], where=["let H = Graph { A -> [ B: 2, C: 3 ], C -> [ B: 4 ], B }"], define=["x_v as IntegerRange(0, w) for (u, v, w) in edges(H)"]),
        prog("min x_B + x_C", ["x_B >= 1"], define=["x_B as IntegerRange(0, 2)", "x_C as IntegerRange(0, 3)", "x_B as IntegerRange(0, 4)"]))
    return out


def _arr(a):
    return "[" + ", ".join(_arr(x) if isinstance(x, list) else ('"%s"' % x if isinstance(x, str) else repr(x)) for x in a) + "]"


def _sum(terms, empty="0"):
    return " + ".join(terms) if terms else empty


def generated(tier):
    """template x data pairs; the unrolled side is written out by the few lines of Python next to each template"""
    out = []

    def add(label, rolled, unrolled):
        out.append((label, rolled, unrolled))
    decl = lambda names, dom="Real(-9, 9)": ["%s as %s" % (", ".join(names), dom)] if names else []
    ends = [(-1, 2), (0, 0), (0, 1), (0, 3), (2, 2), (2, 5), (3, 1)] if tier != "thorough" else [(a, b) for a in range(-2, 5) for b in range(-2, 6)]
    for lo, hi in ends:
        if lo < 0:
            continue   # a negative index is not a name
        for incl in (False, True):
            idx = list(range(lo, hi + 1 if incl else hi))
            rng = "%d..%s%d" % (lo, "=" if incl else "", hi)
            allx = ["x_%d" % i for i in range(0, 7)]
            d = decl(allx)
            add("sum over %s" % rng, prog("min y + sum(i in %s) { (i + 1) * x_i }" % rng, ["y >= 1"], define=d + ["y as NonNegativeReal"]),
                prog("min y + " + _sum(["(%d + 1) * x_%d" % (i, i) for i in idx]), ["y >= 1"], define=d + ["y as NonNegativeReal"]))
            add("constraints for %s" % rng, prog("min y", ["y >= 1", "c_i: x_i + y <= i for i in %s" % rng], define=d + ["y as NonNegativeReal"]),
                prog("min y", ["y >= 1"] + ["c_%d: x_%d + y <= %d" % (i, i, i) for i in idx], define=d + ["y as NonNegativeReal"]))
            add("declaration for %s" % rng, prog("min y", ["y >= 1"], define=["y as NonNegativeReal", "z_i as IntegerRange(0, i + 1) for i in %s" % rng]),
                prog("min y", ["y >= 1"], define=["y as NonNegativeReal"] + ["z_%d as IntegerRange(0, %d + 1)" % (i, i) for i in idx]))
            add("prod over %s" % rng, prog("min prod(i in %s) { i + 1 } * y" % rng, ["y >= 1"], define=["y as NonNegativeReal"]),
                prog("min %s * y" % (" * ".join("(%d + 1)" % i for i in idx) or "1"), ["y >= 1"], define=["y as NonNegativeReal"]))
            if idx:
                add("scoped min/max/avg over %s" % rng, prog("min y", ["y >= max(i in %s) { x_i + i } - min(i in %s) { x_i } + avg(i in %s) { x_i }" % (rng, rng, rng)], define=d + ["y as NonNegativeReal"]),
                    prog("min y", ["y >= max { %s } - min { %s } + (%s) / %d" % (", ".join("x_%d + %d" % (i, i) for i in idx), ", ".join("x_%d" % i for i in idx), _sum(["x_%d" % i for i in idx]), len(idx))], define=d + ["y as NonNegativeReal"]))
            bl = ["b_%d" % i for i in range(0, 7)]
            add("scoped all/any over %s" % rng, prog("min y", ["y >= 1", "any(i in %s) { b_i }" % rng, "all(i in %s) { not b_i }" % rng], define=decl(bl, "Boolean") + ["y as NonNegativeReal"]),
                prog("min y", ["y >= 1", " or ".join(bl[i] for i in idx) or "false", " and ".join("not " + bl[i] for i in idx) or "true"], define=decl(bl, "Boolean") + ["y as NonNegativeReal"]))
    # arrays of numbers
    arrays = [[5], [3, 1, 4], [2, 2], [0.5, 1.5, 2], [10, 0, 7, 1]] if tier != "thorough" else [[5], [3, 1, 4], [2, 2], [0.5, 1.5, 2], [10, 0, 7, 1], [1, 2, 3, 4, 5, 6], [0], [1.25, 1.25, 0]]
    for A in arrays:
        n = len(A)
        xs = ["x_%d" % i for i in range(n)]
        w = ["let A = " + _arr(A)]
        add("array access %s" % _arr(A), prog("min sum(i in 0..len(A)) { A[i] * x_i }", ["c_i: x_i >= A[i] - 1 for i in 0..len(A)"], where=w, define=["x_i as Real(-20, 20) for i in 0..len(A)"]),
            prog("min " + _sum(["%r * x_%d" % (A[i], i) for i in range(n)]), ["c_%d: x_%d >= %r - 1" % (i, i, A[i]) for i in range(n)], define=decl(xs, "Real(-20, 20)")))
        add("enumerate %s" % _arr(A), prog("min sum((a, i) in enumerate(A)) { a * x_i }", ["x_i <= a + i for (a, i) in enumerate(A)"], where=w, define=["x_i as Real(-20, 20) for i in 0..len(A)"]),
            prog("min " + _sum(["%r * x_%d" % (A[i], i) for i in range(n)]), ["x_%d <= %r + %d" % (i, A[i], i) for i in range(n)], define=decl(xs, "Real(-20, 20)")))
        add("values of %s as data" % _arr(A), prog("min y", ["y >= a for a in A", "y >= sum(a in A) { a } / len(A)"], where=w, define=["y as Real(-50, 50)"]),
            prog("min y", ["y >= %r" % a for a in A] + ["y >= (%s) / %d" % (_sum([repr(a) for a in A]), n)], define=["y as Real(-50, 50)"]))
        for B in ([7, 8], [1, 2, 3, 4, 5]):
            m = min(n, len(B))
            add("zip %s %s" % (_arr(A), _arr(B)), prog("min x_0", ["x_0 <= 9", "x_i * a <= b for (a, b, i) in zip(A, B, K)"], where=w + ["let B = " + _arr(B), "let K = [0, 1, 2, 3, 4, 5, 6, 7, 8]"], define=["x_i as Real(-20, 20) for i in 0..%d" % max(m, 1)]),
                prog("min x_0", ["x_0 <= 9"] + ["x_%d * %r <= %r" % (i, A[i], B[i]) for i in range(m)], define=decl(["x_%d" % i for i in range(max(m, 1))], "Real(-20, 20)")))
    # integer arrays as index sets, set functions
    isets = [([1, 2, 3], [3, 4]), ([4, 1], [1, 4]), ([2, 2, 5], [5, 2, 2]), ([1], [2])] if tier != "thorough" else [([1, 2, 3], [3, 4]), ([4, 1], [1, 4]), ([2, 2, 5], [5, 2, 2]), ([1], [2]), ([6, 5, 4, 3], [3, 5]), ([1, 1, 1], [1]), ([0, 9], [9, 0, 3])]
    for A, B in isets:
        w = ["let A = " + _arr(A), "let B = " + _arr(B)]
        d = decl(["x_%d" % i for i in range(10)])

        def uniq(xs):
            o = []
            for x in xs:
                if x not in o:
                    o.append(x)
            return o
        refs = {"union": uniq(A + B)}
        if len(uniq(A)) == len(A):
            # a first operand with repeated elements is left out: whether the repeats survive is not fixed by the text of the property
            refs.update({"intersection": [a for a in A if a in B], "difference": [a for a in A if a not in B]})
        for fn, ref in refs.items():
            add("%s %s %s" % (fn, _arr(A), _arr(B)), prog("min x_0 + sum(i in %s(A, B)) { x_i }" % fn, ["x_0 <= 8", "k_i: x_i >= i for i in %s(A, B)" % fn], where=w, define=d),
                prog("min x_0 + " + _sum(["x_%d" % i for i in ref]), ["x_0 <= 8"] + ["k_%d: x_%d >= %d" % (i, i, i) for i in ref], define=d))
    # operands of different numeric kinds: a range against an array literal, whole numbers against an array with a fractional entry;
    # set functions compare elements by value
    for Aexpr, A, B in (("range(0, 5, false)", [0, 1, 2, 3, 4], [2.5, 2, 3]), ("range(0, 5, false)", [0, 1, 2, 3, 4], [2, 3]), ("range(1, 4, true)", [1, 2, 3, 4], [4, 1, 9]), ("[1, 2, 3, 4]", [1, 2, 3, 4], [2.0, 3.5, 4])):
        w = ["let B = " + _arr(B)]
        d = decl(["x_%d" % i for i in range(10)])
        for fn, ref in (("intersection", [a for a in A if a in B]), ("difference", [a for a in A if a not in B])):
            add("%s %s %s" % (fn, Aexpr, _arr(B)), prog("min x_0 + sum(i in %s(%s, B)) { x_i }" % (fn, Aexpr), ["x_0 <= 8", "k_i: x_i >= i for i in %s(%s, B)" % (fn, Aexpr)], where=w, define=d),
                prog("min x_0 + " + _sum(["x_%d" % i for i in ref]), ["x_0 <= 8"] + ["k_%d: x_%d >= %d" % (i, i, i) for i in ref], define=d))
        Bi = [b for b in B if b == int(b)]
        if len(Bi) == len(B):
            ref = [b for b in B if b not in A]
            add("difference %s %s" % (_arr(B), Aexpr), prog("min x_0 + sum(i in difference(B, %s)) { x_i }" % Aexpr, ["x_0 <= 8", "k_i: x_i >= i for i in difference(B, %s)" % Aexpr], where=w, define=d),
                prog("min x_0 + " + _sum(["x_%d" % i for i in ref]), ["x_0 <= 8"] + ["k_%d: x_%d >= %d" % (i, i, i) for i in ref], define=d))
    # nested arrays, tuple destructuring
    mats = [[[1, 2], [3, 4]], [[1, 2, 3]], [[5], [6], [7]], [[1, 2], [3, 4], [5, 6]]]
    for M in mats:
        r, c = len(M), len(M[0])
        w = ["let M = " + _arr(M)]
        names = ["x_%d_%d" % (i, j) for i in range(r) for j in range(c)]
        add("matrix %s" % _arr(M), prog("min sum(i in 0..len(M), j in 0..len(M[i])) { M[i][j] * x_i_j }", ["r_i: sum(j in 0..len(M[i])) { x_i_j } <= i + 1 for i in 0..len(M)", "x_i_j >= 0 for i in 0..len(M), j in 0..len(M[0])"], where=w, define=["x_i_j as Real(-9, 9) for i in 0..len(M), j in 0..len(M[0])"]),
            prog("min " + _sum(["%d * x_%d_%d" % (M[i][j], i, j) for i in range(r) for j in range(c)]), ["r_%d: %s <= %d + 1" % (i, _sum(["x_%d_%d" % (i, j) for j in range(c)]), i) for i in range(r)] + ["%s >= 0" % nm for nm in names], define=decl(names)))
        add("rows of %s" % _arr(M), prog("min y", ["sum((v, j) in enumerate(row)) { v * x_i_j } <= y for (row, i) in enumerate(M)"], where=w, define=["x_i_j as Real(-9, 9) for i in 0..len(M), j in 0..len(M[0])", "y as Real"]),
            prog("min y", ["%s <= y" % _sum(["%d * x_%d_%d" % (M[i][j], i, j) for j in range(c)]) for i in range(r)], define=decl(names) + ["y as Real"]))
        if c >= 2:
            add("destructured rows of %s" % _arr(M), prog("min y", ["z_a_b + y >= a - b for (a, b) in M"], where=w, define=["z_a_b as Boolean for (a, b) in M", "y as Real"]),
                prog("min y", ["z_%d_%d + y >= %d - %d" % (row[0], row[1], row[0], row[1]) for row in M], define=["z_%d_%d as Boolean" % (row[0], row[1]) for row in M] + ["y as Real"]))
    # index flattening: (1, 23) against (12, 3), strings, computed indexes
    for P in ([[1, 23], [12, 3]], [[0, 0], [0, 1], [10, 1], [1, 10]]):
        w = ["let P = " + _arr(P)]
        add("flattening %s" % _arr(P), prog("min sum((a, b) in P) { (a + b) * x_a_b }", ["x_a_b >= a for (a, b) in P", "x_{a + 1}_{b} <= 100 for (a, b) in P"], where=w, define=["x_a_b as Real for (a, b) in P", "x_{a + 1}_b as Real for (a, b) in P"]),
            prog("min " + _sum(["(%d + %d) * x_%d_%d" % (a, b, a, b) for a, b in P]), ["x_%d_%d >= %d" % (a, b, a) for a, b in P] + ["x_%d_%d <= 100" % (a + 1, b) for a, b in P], define=["x_%d_%d as Real" % (a, b) for a, b in P] + ["x_%d_%d as Real" % (a + 1, b) for a, b in P]))
    for S in (["a", "b"], ["n1", "n2", "n3"]):
        add("string indexes %s" % _arr(S), prog("min sum(s in S) { x_s }", ["x_s + x_t <= 1 for s in S, t in S"], where=["let S = " + _arr(S)], define=["x_s as Boolean for s in S"]),
            prog("min " + _sum(["x_%s" % s for s in S]), ["x_%s + x_%s <= 1" % (s, t) for s in S for t in S], define=["x_%s as Boolean" % s for s in S]))
    # scopes: the same iteration name in sibling scopes, inner ranges depending on outer variables
    for n in (1, 2, 3, 4):
        xs = ["x_%d" % i for i in range(n + 2)]
        add("sibling and dependent scopes n=%d" % n, prog("min sum(i in 0..n) { x_i } + sum(i in n..n + 2) { 2 * x_i }", ["t_i: x_i + sum(j in 0..i) { x_j } <= sum(j in i..=n) { j } for i in 0..n"], where=["let n = %d" % n], define=["x_i as Real(-9, 9) for i in 0..n + 2"]),
            prog("min " + _sum(["x_%d" % i for i in range(n)]) + " + " + _sum(["2 * x_%d" % i for i in range(n, n + 2)]), ["t_%d: x_%d + %s <= %s" % (i, i, _sum(["x_%d" % j for j in range(i)]), _sum([str(j) for j in range(i, n + 1)])) for i in range(n)], define=decl(xs)))
    # graphs
    graphs = [
        ("A -> [ B: 2, C ], B -> [ C: 3 ], C", [("A", [("B", 2), ("C", 1)]), ("B", [("C", 3)]), ("C", [])]),
        ("A -> [ B ], B -> [ A ]", [("A", [("B", 1)]), ("B", [("A", 1)])]),
        ("S -> [ T: 5 ], T", [("S", [("T", 5)]), ("T", [])]),
        ("A -> [ B: 1.5, C: 2, D: 4 ], B -> [ D ], C -> [ D: 0.5, A: 7 ], D", [("A", [("B", 1.5), ("C", 2), ("D", 4)]), ("B", [("D", 1)]), ("C", [("D", 0.5), ("A", 7)]), ("D", [])]),
        ("A, B", [("A", []), ("B", [])]),
    ]
    for text, G in graphs:
        w = ["let G = Graph { %s }" % text]
        nodes = [v for v, _ in G]
        edges = [(u, v, c) for u, es in G for v, c in es]
        xn = decl(["x_%s" % v for v in nodes], "Boolean")
        add("nodes of {%s}" % text, prog("min sum(v in nodes(G)) { x_v }", ["n_v: x_v <= 1 for v in nodes(G)"], where=w, define=["x_v as Boolean for v in nodes(G)"]),
            prog("min " + _sum(["x_%s" % v for v in nodes]), ["n_%s: x_%s <= 1" % (v, v) for v in nodes], define=xn))
        if edges:
            add("edges of {%s}" % text, prog("min sum((u, v, c) in edges(G)) { c * y_u_v }", ["e_u_v: x_u + x_v >= y_u_v for (u, v) in edges(G)"], where=w, define=["x_v as Boolean for v in nodes(G)", "y_u_v as Boolean for (u, v) in edges(G)"]),
                prog("min " + _sum(["%r * y_%s_%s" % (c, u, v) for u, v, c in edges]), ["e_%s_%s: x_%s + x_%s >= y_%s_%s" % (u, v, u, v, u, v) for u, v, c in edges], define=xn + decl(["y_%s_%s" % (u, v) for u, v, c in edges], "Boolean")))
        add("neighbours in {%s}" % text, prog("min sum(v in nodes(G)) { x_v }", ["x_v + sum((_, u) in neigh_edges(v)) { x_u } >= 1 for v in nodes(G)", "sum((_, u, c) in neigh_edges_of(\"%s\", G)) { c * x_u } <= 10" % nodes[0]], where=w, define=["x_v as Boolean for v in nodes(G)"]),
            prog("min " + _sum(["x_%s" % v for v in nodes]), ["x_%s + %s >= 1" % (v, _sum(["x_%s" % u for u, _ in es])) for v, es in G] + ["%s <= 10" % _sum(["%r * x_%s" % (c, u) for u, c in G[0][1]])], define=xn))
    return out


def canonical(pair_label, text, RT):
    """the text of the linear model the emulated front end produces for a program, or ('error', why)"""
    I = RT.I
    ast = RT.parse_text(text)
    if isinstance(ast, tuple):
        return ("error", "not a program: " + ast[1][:200])
    r = I.call_fn(TRANSFORM, [ast, ListV([]), ListV([])])
    if is_unknown(r):
        return ("error", "transformer not evaluable: %r" % (r,))
    if not (isinstance(r, Var) and r.path.endswith("Result::Ok")):
        import c19rt
        return ("error", "transformer rejects it: %r" % (r,), "rejected:" + str(c19rt.error_kind(r)) if isinstance(r, Var) else None)
    u = roundtrip.find_unknown(r.args[0])
    if u is not None:
        return ("error", "transformer not evaluable: %r" % (u,))
    r2 = I.call_fn(LINEARIZE, [r.args[0]])
    if is_unknown(r2) or not (isinstance(r2, Var) and r2.path.endswith("Result::Ok")):
        return ("error", "compile step: %r" % (r2,))
    t = I.display(r2.args[0])
    if is_unknown(t):
        return ("error", "printer not evaluable: %r" % (t,))
    return roundtrip.concretise(t)


def check(F, R, Gm, tier="quick", only=None):
    """only: a label prefix -- just that group of pairs (shared with C03: constant arithmetic)"""
    RT = roundtrip.RoundTrip(F, Gm)
    RT.I.max_depth = 1500
    R.fn(TRANSFORM)
    R.fn("parser::recursive_set_resolver::recursive_set_resolver")
    ps = pairs() + generated(tier) if only is None else [p_ for p_ in pairs() if p_[0].startswith(only)]
    R.count("EXPAND-EQUIV.pairs", len(ps))
    for label, rolled, unrolled in ps:
        a = canonical(label, rolled, RT)
        b = canonical(label, unrolled, RT)
        key = label.replace(" ", "-")
        if isinstance(a, tuple) and isinstance(b, tuple) and len(a) > 2 and len(b) > 2 and a[2] is not None and a[2] == b[2] and label.startswith("both rejected"):
            # a pair whose hand-unrolled text is itself rejected: the construct must be rejected the same way
            R.ob("EXPAND-EQUIV", key, True, "packages/rooc/src/parser", "both texts are %s" % a[2])
            continue
        if isinstance(a, tuple) or isinstance(b, tuple):
            why = "rolled: %s" % (a[1] if isinstance(a, tuple) else "ok") + " | unrolled: %s" % (b[1] if isinstance(b, tuple) else "ok")
            R.ob("EXPAND-EQUIV", key, False, "packages/rooc/src/parser", why[:500])
            continue
        if a != b:
            la, lb = a.split("\n"), b.split("\n")
            d = next((i for i, (x, y) in enumerate(zip(la, lb)) if x != y), min(len(la), len(lb)))
            R.ob("EXPAND-EQUIV", key, False, "packages/rooc/src/parser", "the construct compiles to `%s` where the hand-unrolled text compiles to `%s` (line %d of the linear model)" % (la[d] if d < len(la) else "<end>", lb[d] if d < len(lb) else "<end>", d + 1))
            continue
        R.ob("EXPAND-EQUIV", key, True, "packages/rooc/src/parser", "same linear model as the hand-unrolled text (%d lines)" % len(a.split("\n")))
