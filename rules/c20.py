"""C20 Shadow prices -- forwarding clause only.

The numerical statement (dual = sensitivity of the optimum) lives in good_lp/Clarabel and is NOT
decided.  Decided: the bridge is a pure forwarder -- the value stored for a name is exactly
`dual.dual(reference)` with no arithmetic, the reference is the one `add_constraint` returned for the
row whose name is stored beside it (same loop iteration), empty names are filtered, and the three
hops to the builder return the stored entry unchanged.
"""
from facts import norm, base_ty, walk, strip, sexp
from flow import LocalFlow, pat_binds, free_locals

ARITH = {"+", "-", "*", "/", "%"}
NUMERIC_METHODS = {"abs", "neg", "mul", "add", "sub", "div", "powi", "powf", "sqrt", "recip", "signum", "mul_add", "max", "min", "clamp", "round", "floor", "ceil"}

CHAIN = [
    "solvers::good_lp::collect_good_lp_duals",
    "solvers::common::LpSolution::with_shadow_prices",
    "solvers::common::LpSolution::shadow_prices",
    "<solvers::common::LpSolution<T> as builder::solvers::traits::DualValues>::shadow_price",
    "builder::solution::BuilderSolution::shadow_price",
]


def arithmetic_in(node):
    out = []
    for x in walk(node):
        if x.get("k") == "Binary" and x["op"] in ARITH:
            out.append(sexp(x))
        if x.get("k") == "AssignOp":
            out.append(sexp(x))
        if x.get("k") == "Unary" and x["op"] == "-":
            out.append(sexp(x))
        if x.get("k") == "MCall" and x["name"] in NUMERIC_METHODS:
            out.append(sexp(x))
    return out


def find_fn(F, path):
    f = F.fn(path)
    if f is not None:
        return f
    np = norm(path)
    for p, g in F.fns.items():
        if norm(p) == np or p.replace("<T>", "") == path.replace("<T>", ""):
            return g
    # BuilderSolution methods are in generic impls: match by suffix
    suffix = path.split("::", 1)[-1] if not path.startswith("<") else None
    for p, g in F.fns.items():
        if suffix and norm(p).endswith(norm(path).split("::")[-2] + "::" + path.split("::")[-1]) and "shadow_price" in p and path.split("::")[-2].split("<")[0] in p:
            return g
    return None


def check(F, R):
    # 1. every hop is arithmetic free
    for p in CHAIN:
        f = find_fn(F, p)
        if f is None or "body" not in f:
            R.ob("PURE-FORWARD", p + ":anchor", False, "", "function not found", undecided=True)
            continue
        R.fn(f["path"])
        ar = arithmetic_in(f["body"])
        R.ob("PURE-FORWARD", p, not ar, F.loc(f), "a hop of the dual-value path performs arithmetic: %s (a negated or re-scaled dual changes the reported shadow price)" % ar)
    # 2. collect_good_lp_duals: value is dual.dual(reference) of the same tuple, empty names filtered
    f = find_fn(F, CHAIN[0])
    if f is not None and "body" in f:
        cl = [n for n in walk(f["body"]) if n.get("k") == "Closure"]
        ok = False
        detail = "no closure over (name, reference) found"
        for c in cl:
            binds = [b for p in c["params"] for b in pat_binds(p)]
            if len(binds) != 2:
                continue
            (nid, _), (rid, _) = binds
            somes = [x for x in walk(c["body"]) if x.get("k") == "Call" and norm(x.get("callee") or "").endswith("Option::Some")]
            nones = [x for x in walk(c["body"]) if x.get("k") == "Path" and norm(x.get("path") or "").endswith("Option::None")]
            if len(somes) != 1:
                detail = "expected exactly one Some(..) in the collector"
                continue
            t = strip(somes[0]["args"][0])
            if t.get("k") != "Tup" or len(t["es"]) != 2:
                continue
            name_e, val_e = t["es"]
            v = strip(val_e)
            is_dual = v.get("k") == "MCall" and v["name"] == "dual" and free_locals(v["args"][0]) == {rid}
            name_ok = free_locals(name_e) == {nid}
            # None only under `name.is_empty()`
            guard_ok = False
            for i in walk(c["body"]):
                if i.get("k") == "If":
                    ct = strip(i["cond"])
                    if ct.get("k") == "MCall" and ct["name"] == "is_empty" and free_locals(ct) == {nid} and any(x is nones[0] for x in walk(i["then"])) if nones else False:
                        guard_ok = any(x is somes[0] for x in walk(i["else"])) if i.get("else") else False
            ok = is_dual and name_ok and guard_ok and len(nones) == 1
            detail = "collector yields (%s, %s); dual of the paired reference: %s; name from the same tuple: %s; unnamed rows filtered by is_empty: %s" % (sexp(name_e), sexp(val_e), is_dual, name_ok, guard_ok)
        # the collector is recognised as one closure over (name, reference) with an if/else on the name; any other
        # spelling (filter + map, a loop) is undecided here and left to the adapters clause below
        recognised = "collector yields" in detail
        R.ob("PAIRING", "collect_good_lp_duals", ok, F.loc(f), detail, undecided=not recognised or "filtered by is_empty: False" in detail and "dual of the paired reference: True; name from the same tuple: True" in detail)
        # no reordering / extra filtering
        bad = [x["name"] for x in walk(f["body"]) if x.get("k") == "MCall" and x["name"] in ("rev", "skip", "zip", "enumerate", "sort", "sort_by", "take", "step_by")]
        R.ob("PAIRING", "collect_good_lp_duals:adapters", not bad, F.loc(f), "adapters that could mis-pair names and references: %s" % bad)
    # 3. the (name, reference) pairs are built in one loop iteration
    g = F.fn("solvers::good_lp::solve_with_good_lp")
    if g is None:
        R.ob("PAIRING", "solve_with_good_lp:anchor", False, "", "bridge not found", undecided=True)
        return
    R.fn(g["path"])
    lf = LocalFlow(g["body"])
    ok = False
    detail = "no loop pushing (name, reference) found"
    for lp in [n for n in walk(g["body"]) if n.get("k") == "For"]:
        loopvars = {i for i, _ in pat_binds(lp["pat"])}
        for x in walk(lp["body"]):
            if x.get("k") == "MCall" and x["name"] == "push":
                t = strip(x["args"][0])
                if t.get("k") == "Tup" and len(t["es"]) == 2 and "ConstraintReference" in (F.ty(t["es"][1]) or ""):
                    r_name = lf.roots(t["es"][0], stop=loopvars)
                    ref_defs = [d for i in free_locals(t["es"][1]) for d in lf.defs.get(i, [])]
                    add = [d for d in ref_defs if strip(d).get("k") == "MCall" and strip(d)["name"] == "add_constraint"]
                    in_loop = bool(add) and any(y is add[0] for y in walk(lp["body"]))
                    r_ref = lf.roots(add[0], stop=loopvars) if add else set()
                    name_def = [sexp(d) for i in free_locals(t["es"][0]) for d in lf.defs.get(i, [])]
                    ok = bool(loopvars & r_name) and bool(loopvars & r_ref) and in_loop and any(".name()" in d for d in name_def)
                    detail = "pair %s: name defined by %s, reference by %s in the same iteration: %s" % (sexp(t), name_def, [sexp(a) for a in add], in_loop)
    R.ob("PAIRING", "solve_with_good_lp:same-iteration", ok, F.loc(g), detail, undecided=detail.startswith("no loop"))
    # extract_duals result reaches with_shadow_prices untouched
    ws = [n for n in walk(g["body"]) if n.get("k") == "MCall" and n["name"] == "with_shadow_prices"]
    ok = False
    detail = "with_shadow_prices call not found"
    if len(ws) == 1:
        a = strip(ws[0]["args"][0])
        defs = [strip(d) for i in free_locals(a) for d in lf.defs.get(i, [])]
        ok = a.get("k") == "Path" and len(defs) == 1 and defs[0].get("k") == "Call" and "constraint_references" in sexp(defs[0])
        detail = "with_shadow_prices(%s) <- %s" % (sexp(a), [sexp(d) for d in defs])
    R.ob("PURE-FORWARD", "solve_with_good_lp:duals-unmodified", ok, F.loc(g), detail, undecided=True)
    # 4. Clarabel extraction closure is the collector applied to the computed duals
    c = F.fn("solvers::clarabel::solve_real_lp_problem_clarabel")
    if c is not None:
        R.fn(c["path"])
        cl = [n for n in walk(c["body"]) if n.get("k") == "Closure" and any(x.get("k") == "Call" and norm(x.get("callee") or "").endswith("collect_good_lp_duals") for x in walk(n["body"]))]
        ok = False
        detail = "no closure calling collect_good_lp_duals"
        if len(cl) == 1:
            binds = [b for p in cl[0]["params"] for b in pat_binds(p)]
            call = [x for x in walk(cl[0]["body"]) if x.get("k") == "Call" and norm(x.get("callee") or "").endswith("collect_good_lp_duals")][0]
            ar = arithmetic_in(cl[0]["body"])
            second = free_locals(call["args"][1]) == {binds[1][0]} if len(binds) == 2 else False
            first_src = [sexp(call["args"][0])] + [sexp(d) for i in free_locals(call["args"][0]) for d in LocalFlow(cl[0]["body"]).defs.get(i, [])]
            ok = second and not ar and any("compute_dual" in d for d in first_src)
            detail = "closure %s: references forwarded: %s, duals from %s, arithmetic: %s" % (sexp(cl[0])[:120], second, first_src, ar)
        R.ob("PURE-FORWARD", "clarabel:extract-closure", ok, F.loc(c), detail, undecided=(len(cl) != 1) or not ar)
