"""ENGINE-SELFTEST: the table interpreter against a fixture crate whose results are known.

/verif/interp_selftest is a dependency-free crate of `t_*` functions that use the standard-library methods the
interpreter models (options, results, numbers, strings, vectors, iterator adapters, sorting, maps, control flow,
closures, struct update, formatting).  Its expected results (expected.txt) were recorded once by running the fixture's
own test at development time.  Every check that relies on evaluated families compiles the fixture under the factgen
driver (cached by content), evaluates each function from its typed HIR and compares with the recorded text: a wrong
builtin would otherwise turn into silent false passes or false alarms of the family rules.  Independent of /repo."""
import hashlib
import os
import shutil
import subprocess
import sys

import facts
from interp import Interp, Rope, is_unknown

CRATE = "interp_selftest"
CDIR = os.path.join(facts.VERIF, CRATE)


def _facts():
    src = open(os.path.join(CDIR, "src", "lib.rs"), "rb").read()
    drv = os.path.getmtime(facts.DRIVER) if os.path.exists(facts.DRIVER) else 0
    tag = hashlib.sha256(src + str(drv).encode()).hexdigest()[:16]
    out_dir = os.path.join(facts.CACHE, "facts", CRATE)
    os.makedirs(out_dir, exist_ok=True)
    path = os.path.join(out_dir, CRATE + ".facts.json")
    stamp = os.path.join(out_dir, CRATE + ".tag")
    if os.path.exists(path) and os.path.exists(stamp) and open(stamp).read().strip() == tag:
        return path
    target = os.path.join(facts.CACHE, "target-" + CRATE)
    shutil.rmtree(target, ignore_errors=True)
    os.makedirs(target, exist_ok=True)
    if os.path.exists(path):
        os.remove(path)
    env = facts._env(out_dir, CRATE, tag)
    env["CARGO_TARGET_DIR"] = target
    r = subprocess.run(["cargo", "+nightly", "check", "--offline", "--lib"], cwd=CDIR, env=env, stdout=subprocess.PIPE, stderr=subprocess.STDOUT, text=True)
    if r.returncode != 0 or not os.path.exists(path):
        sys.stderr.write(r.stdout[-3000:])
        raise facts.BuildError("cargo check with factgen failed for the interpreter fixture")
    with open(stamp, "w") as fh:
        fh.write(tag)
    shutil.rmtree(target, ignore_errors=True)
    return path


def run():
    """-> list of (case, ok, detail)"""
    F = facts.Facts(_facts())
    I = Interp(F)
    I.concrete_floats = True
    out = []
    for line in open(os.path.join(CDIR, "expected.txt")):
        line = line.rstrip("\n")
        if not line:
            continue
        name, want = line.split(" => ", 1)
        try:
            v = I.call_fn(name, [])
        except RecursionError:
            v = None
        if isinstance(v, Rope):
            try:
                got = v.text()
            except Exception:
                got = repr(v)
        elif isinstance(v, str):
            got = v
        else:
            got = "<%r>" % (v,)
        out.append((name, got == want, "evaluated `%s`, the compiled fixture prints `%s`" % (got[:700], want[:700])))
    return out


def check(R):
    res = run()
    R.count("ENGINE-SELFTEST.cases", len(res))
    for name, ok, detail in res:
        R.ob("ENGINE-SELFTEST", name, ok, "interp_selftest/src/lib.rs", detail)
        R.fixture_result("ENGINE-SELFTEST:" + name, ok)


if __name__ == "__main__":
    for name, ok, detail in run():
        print("ok  " if ok else "FAIL", name, "" if ok else detail)
