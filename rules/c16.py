"""C16 All front doors agree -- structure of the builder translation and of the entry points.

Decides: H-TOEXP (index-based Expr -> name-based Exp is variant- and position-preserving),
H-OPS (every operator-trait impl of the builder builds the same-named operator with self on the
left and rhs on the right), S-EVAL (the builder's evaluator uses the language's operator tables),
FUNNEL (every front door reaches a LinearModel only through Linearizer::linearize, and text
only through the one parser/transformer), D-HANDLE (handle -> name -> value).
Not decided: equality of the results.
"""
import re
from fractions import Fraction
from facts import norm, base_ty, walk, strip, sexp
from interp import Interp, Var, Rope, Sym, ListV, is_unknown
from flow import LocalFlow, free_locals
import mirlib
import c10

XE = "builder::expr::Expr"
XV = "builder::expr::Var"
EXP = c10.EXP
BIN = "math::operators::BinOp::"
UN = "math::operators::UnOp::"

TRAIT_OP = {"Add": ("BinOp", "Add"), "Sub": ("BinOp", "Sub"), "Mul": ("BinOp", "Mul"), "Div": ("BinOp", "Div"),
            "BitAnd": ("And", None), "BitOr": ("Or", None), "BitXor": ("Xor", None), "Neg": ("UnOp", "Neg"), "Not": ("Not", None)}


def sample(ty, tag):
    """(value, expected converted Expr) for an operand of type `ty`"""
    if ty == XE:
        v = Var(XE + "::Variable", [tag])
        return v, v
    if ty == "&" + XE:
        v = Var(XE + "::Variable", [tag])
        return v, v
    if ty == XV:
        return Var(XV, fields={"index": tag}), Var(XE + "::Variable", [tag])
    if ty == "f64":
        return float(tag) + 0.5, Var(XE + "::Number", [float(tag) + 0.5])
    if ty == "i32":
        return tag, Var(XE + "::Number", [tag])
    if ty == "bool":
        return True, Var(XE + "::Number", [1.0])
    return None, None


def num_eq(a, b):
    if isinstance(a, Var) and isinstance(b, Var) and a.path == b.path and len(a.args) == len(b.args):
        return all(num_eq(x, y) for x, y in zip(a.args, b.args))
    if isinstance(a, ListV) and isinstance(b, ListV):
        return len(a.items) == len(b.items) and all(num_eq(x, y) for x, y in zip(a.items, b.items))
    if isinstance(a, (int, float)) and isinstance(b, (int, float)):
        return float(a) == float(b)
    return a == b


def h_ops(F, R, I):
    n = 0
    for imp in F.items["impls"]:
        tr = imp.get("trait") or ""
        if not tr.startswith("std::ops::") or not imp.get("file", "").endswith("builder/expr.rs"):
            continue
        tname = tr.rsplit("::", 1)[-1]
        if tname not in TRAIT_OP:
            continue
        tref = imp.get("trait_ref") or ""
        m = re.search(r" as std::ops::\w+(?:<(.*)>)?>$", tref)
        self_ty = imp["self_ty"]
        rhs_ty = (m.group(1) if m and m.group(1) else self_ty)
        for meth in imp["methods"]:
            n += 1
            R.fn(meth["path"])
            a, ea = sample(self_ty, 3)
            key = "%s %s %s" % (self_ty.rsplit("::", 1)[-1], tname, rhs_ty.rsplit("::", 1)[-1])
            form, op = TRAIT_OP[tname]
            if tname in ("Neg", "Not"):
                got = I.call_fn(meth["path"], [a])
                want = Var(XE + "::UnOp", [Var(UN + op), ea]) if form == "UnOp" else Var(XE + "::Not", [ea])
            else:
                b, eb = sample(rhs_ty, 7)
                if a is None or b is None:
                    R.ob("H-OPS", key, False, "packages/rooc/src/builder/expr.rs", "operand types not modelled: %s / %s" % (self_ty, rhs_ty))
                    continue
                got = I.call_fn(meth["path"], [a, b])
                if form == "BinOp":
                    want = Var(XE + "::BinOp", [Var(BIN + op), ea, eb])
                elif form in ("And", "Or"):
                    want = Var(XE + "::" + form, [ListV([ea, eb])])
                else:
                    want = Var(XE + "::" + form, [ea, eb])
            R.ob("H-OPS", key, (not is_unknown(got)) and num_eq(got, want), "packages/rooc/" + imp["file"] + ":" + str(imp["line"]),
                 "`%s` builds %r, expected %r (same-named operator, self on the left, rhs on the right)" % (key, got, want))
    R.count("H-OPS.impls", n)
    # named helpers
    e1, e2 = Var(XE + "::Variable", [3]), Var(XE + "::Variable", [7])
    for name, want in (("implies", Var(XE + "::Implies", [e1, e2])), ("iff", Var(XE + "::Iff", [e1, e2]))):
        got = I.call_fn(XE + "::" + name, [e1, e2])
        R.ob("H-OPS", "Expr::" + name, num_eq(got, want), "packages/rooc/src/builder/expr.rs", "Expr::%s builds %r, expected %r" % (name, got, want))


def h_toexp(F, R, I):
    names = ListV([Rope(["n%d" % i]) for i in range(10)])
    a, b = Var(XE + "::Variable", [3]), Var(XE + "::Variable", [7])
    na, nb = Var(EXP + "::Variable", [Rope(["n3"])]), Var(EXP + "::Variable", [Rope(["n7"])])
    cases = [("Number", Var(XE + "::Number", [2.5]), Var(EXP + "::Number", [2.5])), ("Variable", a, na),
             ("Abs", Var(XE + "::Abs", [a]), Var(EXP + "::Abs", [na])), ("Not", Var(XE + "::Not", [a]), Var(EXP + "::Not", [na]))]
    for k in ("Min", "Max", "And", "Or"):
        cases.append((k, Var(XE + "::" + k, [ListV([a, b])]), Var(EXP + "::" + k, [ListV([na, nb])])))
    for k in ("Xor", "Implies", "Iff"):
        cases.append((k, Var(XE + "::" + k, [a, b]), Var(EXP + "::" + k, [na, nb])))
    for op in F.variants("math::operators::BinOp"):
        cases.append(("BinOp::" + op, Var(XE + "::BinOp", [Var(BIN + op), a, b]), Var(EXP + "::BinOp", [Var(BIN + op), na, nb])))
    for op in F.variants("math::operators::UnOp"):
        cases.append(("UnOp::" + op, Var(XE + "::UnOp", [Var(UN + op), a]), Var(EXP + "::UnOp", [Var(UN + op), na])))
    R.fn("builder::expr::to_exp")
    covered = set()
    for key, inp, want in cases:
        got = I.call_fn("builder::expr::to_exp", [inp, names])
        covered.add(key.split("::")[0])
        R.ob("H-TOEXP", key, num_eq(got, want), "packages/rooc/src/builder/expr.rs", "to_exp(%r) = %r, expected %r (same variant, operands in place, index resolved to its name)" % (inp, got, want))
    R.ob("H-TOEXP", "all-variants", covered == set(F.variants(XE) or []), "packages/rooc/src/builder/expr.rs", "Expr variants %s vs checked %s" % (sorted(F.variants(XE) or []), sorted(covered)))


def s_eval(F, R, I):
    """eval_expr's operator tables on constants agree with the language semantics (the reference
    evaluator used for C10)"""
    R.fn("builder::expr::eval_expr")
    vals = [0.0, 1.0, 2.0, -1.0]
    var = Sym("var")
    n = 0
    bad = []
    for op in F.variants("math::operators::BinOp"):
        for x in vals:
            for y in vals:
                if op == "Div" and y == 0.0:
                    continue
                inp = Var(XE + "::BinOp", [Var(BIN + op), Var(XE + "::Number", [x]), Var(XE + "::Number", [y])])
                got = I.call_fn("builder::expr::eval_expr", [inp, var])
                t = ("bin", op, ("num", Fraction(x)), ("num", Fraction(y))) if op in c10.ARITH else (("nary", op, [("num", Fraction(x)), ("num", Fraction(y))]) if op in ("And", "Or") else ("logic", op, ("num", Fraction(x)), ("num", Fraction(y))))
                want = float(c10.evaluate(t, {}))
                n += 1
                if not (isinstance(got, (int, float)) and float(got) == want):
                    bad.append("%s(%s,%s)=%r, expected %r" % (op, x, y, got, want))
    for k in ("Xor", "Implies", "Iff"):
        for x in vals:
            for y in vals:
                inp = Var(XE + "::" + k, [Var(XE + "::Number", [x]), Var(XE + "::Number", [y])])
                got = I.call_fn("builder::expr::eval_expr", [inp, var])
                want = float(c10.evaluate(("logic", k, ("num", Fraction(x)), ("num", Fraction(y))), {}))
                n += 1
                if not (isinstance(got, (int, float)) and float(got) == want):
                    bad.append("%s(%s,%s)=%r, expected %r" % (k, x, y, got, want))
    for x in vals:
        for k, t in (("Not", ("not", ("num", Fraction(x)))),):
            got = I.call_fn("builder::expr::eval_expr", [Var(XE + "::Not", [Var(XE + "::Number", [x])]), var])
            want = float(c10.evaluate(t, {}))
            n += 1
            if not (isinstance(got, (int, float)) and float(got) == want):
                bad.append("Not(%s)=%r, expected %r" % (x, got, want))
        for op, t in (("Neg", ("neg", ("num", Fraction(x)))), ("Not", ("not", ("num", Fraction(x))))):
            got = I.call_fn("builder::expr::eval_expr", [Var(XE + "::UnOp", [Var(UN + op), Var(XE + "::Number", [x])]), var])
            want = float(c10.evaluate(t, {}))
            n += 1
            if not (isinstance(got, (int, float)) and float(got) == want):
                bad.append("UnOp %s(%s)=%r, expected %r" % (op, x, got, want))
    # abs and the n-ary forms: operand tuples over a sign-covering value set (all-negative tuples included)
    import itertools
    wide = [-2.0, -1.0, 0.0, 1.0, 2.0]
    for x in wide:
        got = I.call_fn("builder::expr::eval_expr", [Var(XE + "::Abs", [Var(XE + "::Number", [x])]), var])
        n += 1
        if not (isinstance(got, (int, float)) and float(got) == abs(x)):
            bad.append("Abs(%s)=%r, expected %r" % (x, got, abs(x)))
    for k in ("Min", "Max", "And", "Or"):
        for ln in (1, 2, 3):
            for tup in itertools.product(wide, repeat=ln):
                inp = Var(XE + "::" + k, [ListV([Var(XE + "::Number", [x]) for x in tup])])
                got = I.call_fn("builder::expr::eval_expr", [inp, var])
                if k in ("Min", "Max"):
                    want = min(tup) if k == "Min" else max(tup)
                else:
                    want = float(c10.evaluate(("nary", k, [("num", Fraction(x)) for x in tup]), {}))
                n += 1
                if not (isinstance(got, (int, float)) and float(got) == want):
                    bad.append("%s%s=%r, expected %r" % (k, list(tup), got, want))
    R.count("S-EVAL.cells", n)
    R.ob("S-EVAL", "operator-tables", not bad, "packages/rooc/src/builder/expr.rs", "eval_expr disagrees with the language semantics on %d of %d constant cells: %s" % (len(bad), n, bad[:6]))
    for fn_, cases in (("builder::expr::truthy", ((0.0, False), (-0.0, False), (2.0, True), (-1.0, True))), ("builder::expr::bool_num", ((True, 1.0), (False, 0.0)))):
        for x, w in cases:
            got = I.call_fn(fn_, [x])
            R.ob("S-EVAL", "%s(%r)" % (fn_.rsplit("::", 1)[-1], x), got == w, "packages/rooc/src/builder/expr.rs", "%s(%r) = %r, expected %r" % (fn_, x, got, w))


def funnel(F, R):
    cg = mirlib.CallGraph(F)
    # who may construct a LinearModel from parts
    makers = [p for p, outs in cg.edges.items() if any(norm(o).endswith("LinearModel::new_from_parts") for o in outs)]
    R.ob("FUNNEL", "new_from_parts-callers", set(makers) <= {"transformers::linearizer::Linearizer::linearize", "transformers::linear_model::LinearModel::new_from_parts"} and bool(makers), "packages/rooc/src/transformers/linearizer.rs", "functions that assemble a compiled LinearModel: %s (only Linearizer::linearize may)" % sorted(makers))
    # every front door reaches Linearizer::linearize; none of them re-implements a stage
    doors = {
        "builder": [p for p in F.mir if p.startswith("builder::model::ModelBuilder") and p.endswith("::linearize")],
        "builder-solve": [p for p in F.mir if p.startswith("builder::model::ModelBuilder") and "solve_with" in p],
        "one-shot": [p for p in F.mir if p.startswith("RoocSolver") and "solve" in p and "{closure" not in p],
        "pipe-linearize": [p for p in F.mir if p.startswith("<pipe::pipe_executors::LinearModelPipe as") and p.endswith("::pipe")],
    }
    LIN = "transformers::linearizer::Linearizer::linearize"
    for door, fns in sorted(doors.items()):
        R.ob("FUNNEL", "door-present:" + door, bool(fns), "", "front door `%s` not found in the crate" % door)
        for p in fns:
            reach = cg.reachable([p])
            R.fn(p)
            R.ob("FUNNEL", "reaches-linearizer:" + p, LIN in reach, "packages/rooc/" + F.mir[p]["file"] + ":" + str(F.mir[p]["line"]), "front door %s must compile through Linearizer::linearize" % p)
    # text front doors go through the one parser and transformer
    PARSE = "parser::pre_model::parse_problem_source"
    TRANS = "parser::model_transformer::model::transform_parsed_problem"
    text_doors = [p for p in F.mir if (p.startswith("RoocParser::") and p.rsplit("::", 1)[-1] in ("parse", "parse_and_transform", "format", "type_check"))]
    for p in sorted(text_doors):
        reach = cg.reachable([p])
        R.ob("FUNNEL", "reaches-parser:" + p, PARSE in reach, "packages/rooc/src/lib.rs", "%s must parse through parse_problem_source" % p)
    pt = [p for p in text_doors if p.endswith("parse_and_transform")]
    for p in pt:
        reach = cg.reachable([p])
        R.ob("FUNNEL", "reaches-transformer:" + p, TRANS in reach, "packages/rooc/src/lib.rs", "%s must transform through transform_parsed_problem" % p)
    callers_parse = sorted(q for q, outs in cg.edges.items() if any(("pest::Parser" in o and o.endswith("::parse")) for o in outs))
    R.table("callers_of_Pest_parse", callers_parse)
    R.ob("FUNNEL", "single-pest-entry", len(callers_parse) >= 1 and all(q.startswith("parser::pre_model::") for q in callers_parse), "packages/rooc/src/parser/pre_model.rs", "pest is entered only from the pre-model parser: %s" % callers_parse)


def d_handle(F, R):
    f = None
    for p, g in F.fns.items():
        if p.endswith("BuilderSolution::var_value") or ("BuilderSolution" in p and p.endswith("::var_value")):
            f = g
    if f is None or "body" not in f:
        R.ob("D-HANDLE", "anchor", False, "", "BuilderSolution::var_value not found")
        return
    R.fn(f["path"])
    t = sexp(f["body"])
    ok = "self.variable_names.get(var.index)" in t and "self.solution.var_value(name)" in t
    R.ob("D-HANDLE", "var_value", ok, F.loc(f), "a handle must resolve index -> variable_names[index] -> solution value of that name: %s" % t[:200])
    g = F.fn("solvers::common::build_assignment_map")
    if g is not None:
        R.fn(g["path"])
        t = sexp(g["body"])
        R.ob("D-HANDLE", "first-duplicate-wins", ".entry(item.name.clone()).or_insert(item.value)" in t, F.loc(g), "lookup by name keeps the first assignment of a duplicated name: %s" % t[:160])
    h = F.fn("builder::model::ModelBuilder::solve_with")
    if h is not None:
        R.fn(h["path"])
        t = sexp(h["body"])
        R.ob("D-HANDLE", "solve_with:names", "self.variable_names.clone()" in t and "BuilderSolution::new(solution, variable_names)" in t, F.loc(h), "the solution must carry the builder's own name table")
    k = F.fn("builder::model::ModelBuilder::into_model")
    if k is not None:
        R.fn(k["path"])
        t = sexp(k["body"])
        R.ob("D-HANDLE", "into_model:marks-all-used", "for var in domain.values_mut()" in t and "var.increment_usage()" in t, F.loc(k), "every declared builder variable must be marked used so that its handle resolves")
        R.ob("D-HANDLE", "into_model:default-satisfy", "OptimizationType::Satisfy" in t and "unwrap_or" in t, F.loc(k), "a model without an objective defaults to satisfy")
        R.ob("D-HANDLE", "into_model:same-translation", t.count("to_exp(") >= 1 and "to_constraint(&variable_names)" in t, F.loc(k), "objective and constraints are translated with the same name table")


def check(F, R):
    I = Interp(F)
    h_toexp(F, R, I)
    h_ops(F, R, I)
    s_eval(F, R, I)
    funnel(F, R)
    d_handle(F, R)
    s_order(F, R)


def s_order(F, R, rule="S-ORDER"):
    """S-ORDER: constants come from three sources -- the standard library, the caller (API) and the text -- and a later
    one may be defined from an earlier one (`let n = len(weights)` with `weights` passed by the caller).  The type checker
    (create_type_checker, create_token_type_map) and the transformer (transform_parsed_problem) must declare the sources
    in the same order, otherwise one front door accepts what another rejects."""
    def kind_of(e, f):
        t = sexp(e)
        if "make_std_constants" in t:
            return "std"
        s_ = strip(e)
        while s_.get("k") == "MCall" and s_["name"] in ("iter", "into_iter", "clone", "cloned"):
            s_ = strip(s_["recv"])
        if s_.get("k") == "Path" and s_.get("res") == "local":
            params = {p_["id"]: p_["name"] for prm in f.get("params", []) for p_ in walk(prm) if p_.get("k") == "PBind"}
            if s_.get("id") in params and "Constant" in (F.ty(s_) or ""):
                return "api"
            # a local holding the std constants
            return "local:" + s_.get("name", "?")
        if re.search(r"\.constants(\(\))?$", t.replace(".clone()", "").replace("&", "")):
            return "text"
        return None

    def chain_parts(e):
        e = strip(e)
        if e.get("k") == "MCall" and e["name"] == "chain":
            return chain_parts(e["recv"]) + chain_parts(e["args"][0])
        return [e]
    seqs = {}
    for path in ("parser::pre_model::PreModel::create_type_checker", "parser::pre_model::PreModel::create_token_type_map", "parser::model_transformer::model::transform_parsed_problem"):
        f = F.fn(path)
        if f is None:
            R.ob(rule, "anchor:" + path.rsplit("::", 1)[-1], False, "", "%s not found" % path, undecided=True)
            continue
        R.fn(path)
        lf = LocalFlow(f["body"])
        seq = []
        stmts = strip(f["body"]).get("stmts", []) + ([{"k": "Expr", "e": strip(f["body"])["e"]}] if strip(f["body"]).get("e") else [])
        for st in stmts:
            e = strip(st.get("e") or st.get("init") or {})
            cands = []
            if e.get("k") == "For" and any(x.get("k") == "MCall" and x["name"] in ("type_check", "populate_token_type_map") for x in walk(e["body"])):
                cands = chain_parts(e["iter"])
            elif st.get("k") == "Let" and st.get("init") is not None and "make_std_constants" in sexp(st["init"]) and "Vec<primitives::consts::Constant>" in (F.ty(strip(st["init"])) or "Vec<primitives::consts::Constant>"):
                if path.endswith("transform_parsed_problem"):
                    cands = [st["init"]]
            elif e.get("k") == "MCall" and e["name"] == "extend":
                cands = [e["args"][0]]
            for c in cands:
                k = kind_of(c, f)
                if k and k.startswith("local:"):
                    # resolve a local through its definition
                    ids = free_locals(c)
                    k2 = None
                    for i in ids:
                        for d in lf.defs.get(i, []):
                            k2 = k2 or kind_of(d, f)
                    k = k2
                if k in ("std", "api", "text"):
                    seq.append(k)
        seqs[path.rsplit("::", 1)[-1]] = seq
    ref = seqs.get("transform_parsed_problem")
    for name, seq in seqs.items():
        # both orders read off the code and different: evidence.  An order this clause cannot read (sources chained into one
        # loop, a helper) is undecided; FRONT-DOOR-EQUIV's constant-source programs decide the behaviour
        readable = len(seq) == 3 and ref is not None and len(ref) == 3
        R.ob(rule, name, seq == ref and sorted(seq) == ["api", "std", "text"], "packages/rooc/src/parser/pre_model.rs", "constant sources are declared in the order %s; the transformer declares them in the order %s" % (seq, ref), undecided=not readable)
