"""ROUND-TRIP: the formatter and the parser as a pair, decided on a bounded family of programs without running rooc.

    text T0 --(peg.py: pest's matcher over the dumped grammar)--> pair tree
            --(the crate's own converters, rules_parser/*.rs and pre_model::parse_problem, evaluated from their typed
               HIR by the table interpreter with pest's Pair / Pairs / PrattParser API modelled)--> AST0
            --(the crate's own Display impls, evaluated from their HIR)--> text T1
            --> pair tree --> AST1 --> text T2

obligations per program: T0 is accepted and converted; T1 is accepted and converted (the formatter's output parses);
AST1 = AST0 up to source spans (formatting preserves meaning); T2 = T1 (formatting is idempotent).
"""
import re
from decimal import Decimal
from facts import norm
from interp import Interp, Var, Rope, Leaf, ListV, Unknown, is_unknown, Closure, FnRef, UNIT, OK_PATHS, ERR_PATHS, SOME_PATHS, NONE_PATHS
import peg
import pratt

RULE = "parser::pre_model::Rule"


class PairV:
    """a pest Pair as seen by the converters"""
    __slots__ = ("p",)

    def __init__(self, p):
        self.p = p

    def __repr__(self):
        return "Pair(%s %r)" % (self.p.rule, self.p.text[:30])

    def __eq__(self, o):
        return isinstance(o, PairV) and o.p is self.p

    def __hash__(self):
        return id(self.p)


class SpanV:
    __slots__ = ("start", "end")

    def __init__(self, s, e):
        self.start, self.end = s, e

    def __repr__(self):
        return "Span(%d,%d)" % (self.start, self.end)


SPAN = Leaf("span")


def rust_f64_display(x):
    if x != x:
        return "NaN"
    if x in (float("inf"), float("-inf")):
        return "inf" if x > 0 else "-inf"
    if x == int(x) and abs(x) < 1e16:
        s = str(int(x))
        return "-0" if (s == "0" and str(x).startswith("-")) else s
    d = Decimal(repr(x))
    s = format(d, "f")
    return s


def concretise(rope):
    """Rope -> str (float leaves rendered as Rust's Display does); None when an opaque leaf remains"""
    out = []
    for x in rope.pieces:
        if isinstance(x, str):
            out.append(x)
        elif isinstance(x, Leaf) and x.name.startswith("f64:"):
            out.append(rust_f64_display(float(x.name[4:])))
        else:
            return None
    return "".join(out)


class RoundTrip:
    def __init__(self, F, G):
        self.F = F
        self.G = G
        self.M = peg.Matcher(G)
        self.I = Interp(F, max_depth=400)
        self.I.concrete_floats = True
        tabs = pratt.extract_pratt_tables(F)
        self.levels = tabs[0][1] if tabs else None
        self.ops = {}
        if self.levels:
            prec = pratt.PREC_STEP
            for lvl in self.levels:
                prec += pratt.PREC_STEP
                for rule, aff in lvl.items():
                    self.ops[rule] = (aff, prec)
        self.install()

    # ---- the pest API as seen from the converters ------------------------------------------------------
    def install(self):
        I = self.I
        m = I.models

        def rule_var(name):
            return Var(RULE + "::" + name)
        m["pest::iterators::Pair::as_rule"] = lambda I_, a: rule_var(a[0].p.rule) if isinstance(a[0], PairV) else Unknown("as_rule on %r" % (a[0],))
        m["pest::iterators::Pair::as_str"] = lambda I_, a: a[0].p.text if isinstance(a[0], PairV) else Unknown("as_str on %r" % (a[0],))
        m["pest::iterators::Pair::into_inner"] = lambda I_, a: ListV([PairV(c) for c in a[0].p.children]) if isinstance(a[0], PairV) else Unknown("into_inner on %r" % (a[0],))
        m["pest::iterators::Pair::as_span"] = lambda I_, a: SpanV(a[0].p.start, a[0].p.end) if isinstance(a[0], PairV) else Unknown("as_span")
        m["pest::iterators::Pair::as_node_tag"] = lambda I_, a: (Var(SOME_PATHS[0], [a[0].p.tag]) if a[0].p.tag else Var(NONE_PATHS[0])) if isinstance(a[0], PairV) else Unknown("as_node_tag")
        m["pest::Span::start"] = lambda I_, a: a[0].start if isinstance(a[0], SpanV) else Unknown("Span::start")
        m["pest::Span::end"] = lambda I_, a: a[0].end if isinstance(a[0], SpanV) else Unknown("Span::end")
        m["<pest::iterators::Pair as std::clone::Clone>::clone"] = lambda I_, a: a[0]

        def find_first_tagged(I_, a):
            pairs, tag = a
            tag = tag.text() if isinstance(tag, Rope) else tag
            if not isinstance(pairs, ListV):
                return Unknown("find_first_tagged on %r" % (pairs,))
            for top in pairs.items:
                for q in top.p.flatten():
                    if q.tag == tag:
                        return Var(SOME_PATHS[0], [PairV(q)])
            return Var(NONE_PATHS[0])
        m["pest::iterators::Pairs::find_first_tagged"] = find_first_tagged
        # source spans are not compared
        m["utils::InputSpan::from_pair"] = lambda I_, a: SPAN
        m["utils::InputSpan::from_span"] = lambda I_, a: SPAN
        m["<utils::InputSpan as std::default::Default>::default"] = lambda I_, a: SPAN
        # the Pratt parser: pest's loop over the extracted operator table, calling the crate's closures
        def lazy_get(I_, a):
            # lazy_static: the value is whatever the initialiser function returns (the Pratt parser's own table is not
            # evaluated: the extracted table is used by the modelled loop)
            if len(a) >= 2:
                r = I_.apply(a[1], [])
                if not is_unknown(r):
                    return r
            return Var("PRATT")
        m["lazy_static::lazy::Lazy::get"] = lazy_get
        m["pest::pratt_parser::PrattParser::map_primary"] = lambda I_, a: Var("PRATTMAP", fields={"primary": a[1], "infix": None, "prefix": None})

        def with_field(name):
            def f(I_, a):
                if not isinstance(a[0], Var) or a[0].path != "PRATTMAP":
                    return Unknown("pratt builder")
                d = dict(a[0].fields)
                d[name] = a[1]
                return Var("PRATTMAP", fields=d)
            return f
        m["pest::pratt_parser::PrattParserMap::map_infix"] = with_field("infix")
        m["pest::pratt_parser::PrattParserMap::map_prefix"] = with_field("prefix")
        m["pest::pratt_parser::PrattParserMap::parse"] = self.pratt_parse

    def pratt_parse(self, I_, a):
        pm, pairs = a
        if not isinstance(pairs, ListV) or not isinstance(pm, Var):
            return Unknown("pratt parse args")
        toks = list(pairs.items)
        pos = [0]
        ops = self.ops

        class Panic(Exception):
            pass

        def lbp():
            if pos[0] >= len(toks):
                return 0
            r = toks[pos[0]].p.rule
            if r not in ops:
                raise Panic("pest's Pratt parser panics: Expected operator, found %s" % toks[pos[0]].p.text)
            return ops[r][1]

        def nud():
            if pos[0] >= len(toks):
                raise Panic("pest's Pratt parser panics: unexpected end of expression")
            t = toks[pos[0]]
            pos[0] += 1
            o = ops.get(t.p.rule)
            if o is None:
                return I_.apply(pm.fields["primary"], [t])
            if o[0][0] == "prefix":
                rhs = expr(o[1] - 1)
                return I_.apply(pm.fields["prefix"], [t, rhs])
            raise Panic("pest's Pratt parser panics: Expected prefix or primary expression, found %s" % t.p.text)

        def led(lhs):
            t = toks[pos[0]]
            pos[0] += 1
            aff, prec = ops[t.p.rule]
            if aff[0] != "infix":
                raise Panic("pest's Pratt parser panics: Expected postfix or infix expression, found %s" % t.p.text)
            rhs = expr(prec if aff[1] == "Left" else prec - 1)
            return I_.apply(pm.fields["infix"], [lhs, t, rhs])

        def expr(rbp):
            lhs = nud()
            while rbp < lbp():
                lhs = led(lhs)
            return lhs
        try:
            return expr(0)
        except Panic as e:
            return Unknown(str(e))

    # ---- stages ---------------------------------------------------------------------------------------
    def parse_text(self, text):
        """text -> AST (interpreter value) | ('reject', why)"""
        try:
            pairs = self.M.parse("problem", text)
        except peg.Fail as e:
            return ("reject", "grammar model: %s" % e)
        if pairs is None:
            return ("reject", "the grammar does not accept the text (furthest position %d)" % self.M.furthest)
        r = self.I.call_fn("parser::pre_model::parse_problem", [PairV(pairs[0]), text])
        if is_unknown(r):
            return ("reject", "converter not evaluable: %r" % (r,))
        if isinstance(r, Var) and r.path in ERR_PATHS:
            # the error itself is decided; its message text may contain pieces the interpreter does not render
            return ("reject", ("converter returns an error: %r" % (r.args[:1],)).replace("Unknown(", "<text>("))
        if isinstance(r, Var) and r.path in OK_PATHS:
            u = find_unknown(r.args[0])
            if u is not None:
                return ("reject", "converter not evaluable: %r" % (u,))
            return r.args[0]
        return ("reject", "converter result %r" % (r,))

    def print_ast(self, ast):
        r = self.I.display(ast)
        if is_unknown(r):
            return None, "printer not evaluable: %r" % (r,)
        t = concretise(r)
        if t is None:
            return None, "printer output contains an opaque value: %r" % (r,)
        return t, None


def find_unknown(v, depth=0):
    """an Unknown buried in a structure (a field whose computation could not be evaluated, e.g. a modelled panic)"""
    if is_unknown(v):
        return v
    if depth > 60:
        return None
    if isinstance(v, Var):
        for x in list(v.args) + list(v.fields.values()):
            u = find_unknown(x, depth + 1)
            if u is not None:
                return u
    elif isinstance(v, ListV):
        for x in v.items:
            u = find_unknown(x, depth + 1)
            if u is not None:
                return u
    elif isinstance(v, tuple):
        for x in v:
            u = find_unknown(x, depth + 1)
            if u is not None:
                return u
    return None


def strip_spans(v):
    """structural value without source positions and without the stored source text"""
    if isinstance(v, Var):
        if norm(v.path).endswith("utils::Spanned") and "value" in v.fields:
            return strip_spans(v.fields["value"])
        if norm(v.path).endswith("utils::InputSpan"):
            return "span"
        fields = {k: strip_spans(x) for k, x in v.fields.items() if k not in ("span", "source")}
        args = [strip_spans(x) for x in v.args if not (isinstance(x, Leaf) and x.name == "span")]
        return (norm(v.path), tuple(args), tuple(sorted(fields.items(), key=lambda kv: kv[0])))
    if isinstance(v, ListV):
        return ("list",) + tuple(strip_spans(x) for x in v.items)
    if isinstance(v, tuple):
        return tuple(strip_spans(x) for x in v)
    if isinstance(v, Rope):
        t = concretise(v)
        return t if t is not None else repr(v)
    if isinstance(v, Leaf):
        return "span" if v.name == "span" else v.name
    if isinstance(v, (PairV, SpanV)):
        return "span"
    return v


def first_diff(a, b, path="ast"):
    if type(a) != type(b):
        return "%s: %r vs %r" % (path, a, b)
    if isinstance(a, tuple):
        if len(a) != len(b):
            return "%s: %d vs %d items: %r vs %r" % (path, len(a), len(b), a, b)
        for i, (x, y) in enumerate(zip(a, b)):
            d = first_diff(x, y, "%s.%s" % (path, (a[0] if i and isinstance(a[0], str) else "") + str(i)))
            if d:
                return d
        return None
    return None if a == b else "%s: %r vs %r" % (path, a, b)
