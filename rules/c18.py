"""C18 The compiler is total: it never panics or hangs -- panic census, loop and recursion inventory.

Entry set -> reachable functions over the MIR call graph (dyn calls expanded to all local
impls).  In every reachable function each construct that can panic is a *site*; a site must be
discharged by a recognised guard (same-function structural argument) or by an entry of the
reviewed table rules/c18_sites.json (function, kind, construct text, reason).  Everything else is
a violation.  Loops: every non-`for` loop needs a counter-bounded exit or a reviewed variant.
Recursion: inventory with the measure that decreases.  Stack depth and running time are NOT decided.
"""
import json
import flow
import os
import re
from facts import norm, base_ty, walk, strip, sexp
from flow import LocalFlow, pat_binds, free_locals
import mirlib

HERE = os.path.dirname(os.path.abspath(__file__))
TABLE = os.path.join(HERE, "c18_sites.json")
INT_TYPES = {"i8", "i16", "i32", "i64", "i128", "isize", "u8", "u16", "u32", "u64", "u128", "usize"}

ENTRIES_EXACT = {
    "RoocParser::new", "RoocParser::parse", "RoocParser::format", "RoocParser::type_check", "RoocParser::parse_and_transform",
    "parser::pre_model::PreModel::create_type_checker", "parser::pre_model::PreModel::transform", "parser::pre_model::PreModel::type_check",
    "transformers::linearizer::Linearizer::linearize", "transformers::linear_model::LinearModel::into_standard_form",
    "transformers::linear_model::LinearModel::to_lp_format", "transformers::standard_linear_model::StandardLinearModel::into_tableau",
    "solvers::simplex::tableau::Tableau::solve", "solvers::simplex::tableau::Tableau::step", "solvers::simplex::tableau::Tableau::solve_step_by_step",
    "solvers::milp_solver::solve_milp_lp_problem", "solvers::milp_solver::solve_milp_lp_problem_with", "solvers::auto_solver::auto_solver",
    "solvers::simplex::simplex_solver::solve_real_lp_problem_micro_lp", "solvers::simplex::simplex_solver::solve_real_lp_problem_slow_simplex",
    "solvers::clarabel::solve_real_lp_problem_clarabel", "pipe::pipe_runner::PipeRunner::run",
    "utils::CompilationError::to_string_from_source", "utils::CompilationError::to_error_string",
    "parser::model_transformer::transform_error::TransformError::trace_from_source",
    "parser::model_transformer::transform_error::TransformError::to_string_from_source",
}
DISPLAY_ENTRY_TYPES = ("LinearModel", "Model", "PreModel", "StandardLinearModel", "LinearizationError", "TransformError", "CompilationError", "SolverError", "Tableau", "OptimalTableau", "LpSolution")

PANIC_METHODS = {"unwrap": "unwrap", "expect": "unwrap", "unwrap_err": "unwrap", "expect_err": "unwrap"}
PANIC_VEC = {"remove", "swap_remove", "insert", "drain", "split_off", "split_at", "split_at_mut", "copy_from_slice", "clone_from_slice", "swap", "rotate_left", "rotate_right", "chunks", "chunks_exact", "windows", "step_by", "truncate"}
PANIC_MACROS = {"panic", "unreachable", "todo", "unimplemented", "assert", "assert_eq", "assert_ne"}


def entry_set(F):
    out = [p for p in F.mir if p in ENTRIES_EXACT or p.startswith("RoocSolver::")]
    for p in F.mir:
        m = re.match(r"^<(.+) as std::fmt::Display>::fmt$", p)
        if m and m.group(1).split("<")[0].rsplit("::", 1)[-1] in DISPLAY_ENTRY_TYPES:
            out.append(p)
    return sorted(set(out))


def parent_fn(F, path):
    """HIR function that contains a (closure) MIR body"""
    p = path
    while p not in F.fns and "::{closure" in p:
        p = p.rsplit("::{closure", 1)[0]
    return p if p in F.fns else None


def int_ty(F, node):
    t = F.ty(node)
    return t if t in INT_TYPES else None


def sites_of(F, f):
    """panic sites in the typed HIR of one function (closures inlined)"""
    out = []
    for n in walk(f["body"]):
        k = n.get("k")
        if k == "MCall":
            name = n["name"]
            c = norm(n.get("callee") or "")
            if name in PANIC_METHODS and ("option::Option" in c or "result::Result" in c):
                out.append(("unwrap", name, sexp(strip(n["recv"])), n))
            elif name in PANIC_VEC and ("vec::Vec" in c or "slice::" in c or "VecDeque" in c or "str::" in c or "Iterator::step_by" in c):
                out.append(("vecop", name, sexp(n), n))
            elif name in ("borrow", "borrow_mut") and "RefCell" in c:
                out.append(("refcell", name, sexp(n), n))
        elif k == "Index":
            out.append(("index", "[]", sexp(n), n))
        elif k == "Macro" and n.get("name") in PANIC_MACROS:
            out.append(("panic", n["name"], (n.get("snippet") or "")[:80], n))
        elif k == "Call" and "panicking::" in norm(n.get("callee") or ""):
            out.append(("panic", "panic", sexp(n)[:80], n))
        elif k in ("Binary", "AssignOp"):
            op = n["op"].rstrip("=") if k == "AssignOp" and n["op"] not in ("==", "<=", ">=", "!=") else n["op"]
            if op in ("+", "-", "*", "/", "%", "<<", ">>"):
                lhs = n["a"] if k == "Binary" else n["lhs"]
                ty = int_ty(F, lhs) if k == "AssignOp" else (int_ty(F, n) or int_ty(F, lhs))
                if ty:
                    a, b = strip(lhs), strip(n["b"] if k == "Binary" else n["rhs"])
                    if a.get("k") == "Lit" and b.get("k") == "Lit":
                        continue
                    out.append(("arith", op, sexp(n), n))
        elif k == "Unary" and n["op"] == "-":
            ty = int_ty(F, n)
            if ty and strip(n["a"]).get("k") != "Lit":
                out.append(("arith", "neg", sexp(n), n))
        elif k == "Cast":
            pass
    return out


# ---- guards ---------------------------------------------------------------------------------

def diverges(node):
    t = strip(node)
    if t.get("k") == "Block":
        items = list(t.get("stmts", []))
        last = t.get("e") or (items[-1].get("e") if items else None)
        if last is None:
            return False
        return diverges(last)
    return t.get("k") in ("Ret", "Break", "Continue") or (t.get("k") == "Macro" and t.get("name") in ("panic", "unreachable")) or (t.get("k") == "Call" and False)


def contains(node, target):
    return any(x is target for x in walk(node))


def mutated_in_before(block, coll, node):
    """is `coll` shrunk inside `block` before `node` (by line)?"""
    for x in walk(block):
        if x.get("k") == "MCall" and x is not node and x.get("l", 0) < node.get("l", 0) and x["name"] in ("remove", "pop", "clear", "truncate", "drain", "retain", "swap_remove") and sexp(strip(x["recv"])) == coll:
            return True
    return False


def mutated_in(node, text):
    """is the collection named `text` grown/shrunk inside node?"""
    for x in walk(node):
        if x.get("k") == "MCall" and x["name"] in ("push", "pop", "remove", "insert", "clear", "truncate", "retain", "swap_remove", "drain", "extend", "resize", "append", "push_front", "push_back", "pop_front") and sexp(strip(x["recv"])) == text:
            return True
        if x.get("k") == "Assign" and sexp(strip(x["lhs"])) == text:
            return True
    return False


class Guards:
    def __init__(self, F, f):
        self.F = F
        self.f = f
        self.body = f["body"]
        self.lf = LocalFlow(self.body)

    def enclosing(self, node, kind):
        return [x for x in walk(self.body) if x.get("k") == kind and contains(x, node) and x is not node]

    def range_loop_bound(self, idx_node):
        """if idx_node is a local bound by `for i in 0..E` / `(0..E).rev()` / `.enumerate()`, return
        ('range', E text) or ('enum', collection text)"""
        n = strip(idx_node)
        while n.get("k") == "Unary" and n["op"] == "*":
            n = strip(n["a"])
        if n.get("k") != "Path" or n.get("res") != "local":
            return None
        lid = n["id"]
        for lp in walk(self.body):
            if lp.get("k") == "For":
                binds = pat_binds(lp["pat"])
                if not any(i == lid for i, _ in binds):
                    continue
                it = strip(lp["iter"])
                t = sexp(it)
                m = re.match(r"^\(?std::ops::Range\{start: 0, end: (.*)\}\)?(\.rev\(\))?$", t)
                if m:
                    return ("range", m.group(1), lp)
                m = re.match(r"^(.*)\.iter(_mut)?\(\)\.enumerate\(\)(\.rev\(\))?$", t)
                if m and lp["pat"].get("k") == "PTuple" and pat_binds(lp["pat"]["pats"][0]) and pat_binds(lp["pat"]["pats"][0])[0][0] == lid:
                    return ("enum", m.group(1).lstrip("&"), lp)
                m = re.match(r"^(.*)\.into_iter\(\)\.enumerate\(\)$", t)
                if m and lp["pat"].get("k") == "PTuple" and pat_binds(lp["pat"]["pats"][0]) and pat_binds(lp["pat"]["pats"][0])[0][0] == lid:
                    return ("enum", m.group(1).lstrip("&"), lp)
            if lp.get("k") == "Closure":
                # |(i, x)| over coll.iter().enumerate()
                for mc in walk(self.body):
                    if mc.get("k") == "MCall" and mc.get("args") and strip(mc["args"][0]) is lp:
                        rt = sexp(strip(mc["recv"]))
                        m = re.match(r"^(.*)\.iter(_mut)?\(\)\.enumerate\(\)", rt)
                        if m and lp["params"] and lp["params"][0].get("k") == "PTuple":
                            b0 = pat_binds(lp["params"][0]["pats"][0])
                            if b0 and b0[0][0] == lid:
                                return ("enum", m.group(1).lstrip("&"), lp)
        return None

    def len_alias(self, text):
        """`n` where `let n = X.len()` -> 'X.len()'"""
        for s in walk(self.body):
            if s.get("k") == "Let" and s.get("init") is not None and sexp(s["pat"]) == text:
                return sexp(s["init"])
        return text

    def after_diverging_if(self, n, pred):
        """an earlier `if <cond> { ..diverges.. }` whose condition satisfies pred(text)"""
        line = n.get("l", 0)
        for i in walk(self.body):
            if i.get("k") == "If" and i.get("l", 0) <= line and not contains(i, n) and diverges(i["then"]):
                parts = [x.replace("(", "").replace(")", "").strip() for x in re.split(r"\|\|", sexp(strip(i["cond"])))]
                if any(pred(x) for x in parts):
                    return sexp(strip(i["cond"]))[:80]
        return None

    def index_guard(self, n):
        a, i = strip(n["a"]), strip(n["i"])
        coll = sexp(a).lstrip("&")
        if sexp(i) == "ops::RangeFull{}":
            return "full-range slice `[..]` cannot fail"
        if i.get("k") == "Lit" and i.get("lk") == "int":
            k = int(i["v"])
            cp = coll.replace("(", "").replace(")", "")
            g = self.after_diverging_if(n, lambda x: x == cp + ".is_empty" or (re.match(r"^%s\.len (<|!=) (\d+)$" % re.escape(cp), x) is not None and int(re.match(r".* (\d+)$", x).group(1)) > k))
            if g:
                return "constant index %d after `if %s { return }`" % (k, g)
            for w in self.enclosing(n, "While"):
                if sexp(strip(w["cond"])).replace(" ", "") == ("!" + coll + ".is_empty()").replace(" ", "") and k == 0:
                    return "inside `while !%s.is_empty()`" % coll
        # constant index after a length check, or map indexing (IndexMap / HashMap with key) is not handled here
        rb = self.range_loop_bound(i)
        if rb:
            kind, bound, lp = rb
            bound = self.len_alias(bound)
            if kind == "range" and bound.replace(" ", "") == (coll + ".len()").replace(" ", "") and not mutated_in(lp["body"], coll):
                return "index variable ranges over 0..%s.len()" % coll
            if kind == "enum" and bound == coll and not mutated_in(lp["body"], coll):
                return "index comes from %s.iter().enumerate()" % coll
        # i < v.len() in an enclosing if
        for cnd in self.enclosing(n, "If"):
            c = sexp(strip(cnd["cond"])).replace(" ", "")
            if contains(cnd["then"], n) and ("(%s<%s.len())" % (sexp(i), coll)).replace(" ", "") in c:
                return "guarded by %s < %s.len()" % (sexp(i), coll)
        return None

    def unwrap_guard(self, n):
        recv = sexp(strip(n["recv"]))
        line = n.get("l", 0)
        rp = recv.replace("(", "").replace(")", "")
        g = self.after_diverging_if(n, lambda x: x in (rp + ".is_none", rp + ".is_err"))
        if g:
            return "after `if %s { return }`" % g
        for i in walk(self.body):
            if i.get("k") == "If" and i["cond"].get("k") == "LetExpr" and i.get("l", 0) <= line and not contains(i, n) and diverges(i["then"]):
                pt = sexp(i["cond"]["pat"])
                if sexp(strip(i["cond"]["init"])) == recv and (pt.startswith("Result::Err") or pt.endswith("None")):
                    return "after `if let %s = %s { return }`" % (pt, recv)
        for i in self.enclosing(n, "If"):
            c = sexp(strip(i["cond"])).replace(" ", "")
            m0 = re.match(r"^(.*)\.(first|last)\(\)$", recv)
            if m0 and contains(i["then"], n) and c == "!" + m0.group(1).replace(" ", "") + ".is_empty()":
                return "inside `if !%s.is_empty()`" % m0.group(1)
        for i in walk(self.body):
            if i.get("k") != "If":
                continue
            c = sexp(strip(i["cond"])).replace(" ", "")
            r = recv.replace(" ", "")
            if contains(i["then"], n) and (c == r + ".is_some()" or c == r + ".is_ok()" or c.startswith("(" + r + ".is_some()&&") or ("&&" + r + ".is_some()") in c):
                return "inside `if %s.is_some()/is_ok()`" % recv
            if i.get("else") and contains(i["else"], n) and c in (r + ".is_none()", r + ".is_err()"):
                return "in the else branch of `if %s.is_none()`" % recv
            if i.get("l", 0) < line and not contains(i, n) and diverges(i["then"]) and c in (r + ".is_none()", r + ".is_err()", "(" + r + ".is_none())"):
                return "after `if %s.is_none() { return }`" % recv
        # `last().copied().unwrap()` / `last().unwrap()` on a vector that was pushed to unconditionally just before
        m = re.match(r"^(.*)\.last\(\)(\.copied\(\))?$", recv)
        if m:
            coll = m.group(1)
            for x in walk(self.body):
                if x.get("k") == "MCall" and x["name"] == "push" and sexp(strip(x["recv"])) == coll and x.get("l", 0) <= line:
                    return "%s received an unconditional push before" % coll
        # `it.next().unwrap()` where `let mut it = coll.into_iter()` and an earlier `if coll.len() < K { return }` with
        # K larger than the number of items taken from `it` before this one
        m = re.match(r"^(\w+)\.next\(\)$", recv)
        if m:
            it = m.group(1)
            src = None
            for s_ in walk(self.body):
                if s_.get("k") == "Let" and s_.get("init") is not None and sexp(s_["pat"]).replace("mut ", "") == it:
                    mm = re.match(r"^(.*)\.(into_iter|iter|drain\(ops::RangeFull\{\}\))\(?\)?$", sexp(strip(s_["init"])))
                    if mm:
                        src = mm.group(1).lstrip("&")
            if src:
                taken = sum(1 for x in walk(self.body) if x.get("k") == "MCall" and x["name"] in ("next", "nth", "skip", "take", "by_ref", "find", "position", "last", "fold", "for_each", "collect", "map", "filter") and sexp(strip(x["recv"])) == it and (x.get("l", 0) < line))
                sp = src.replace("(", "").replace(")", "")
                g = self.after_diverging_if(n, lambda x: x == sp + ".is_empty" or (re.match(r"^%s\.len < (\d+)$" % re.escape(sp), x) is not None and int(x.rsplit(" ", 1)[1]) > taken) or (re.match(r"^%s\.len (==|<=) (\d+)$" % re.escape(sp), x) is not None and False))
                if g and not (g == sp + ".is_empty" and taken > 0):
                    return "item %d of an iterator over %s, after `if %s { return }`" % (taken + 1, src, g)
        # contains_key(k) then get_mut(k).unwrap()
        m = re.match(r"^(.*)\.(get|get_mut)\((.*)\)$", recv)
        if m:
            for i in self.enclosing(n, "If"):
                c = sexp(strip(i["cond"]))
                if contains(i["then"], n) and "%s.contains_key(%s)" % (m.group(1), m.group(3)) in c:
                    return "inside `if %s.contains_key(..)`" % m.group(1)
        return None

    def arith_guard(self, n):
        k = n.get("k")
        op = n["op"]
        a = strip(n["a"] if k == "Binary" else n["lhs"])
        b = strip(n["b"] if k == "Binary" else n["rhs"])
        t = sexp(n)
        if op in ("+", "+=") and b.get("k") == "Lit" and b.get("v") in ("1", "2"):
            rb = self.range_loop_bound(a)
            if rb:
                return "loop index below a collection length: + %s cannot overflow" % b["v"]
            at = sexp(a)
            if at.endswith(".len()") or self.len_alias(at).endswith(".len()"):
                return "a collection length + %s cannot overflow usize" % b["v"]
        if op in ("+", "+=") and b.get("k") == "Lit" and b.get("v") == "1" and (self.F.ty(a) or "").lstrip("&mut ").strip() in ("usize", "u64"):
            # one more step of a 64-bit step counter: 2^64 steps are not reachable
            return "a 64-bit unsigned counter incremented by one"
        if op == "+" and sexp(a).endswith(".len()") and sexp(b).endswith(".len()"):
            return "the sum of two collection lengths cannot overflow usize"
        if op in ("-", "-=") and b.get("k") == "Lit" and b.get("v") == "1":
            at = sexp(a)
            base = at[:-len(".len()")] if at.endswith(".len()") else None
            if base:
                for i in walk(self.body):
                    if i.get("k") == "If" and diverges(i["then"]) and i.get("l", 0) <= n.get("l", 0) and (base + ".is_empty()") in sexp(i["cond"]):
                        return "after `if %s.is_empty() { return }`" % base
        return None


def guard_present(f, node, guard):
    """`guard` (text, blanks ignored) is the condition of an enclosing if / match-arm guard / while, the
    pattern of an enclosing match arm (`arm:<pattern text>`), or part of the condition of an
    earlier diverging `if` (`before:<text>`)"""
    g = guard.replace(" ", "")
    body = f["body"]
    if g.startswith("before:"):
        g = g[len("before:"):]
        for i in walk(body):
            if i.get("k") == "If" and i.get("l", 0) <= node.get("l", 0) and not contains(i, node) and diverges(i["then"]) and g in sexp(strip(i["cond"])).replace(" ", ""):
                return True
        return False
    if g.startswith("arm:"):
        g = g[len("arm:"):]
        for m in walk(body):
            if m.get("k") == "Match":
                for arm in m["arms"]:
                    if contains(arm["body"], node) and g in sexp(arm["pat"]).replace(" ", ""):
                        return True
        return False
    for i in walk(body):
        if i.get("k") == "If" and contains(i["then"], node) and g in sexp(strip(i["cond"])).replace(" ", ""):
            return True
        if i.get("k") == "While" and contains(i["body"], node) and g in sexp(strip(i["cond"])).replace(" ", ""):
            return True
        if i.get("k") == "Match":
            for arm in i["arms"]:
                if arm.get("guard") is not None and contains(arm["body"], node) and g in sexp(strip(arm["guard"])).replace(" ", ""):
                    return True
    return False


GENERIC_HELPER_PREFIXES = ("utils::", "math::")
USER_DATA_TYPES = re.compile(r"\bstr\b|String|InputSpan|Spanned|Primitive|PreExp|\bExp\b|Pair<|Pairs<|Iterable|Graph|Tuple|CompilationError|TransformError|char\b")


def handles_user_data(F, f, p):
    """a free helper of the generic modules (utils, math) is in the layer that handles user text / user data directly only
    when its signature says so (a string, a span, a primitive, an expression, an error to render); a container helper
    such as `remove_many<T>(&mut Vec<T>, &[usize])` works for the layers that call it"""
    if not p.startswith(GENERIC_HELPER_PREFIXES):
        return True
    tys = [F.types[t] for t in list(f.get("inputs", [])) + ([f["output"]] if isinstance(f.get("output"), int) else []) if isinstance(t, int) and 0 <= t < len(F.types)]
    if not tys:
        return True
    return any(USER_DATA_TYPES.search(t or "") for t in tys)


def erase_idents(text):
    """the construct with field / local names erased: identifiers that are not called (no `(` after them), not `self`,
    not a path segment before `::` and not a number are replaced by `_`"""
    def rep(m):
        w = m.group(0)
        end = m.end()
        rest = text[end:end + 2]
        if w in ("self", "Self", "true", "false", "as", "mut", "usize", "f64", "i64", "u64", "i32", "u32") or rest.startswith("(") or rest.startswith("::") or text[max(0, m.start() - 2):m.start()] == "::":
            return w
        return "_"
    return re.sub(r"[A-Za-z_][A-Za-z0-9_]*", rep, text)


def guard_present_erased(f, node, guard):
    """guard_present with the identifiers of the guard text and of the code erased (a renamed field in both)"""
    if guard_present(f, node, guard):
        return True
    kind = ""
    g = guard
    for pre in ("before:", "arm:"):
        if g.startswith(pre):
            kind, g = pre, g[len(pre):]
    ge = erase_idents(g).replace(" ", "")
    body = f["body"]
    if kind == "before:":
        return any(i.get("k") == "If" and i.get("l", 0) <= node.get("l", 0) and not contains(i, node) and diverges(i["then"]) and ge in erase_idents(sexp(strip(i["cond"]))).replace(" ", "") for i in walk(body))
    if kind == "arm:":
        return guard_present(f, node, guard)
    for i in walk(body):
        if i.get("k") == "If" and contains(i["then"], node) and ge in erase_idents(sexp(strip(i["cond"]))).replace(" ", ""):
            return True
        if i.get("k") == "While" and contains(i["body"], node) and ge in erase_idents(sexp(strip(i["cond"]))).replace(" ", ""):
            return True
    return False


HIGH_RISK_PREFIXES = ("parser::", "primitives::", "runtime_builtin::", "type_checker::", "utils::", "math::", "traits::")


def is_str_ty(F, node):
    a = node.get("a") if isinstance(node, dict) else None
    t = (F.ty(a) or "") if isinstance(a, dict) else ""
    return t.replace("&", "").replace("mut ", "").strip() in ("str", "std::string::String", "alloc::string::String")


def load_table():
    if not os.path.exists(TABLE):
        return {}
    d = json.load(open(TABLE))
    out = {}
    for e in d["sites"]:
        out.setdefault((e["fn"], e["kind"], e["text"]), []).append(e)
    return out


def check(F, R, tier, dump=None):
    cg = mirlib.CallGraph(F)
    entries = entry_set(F)
    reach = cg.reachable(entries)
    local = sorted(r for r in reach if r in F.mir)
    fns = sorted({parent_fn(F, r) for r in local} - {None})
    R.count("C.entries", len(entries))
    R.count("C.reachable-bodies", len(local))
    R.count("C.functions", len(fns))
    R.table("entry_points", entries)
    # MIR cross-census (what the compiler says can panic), to size the HIR census against
    mir_n = 0
    for r in local:
        for blk in F.mir[r]["blocks"]:
            t = blk["term"]
            if t["k"] == "Assert" and t["ak"] in ("Overflow", "OverflowNeg", "DivisionByZero", "RemainderByZero", "BoundsCheck"):
                mir_n += 1
            if t["k"] == "Call":
                c = mirlib.callee(t) + " " + norm(t.get("fn") or "")
                if any(x in c for x in ("Option::unwrap", "Option::expect", "Result::unwrap", "Result::expect", "panicking::", "Index::index", "IndexMut::index_mut")):
                    mir_n += 1
    R.count("C.mir-panic-terminators", mir_n)
    table = load_table()
    by_text = {}
    for (fn_, kind_, text_), ents_ in table.items():
        for e_ in ents_:
            by_text.setdefault((kind_, text_), []).append(dict(e_, fn=fn_))
    used = {}
    renamed_used = {}
    todo = []
    n_sites = n_guard = n_table = 0
    for p in fns:
        f = F.fns[p]
        if "body" not in f:
            continue
        R.fn(p)
        G = None
        counts = {}
        for kind, sub, text, node in sites_of(F, f):
            n_sites += 1
            if G is None:
                G = Guards(F, f)
            why = None
            if kind == "index":
                why = G.index_guard(node)
            elif kind == "unwrap":
                why = G.unwrap_guard(node)
            elif kind == "arith" and sub != "neg":
                why = G.arith_guard(node)
            elif kind == "vecop" and sub == "remove" and sexp(strip(node["args"][0])) == "0":
                coll = sexp(strip(node["recv"]))
                g = G.after_diverging_if(node, lambda x: x == coll.replace("(", "").replace(")", "") + ".is_empty")
                if g:
                    why = "remove(0) after `if %s { return }`" % g
                for w in G.enclosing(node, "While"):
                    if sexp(strip(w["cond"])).replace(" ", "") == ("!" + coll + ".is_empty()").replace(" ", ""):
                        why = "remove(0) inside `while !%s.is_empty()`" % coll
                for i_ in G.enclosing(node, "If"):
                    c_ = sexp(strip(i_["cond"])).replace(" ", "").strip("()")
                    cp_ = coll.replace(" ", "")
                    if contains(i_["then"], node) and (c_ == "!" + cp_ + ".is_empty()" or re.fullmatch(re.escape(cp_) + r"\.len\(\)(==|>=)[1-9]\d*", c_) or re.fullmatch(re.escape(cp_) + r"\.len\(\)>\d+", c_)) and not mutated_in_before(i_["then"], coll, node):
                        why = "remove(0) inside `if %s`" % c_
            text_n = re.sub(r"\s+", " ", text)[:140]
            if why:
                n_guard += 1
                R.ob("C-GUARD", "%s|%s|%s" % (p, kind, text_n), True, F.loc(f, node), "discharged by guard: " + why)
                continue
            key = (p, kind, text_n)
            counts[key] = counts.get(key, 0) + 1
            ents = table.get(key, [])
            quota = sum(e.get("count", 1) for e in ents)
            if counts[key] > quota:
                # the same construct reviewed under another function (code moved into / out of a helper, a renamed
                # function), or more often in this function than reviewed (a duplicated branch): the review of the
                # construct itself carries over when it does not lean on a guard of its old surroundings
                # an entry that leans on a guard carries over when that guard is found around the new site as well
                moved = [e for e in by_text.get((kind, text_n), []) if all(guard_present(f, node, g_) for g_ in e.get("requires", []))]
                if not moved:
                    # the same function with a private field / local renamed: the construct with its identifiers erased
                    # (method names and `self` kept) is one that was reviewed in this very function, guards included
                    er = erase_idents(text_n)
                    for (fn_, kind_, t_), ents_ in table.items():
                        if fn_ == p and kind_ == kind and erase_idents(t_) == er and renamed_used.get((fn_, kind_, t_), 0) < sum(e_.get("count", 1) for e_ in ents_):
                            if all(guard_present_erased(f, node, g_) for e_ in ents_ for g_ in e_.get("requires", [])):
                                renamed_used[(fn_, kind_, t_)] = renamed_used.get((fn_, kind_, t_), 0) + 1
                                used[(fn_, kind_, t_)] = True
                                moved = [dict(ents_[0], fn=fn_ + " (identifiers renamed)")]
                                break
                if moved:
                    n_table += 1
                    R.ob("C-TABLE", "%s|%s|%s#moved%d" % (p, kind, text_n, counts[key]), True, F.loc(f, node), "reviewed (in %s): %s" % (moved[0]["fn"].rsplit("::", 1)[-1], moved[0]["reason"]))
                    continue
            if counts[key] <= quota:
                used[key] = True
                # a reviewed entry may name the guard it relies on: it must still be there
                missing = [g for g in ents[0].get("requires", []) if not guard_present(f, node, g)]
                if missing:
                    todo.append({"fn": p, "kind": kind, "text": text_n, "line": node.get("l"), "file": f.get("file")})
                    R.ob("C-PANIC", "%s|%s|%s" % (p, kind, text_n), False, F.loc(f, node),
                         "the reviewed entry for `%s` relies on the guard `%s`, which is no longer found around the site: the construct can panic" % (text_n, missing[0]))
                    continue
                n_table += 1
                R.ob("C-TABLE", "%s|%s|%s#%d" % (p, kind, text_n, counts[key]), True, F.loc(f, node), "reviewed: " + ents[0]["reason"])
            else:
                todo.append({"fn": p, "kind": kind, "text": text_n, "line": node.get("l"), "file": f.get("file")})
                # an unreviewed construct is a candidate, not a proof.  It is reported as a violation where user text
                # and user data are handled directly (parser, evaluation of expressions, builtin functions, error
                # rendering) or when it is a panic!/todo!/byte-offset string slice anywhere; in the layers that work on
                # compiled models (transformers, solvers, builder, pipes) indexing and unwrapping rest on structural
                # invariants of those models that this rule cannot see, so the site stays undecided there
                risky_place = (p.startswith(HIGH_RISK_PREFIXES) or any(("<" + x) in p or (" " + x) in p for x in HIGH_RISK_PREFIXES)) and handles_user_data(F, f, p)
                risky_kind = kind in ("panic", "strslice") or (kind == "arith" and sub in ("neg",)) or (kind == "index" and ("ops::Range" in text_n and is_str_ty(F, node)))
                R.ob("C-PANIC", "%s|%s|%s" % (p, kind, text_n), False, F.loc(f, node),
                     "reachable construct that can panic (%s %s) `%s` is neither discharged by a recognised guard nor listed in the reviewed table" % (kind, sub, text_n), undecided=not (risky_place or risky_kind))
    R.count("C.sites", n_sites)
    R.count("C.discharged-by-guard", n_guard)
    R.count("C.discharged-by-table", n_table)
    stale = [k for k in table if k not in used]
    R.notes.append("reviewed-table entries not matched by any reachable site (stale, harmless): %d" % len(stale))
    if dump:
        json.dump(todo, open(dump, "w"), indent=1)
    loops_and_recursion(F, R, fns, cg, reach)


def loops_and_recursion(F, R, fns, cg, reach):
    n_loops = 0
    for p in fns:
        f = F.fns[p]
        if "body" not in f:
            continue
        for n in walk(f["body"]):
            if n.get("k") in ("While", "Loop"):
                n_loops += 1
                t = sexp(n)
                why = None
                body = n["body"]
                if n.get("k") == "While":
                    c = strip(n["cond"])
                    ct = sexp(c)
                    if c.get("k") == "Binary" and c["op"] == "<":
                        ctr = sexp(strip(c["a"]))
                        incr = lambda x, ctr=ctr: x.get("k") == "AssignOp" and x["op"] == "+=" and sexp(strip(x["lhs"])) == ctr
                        if any(incr(x) for x in walk(body)):
                            # path-sensitive: every path to a back edge increments the counter
                            miss = flow.loop_progress(body, incr)
                            if not miss:
                                why = "counter `%s` is incremented on every path to a back edge and tested against `%s`" % (ctr, sexp(strip(c["b"])))
                            else:
                                R.ob("L", "%s|%s:every-path" % (p, ctr), False, F.loc(f, n), "counter `%s` is not incremented on the path(s) to %s" % (ctr, miss))
                    if c.get("k") == "LetExpr":
                        it = sexp(strip(c["init"]))
                        m = re.match(r"^(.*)\.(pop|pop_front|next)\(\)$", it)
                        if m:
                            coll = m.group(1)
                            grows = [x for x in walk(body) if x.get("k") == "MCall" and x["name"] in ("push", "push_back", "push_front", "extend", "insert") and sexp(strip(x["recv"])) == coll]
                            if not grows:
                                why = "consumes `%s`, which the body never grows" % coll
                            else:
                                why = None
                key = "%s|%s" % (p, re.sub(r"\s+", " ", sexp(n.get("cond")) if n.get("cond") else "loop")[:80])
                if why:
                    R.ob("L", key, True, F.loc(f, n), "bounded: " + why)
                else:
                    ent = LOOP_TABLE.get("_".join(key.split()))
                    if ent is None:
                        # the same loop under another function name (moved into a helper)
                        tail = "_".join(key.split()).split("|", 1)[1]
                        cands = [v for k_, v in LOOP_TABLE.items() if k_.split("|", 1)[-1] == tail]
                        if len(cands) == 1:
                            ent = cands[0]
                    spec = []
                    if isinstance(ent, dict):
                        spec = ent.get("progress", [])
                        ent = ent["why"]
                    risky_place = p.startswith(HIGH_RISK_PREFIXES) or any(("<" + x) in p or (" " + x) in p for x in HIGH_RISK_PREFIXES)
                    R.ob("L", key, ent is not None, F.loc(f, n), ("reviewed: " + ent) if ent else "loop without a recognised bound and not in the reviewed loop table", undecided=not risky_place)
                    for sp in spec:
                        kind, _, place = sp.partition(":")
                        if kind == "assign":
                            pr = lambda x, place=place: x.get("k") == "Assign" and sexp(strip(x["lhs"])) == place
                        elif kind == "incr":
                            pr = lambda x, place=place: x.get("k") == "AssignOp" and x["op"] == "+=" and sexp(strip(x["lhs"])) == place
                        else:
                            recv, _, meth = place.rpartition(".")
                            pr = lambda x, recv=recv, meth=meth: x.get("k") == "MCall" and x["name"] == meth and sexp(strip(x["recv"])) == recv
                        present = any(pr(x) for x in walk(body))
                        miss = flow.loop_progress(body, pr) if present else [("no such statement", None)]
                        R.ob("L", key + ":" + sp, not miss, F.loc(f, n), "the reviewed bound relies on `%s` on every iteration; %s" % (sp, ("missing on the path(s) to %s" % miss) if miss else "it is executed on every path to a back edge"))
    R.count("L.loops", n_loops)
    # recursion inventory: strongly connected functions in the reachable call graph
    rec = []
    for p in sorted(r for r in reach if r in F.mir):
        if p in cg.edges.get(p, ()):
            rec.append(p)
    R.table("directly_recursive_functions", rec)
    for p in rec:
        ent = REC_TABLE.get(p)
        pf = parent_fn(F, p)
        auto = None
        f = F.fns.get(pf) if pf else None
        if f is not None and "body" in f and ent is None:
            # structural descent: every recursive call's receiver/first argument is a pattern binding of a
            # match on self / the first parameter (a sub-tree)
            auto = structural_descent(F, f, p)
        R.ob("R", p, ent is not None or bool(auto), F.loc(f) if f else "", ("reviewed: " + ent) if ent else (auto or "recursive function without a recognised decreasing measure"))
    R.count("R.recursive", len(rec))
    # mutual recursion: strongly connected components of the reachable call graph
    nodes = sorted(r for r in reach if r in F.mir)
    comps = sccs(nodes, lambda v: [w for w in cg.edges.get(v, ()) if w in F.mir])
    inv = []
    for comp in comps:
        parents = {parent_fn(F, x) for x in comp}
        rep = sorted(x for x in comp if "{closure" not in x)
        rep = rep[0] if rep else sorted(comp)[0]
        inv.append({"representative": rep, "size": len(comp)})
        if len(parents) == 1:
            # a function and its own closures: covered by the direct-recursion entry of that function
            R.ob("R-SCC", rep, rep in rec or any(x in rec for x in comp), "", "cycle between a function and its closures without a recursion entry")
        else:
            ent = SCC_TABLE.get(rep)
            if ent is None:
                for x in sorted(comp):
                    ent = ent or SCC_TABLE.get(x) or REC_TABLE.get(x) or (structural_descent(F, F.fns[parent_fn(F, x)], x) if parent_fn(F, x) in F.fns and "body" in F.fns[parent_fn(F, x)] and x in cg.edges.get(x, ()) else None)
            known_member = any(x in REC_TABLE or x in SCC_TABLE or x in rec for x in comp)
            R.ob("R-SCC", rep, ent is not None, "", ("reviewed: " + ent) if ent else "mutually recursive group %s without a reviewed decreasing measure" % sorted(comp)[:6], undecided=known_member)
    R.table("mutually_recursive_groups", inv)


def structural_descent(F, f, p):
    name = p.rsplit("::", 1)[-1].split("{")[0]
    calls = [n for n in walk(f["body"]) if n.get("k") in ("MCall", "Call") and (norm(n.get("resolved") or n.get("callee") or "") == norm(p) or (n.get("k") == "MCall" and n["name"] == name and norm(n.get("callee") or "").endswith("::" + name)))]
    if not calls:
        return None
    lf = LocalFlow(f["body"])
    params = {n["id"] for prm in f.get("params", []) for n in walk(prm) if n.get("k") == "PBind"}
    binds = set()
    for m in walk(f["body"]):
        if m.get("k") == "Match":
            for arm in m["arms"]:
                for i, _ in pat_binds(arm["pat"]):
                    binds.add(i)
        if m.get("k") in ("For",):
            for i, _ in pat_binds(m["pat"]):
                binds.add(i)
        if m.get("k") == "Closure":
            for prm in m["params"]:
                for i, _ in pat_binds(prm):
                    binds.add(i)
        if m.get("k") == "If" and m["cond"].get("k") == "LetExpr":
            for i, _ in pat_binds(m["cond"]["pat"]):
                binds.add(i)
    for c in calls:
        tgt = c["recv"] if c.get("k") == "MCall" else (c["args"][0] if c["args"] else None)
        if tgt is None:
            return None
        roots = free_locals(tgt)
        if not roots or not (roots <= binds):
            # a field of self (`self.inner`) is a sub-tree too
            t = sexp(strip(tgt))
            if not re.match(r"^\*?\*?self\.[a-z_]+", t):
                return None
    return "structural descent: every recursive call is on a sub-tree bound by a pattern (depth bounded by the input's nesting)"


def sccs(nodes, succ):
    """Tarjan, iterative; returns components with more than one member"""
    index = {}
    low = {}
    on = set()
    st = []
    out = []
    counter = [0]
    for root in nodes:
        if root in index:
            continue
        work = [(root, iter(succ(root)))]
        index[root] = low[root] = counter[0]
        counter[0] += 1
        st.append(root)
        on.add(root)
        while work:
            v, it = work[-1]
            adv = False
            for w in it:
                if w not in index:
                    index[w] = low[w] = counter[0]
                    counter[0] += 1
                    st.append(w)
                    on.add(w)
                    work.append((w, iter(succ(w))))
                    adv = True
                    break
                elif w in on:
                    low[v] = min(low[v], index[w])
            if adv:
                continue
            work.pop()
            if work:
                u = work[-1][0]
                low[u] = min(low[u], low[v])
            if low[v] == index[v]:
                comp = []
                while True:
                    w = st.pop()
                    on.discard(w)
                    comp.append(w)
                    if w == v:
                        break
                if len(comp) > 1:
                    out.append(comp)
    return out


LOOP_TABLE = {}
REC_TABLE = {}
SCC_TABLE = {}
_tab = os.path.join(HERE, "c18_loops.json")
if os.path.exists(_tab):
    _d = json.load(open(_tab))
    LOOP_TABLE = _d.get("loops", {})
    REC_TABLE = _d.get("recursion", {})
    SCC_TABLE = _d.get("scc", {})


def cast_sign(F, R, fns=None):
    """CAST-SIGN: `x as usize` (u64, u32) of a signed integer wraps a negative value to a huge one, which then sizes a
    range, an index or an allocation.  Every such cast must sit under a test that the value is not negative: in the `then`
    of an `if` one of whose conjuncts is `x >= 0` (`x > -1`, `0 <= x`), in the `else` of an `if` whose condition is (a
    disjunction containing) `x < 0`, or after an earlier diverging `if x < 0 { .. }`."""
    SIGNED = ("i64", "i32", "isize", "i128", "i16", "i8")
    UNSIGNED = ("usize", "u64", "u32", "u128", "u16", "u8")
    n = 0
    for f in F.fn_list:
        if "body" not in f or f.get("derived"):
            continue
        for x in walk(f["body"]):
            if not (isinstance(x, dict) and x.get("k") == "Cast" and isinstance(x.get("a"), dict)):
                continue
            to = (F.types[x["t"]] if isinstance(x.get("t"), int) and x["t"] < len(F.types) else "").strip()
            fr = (F.types[x["from"]] if isinstance(x.get("from"), int) and x["from"] < len(F.types) else "").strip()
            if to not in UNSIGNED or fr not in SIGNED:
                continue
            n += 1
            nrm = lambda t: re.sub(r"[\s()*&]", "", t)
            t = nrm(sexp(strip(x["a"])))
            if re.fullmatch(r"-?\d+(_?[iu]\d+|_?[iu]size)?", t):
                lit_ok = not t.startswith("-")
                R.ob("CAST-SIGN", "%s|%s" % (f["path"], t), lit_ok, F.loc(f, x), "literal %s cast to %s" % (t, to))
                continue
            nonneg = {t + ">=0", t + ">-1", "0<=" + t, "-1<" + t}
            negative = {t + "<0", t + "<=-1", "0>" + t, "-1>=" + t}
            why = None
            for i in walk(f["body"]):
                if not (isinstance(i, dict) and i.get("k") == "If"):
                    continue
                c_raw = sexp(strip(i["cond"]))
                c = re.sub(r"\s", "", c_raw)
                conj, disj = {nrm(z) for z in c_raw.split("&&")}, {nrm(z) for z in c_raw.split("||")}
                if contains(i["then"], x) and conj & nonneg:
                    why = "inside `if %s`" % sexp(strip(i["cond"]))[:60]
                elif i.get("else") is not None and contains(i["else"], x) and (disj & negative) and "&&" not in c:
                    why = "in the else branch of `if %s`" % sexp(strip(i["cond"]))[:60]
                elif not contains(i, x) and i.get("l", 0) <= x.get("l", 0) and diverges(i["then"]) and (disj & negative) and "&&" not in c:
                    why = "after the diverging `if %s`" % sexp(strip(i["cond"]))[:60]
                if why:
                    break
            risky = f["path"].startswith(HIGH_RISK_PREFIXES) or any(("<" + p_) in f["path"] or (" " + p_) in f["path"] for p_ in HIGH_RISK_PREFIXES)
            R.ob("CAST-SIGN", "%s|%s" % (f["path"], t), why is not None, F.loc(f, x),
                 ("`%s as %s`: %s" % (t, to, why)) if why else "`%s as %s` of a signed value is under no test that it is not negative: a negative value wraps to a huge one (a range of 2^64 elements, an index out of bounds)" % (t, to), undecided=not risky)
    R.count("CAST-SIGN.casts", n)


def unbounded_alloc(F, R):
    """a Range / RangeInclusive whose end-points come from `as_integer_cast` / `as_usize_cast` of call
    arguments and that is collected (or mapped and collected) must be dominated by a test of its length"""
    n = 0
    for f in F.fn_list:
        if "body" not in f or not f.get("file", "").startswith("src/runtime_builtin/"):
            continue
        lf = LocalFlow(f["body"])
        casts = {}
        for s in walk(f["body"]):
            if s.get("k") == "Let" and s.get("init") is not None and re.search(r"\.as_(integer|usize|number)_cast\(", sexp(s["init"])):
                for i, nm in pat_binds(s["pat"]):
                    casts[i] = nm
        if not casts:
            continue
        for x in walk(f["body"]):
            if x.get("k") == "MCall" and x["name"] == "collect":
                src = [y for y in walk(x["recv"]) if y.get("k") == "Struct" and ("ops::Range" in (y.get("path") or ""))] + [y for y in walk(x["recv"]) if y.get("k") == "Call" and "RangeInclusive::new" in norm(y.get("callee") or "")]
                if not src:
                    continue
                roots = set()
                for r_ in src:
                    roots |= lf.roots(r_, stop=set(casts))
                if not (roots & set(casts)):
                    continue
                n += 1
                R.fn(f["path"])
                # a preceding comparison of (to - from) / to with a constant that diverges
                guarded = False
                for i in walk(f["body"]):
                    if i.get("k") == "If" and i.get("l", 0) <= x.get("l", 0) and diverges(i["then"]) and re.search(r"(to|from).*(-|>|<).*", sexp(i["cond"])) and any(c.get("k") == "Lit" or (c.get("k") == "Path" and c.get("res") == "def") for c in walk(i["cond"])) and ("TooLarge" in sexp(i["then"]) or "OutOfBounds" in sexp(i["then"])):
                        guarded = True
                key = "%s|%s" % (f["path"], re.sub(r"\s+", "", sexp(src[0]))[:60])
                R.ob("UNBOUNDED-ALLOC", key, guarded, F.loc(f, x),
                     "a range whose end-points are user-chosen integers is collected into a vector without any bound on its length: `for i in 0..9223372036854775807` panics with 'capacity overflow' (smaller huge ranges abort on allocation)")
    R.count("UNBOUNDED-ALLOC.sites", n)
