"""C19 Type checking is sound -- the finite parts.

Decides: S-OPS (static can_apply_* true => the runtime operator arm cannot produce a type-class
OperatorError), S-RESULT (static result kind of arithmetic = kind built by the runtime arm),
ERR-KIND (data-dependent runtime errors are not converted into type-class TransformErrors),
S-ANY (every place the checker waves PrimitiveKind::Any through), D-SCOPE (checker scopes are
balanced).  Not decided: element types of iterables/tuples/graphs, user functions.
"""
from facts import norm, base_ty, walk, strip, sexp
from interp import Interp, Var, Rope, Sym, ListV, Unknown, is_unknown
from flow import pat_binds
import table

PK = "primitives::primitive::PrimitiveKind"
PR = "primitives::primitive::Primitive"
BINOP = "math::operators::BinOp"
UNOP = "math::operators::UnOp"
OPERR = "primitives::primitive_traits::OperatorError"
TE = "parser::model_transformer::transform_error::TransformError"
TYPE_CLASS_OPERR = {"incompatible_type", "unsupported_bin_operation", "unsupported_un_operation", "IncompatibleType", "UnsupportedBinOperation", "UnsupportedUnOperation", "UndefinedUse"}
DATA_OPERR = {"DivisionByZero", "Overflow", "division_by_zero", "overflow"}
TYPE_CLASS_TE = {"BinOpError", "UnOpError", "WrongArgument", "WrongExpectedArgument", "WrongFunctionSignature", "WrongNumberOfArguments", "Unspreadable", "SpreadError", "NonExistentFunction", "UndeclaredVariable",
                 "from_wrong_binop", "from_wrong_unop", "from_wrong_type", "from_wrong_argument"}
KINDS = ["Number", "Integer", "PositiveInteger", "Boolean", "String", "Graph", "GraphEdge", "GraphNode", "Tuple", "Iterable"]
NUMERIC = ["Number", "Integer", "PositiveInteger", "Boolean"]


def kind_val(k):
    if k in ("Tuple", "Iterable"):
        return Var(PK + "::" + k, [Sym("payload")])
    return Var(PK + "::" + k)


def prim_val(k):
    return Var(PR + "::" + k, [Sym("v_" + k)])


class Selector:
    """walks the decision structure (match / if / let) of an operator implementation on a
    symbolic operand pair and returns the leaf expression that computes the result"""

    def __init__(self, F, I):
        self.F = F
        self.I = I

    def select(self, path, args, depth=0):
        f = self.F.fns.get(path)
        if f is None or "body" not in f or depth > 6:
            return None, "no body for " + path
        env = {}
        for p, a in zip(f.get("params", []), args):
            if self.I.bind(p, a, env) is not True:
                return None, "cannot bind parameters of " + path
        node = f["body"]
        for _ in range(60):
            node = self._unblock(node, env)
            if node is None:
                return None, "statement not evaluable in " + path
            k = node.get("k")
            if k == "Match":
                v = self.I.ev(node["scrut"], env)
                chosen = None
                for arm in node["arms"]:
                    e2 = dict(env)
                    r = self.I.bind(arm["pat"], v, e2)
                    if r is None:
                        return None, "match on %r undecidable in %s" % (v, path)
                    if r:
                        if arm.get("guard") is not None:
                            g = self.I.ev(arm["guard"], e2)
                            if g is False:
                                continue
                            if g is not True:
                                return None, "guard undecidable in " + path
                        env = e2
                        chosen = arm
                        break
                if chosen is None:
                    return None, "no arm for %r in %s" % (v, path)
                node = chosen["body"]
                continue
            if k == "If":
                c = self.I.ev(node["cond"], env)
                if c is True:
                    node = node["then"]
                    continue
                if c is False and node.get("else"):
                    node = node["else"]
                    continue
                return None, "if undecidable in " + path
            if k == "MCall":
                callee = node.get("resolved") or node.get("callee") or ""
                g = self.F.fns.get(callee)
                if g is not None and g.get("impl_trait", "").endswith("ApplyOp") and node["name"] in ("apply_binary_op", "apply_unary_op"):
                    recv = self.I.ev(node["recv"], env)
                    a = [self.I.ev(x, env) for x in node["args"]]
                    return self.select(callee, [recv] + a, depth + 1)
            return (node, f), None
        return None, "selection did not terminate"

    def _unblock(self, node, env):
        while node.get("k") == "Block":
            for s in node.get("stmts", []):
                if s["k"] == "Let" and s.get("init") is not None:
                    v = self.I.ev(s["init"], env)
                    if self.I.bind(s["pat"], v, env) is not True:
                        return None
            if node.get("e") is None:
                return node
            node = node["e"]
        return node


def ctor_names(F, node, depth=0):
    """names of OperatorError constructors and Primitive variants a leaf expression can build,
    following local helper functions one level"""
    errs, prims = set(), set()
    for x in walk(node):
        p = None
        if x.get("k") == "Call":
            p = norm(x.get("resolved") or x.get("callee") or "")
        elif x.get("k") == "Path" and x.get("res") == "def":
            p = norm(x.get("path") or "")
        elif x.get("k") == "Struct":
            p = norm(x.get("path") or "")
        if not p:
            continue
        if p.startswith(OPERR + "::"):
            errs.add(p.rsplit("::", 1)[-1])
        elif p.startswith(PR + "::") and (x.get("dk") == "Variant"):
            prims.add(p.rsplit("::", 1)[-1])
        elif x.get("k") == "Call" and depth < 2 and p in F.fns and "body" in F.fns[p] and not p.startswith(OPERR):
            e2, p2 = ctor_names(F, F.fns[p]["body"], depth + 1)
            errs |= e2
            prims |= p2
    return errs, prims


def check(F, R):
    I = Interp(F)
    S = Selector(F, I)
    s_ops(F, R, I, S)
    s_result(F, R, I, S)
    err_kind(F, R)
    s_any(F, R)
    s_prim(F, R)
    s_arity(F, R)
    import c16
    c16.s_order(F, R)
    import c06
    n = c06.d_scope_use(F, R, rule="D-SCOPE-USE")
    R.ob("D-SCOPE-USE", "functions", n >= 4, "", "expected at least 4 type-checking functions that open one frame per iteration, found %d" % n, undecided=True)


def s_ops(F, R, I, S):
    can_b = PK + "::can_apply_binary_op"
    can_u = PK + "::can_apply_unary_op"
    app_b = "<%s as primitives::primitive_traits::ApplyOp>::apply_binary_op" % PR
    app_u = "<%s as primitives::primitive_traits::ApplyOp>::apply_unary_op" % PR
    for p in (can_b, can_u, app_b, app_u):
        R.fn(p)
    n_true = 0
    for k in KINDS:
        for op in F.variants(BINOP):
            for k2 in KINDS + ["Any", "Undefined"]:
                st = I.call_fn(can_b, [kind_val(k), Var(BINOP + "::" + op), kind_val(k2)])
                key = "%s %s %s" % (k, op, k2)
                if is_unknown(st):
                    R.ob("S-OPS", key, False, "packages/rooc/src/primitives/primitive.rs", "static table not evaluable: %s" % st.why)
                    continue
                if st is not True:
                    R.count("S-OPS.rejected")
                    continue
                n_true += 1
                if k2 in ("Any", "Undefined"):
                    R.ob("S-OPS", key, False, "packages/rooc/src/primitives/primitive.rs", "the checker accepts operand kind %s, which has no runtime representation that can succeed" % k2)
                    continue
                leaf, why = S.select(app_b, [prim_val(k), Var(BINOP + "::" + op), prim_val(k2)])
                if leaf is None:
                    R.ob("S-OPS", key, False, "packages/rooc/src/primitives/builtin_primitive_traits_impl.rs", "runtime arm not selectable: %s" % why)
                    continue
                node, g = leaf
                errs, prims = ctor_names(F, node)
                bad = errs & TYPE_CLASS_OPERR
                R.ob("S-OPS", key, not bad, F.loc(g, node), "the checker accepts `%s`, but the runtime arm `%s` can fail with the type-class error(s) %s" % (key, sexp(node)[:100], sorted(bad)))
    for k in KINDS:
        for op in F.variants(UNOP):
            st = I.call_fn(can_u, [kind_val(k), Var(UNOP + "::" + op)])
            key = "%s %s" % (op, k)
            if is_unknown(st):
                R.ob("S-OPS", key, False, "", "static table not evaluable: %s" % st.why)
                continue
            if st is not True:
                R.count("S-OPS.rejected")
                continue
            leaf, why = S.select(app_u, [prim_val(k), Var(UNOP + "::" + op)])
            if leaf is None:
                R.ob("S-OPS", key, False, "", "runtime arm not selectable: %s" % why)
                continue
            node, g = leaf
            errs, prims = ctor_names(F, node)
            bad = errs & TYPE_CLASS_OPERR
            R.ob("S-OPS", key, not bad, F.loc(g, node), "the checker accepts `%s`, but the runtime arm `%s` can fail with %s" % (key, sexp(node)[:100], sorted(bad)))
    R.notes.append("S-OPS: %d accepted (kind, op, kind) cells checked against their runtime arm" % n_true)


def s_result(F, R, I, S):
    """static result kind of lhs <op> rhs for numeric operands equals what the runtime arm builds"""
    PRE = "parser::il::il_exp::PreExp"
    gt = "<%s as type_checker::type_checker_context::WithType>::get_type" % PRE
    app_b = "<%s as primitives::primitive_traits::ApplyOp>::apply_binary_op" % PR
    R.fn(gt)
    SP = "utils::Spanned"
    sp = lambda v: Var(SP, fields={"value": v, "span": Sym("span")})
    for k in NUMERIC:
        for op in ("Add", "Sub", "Mul", "Div"):
            for k2 in NUMERIC:
                exp = Var(PRE + "::BinaryOperation", [sp(Var(BINOP + "::" + op)), Var(PRE + "::Primitive", [sp(prim_val(k))]), Var(PRE + "::Primitive", [sp(prim_val(k2))])])
                st = I.call_fn(gt, [exp, Sym("ctx"), Sym("fnctx")])
                key = "%s %s %s" % (k, op, k2)
                if not isinstance(st, Var):
                    R.ob("S-RESULT", key, False, "packages/rooc/src/parser/il/il_exp.rs", "static kind not evaluable: %r" % (st,))
                    continue
                skind = st.path.rsplit("::", 1)[-1]
                leaf, why = S.select(app_b, [prim_val(k), Var(BINOP + "::" + op), prim_val(k2)])
                if leaf is None:
                    R.ob("S-RESULT", key, False, "", "runtime arm not selectable: %s" % why)
                    continue
                node, g = leaf
                errs, prims = ctor_names(F, node)
                R.ob("S-RESULT", key, prims == {skind}, F.loc(g, node), "the checker types `%s` as %s, the runtime arm `%s` builds %s" % (key, skind, sexp(node)[:90], sorted(prims)))
    # unary
    for k in NUMERIC:
        exp = Var(PRE + "::UnaryOperation", [sp(Var(UNOP + "::Neg")), Var(PRE + "::Primitive", [sp(prim_val(k))])])
        st = I.call_fn(gt, [exp, Sym("ctx"), Sym("fnctx")])
        app_u = "<%s as primitives::primitive_traits::ApplyOp>::apply_unary_op" % PR
        leaf, why = S.select(app_u, [prim_val(k), Var(UNOP + "::Neg")])
        key = "Neg %s" % k
        if not isinstance(st, Var) or leaf is None:
            R.ob("S-RESULT", key, False, "", "not evaluable: %r / %s" % (st, why))
            continue
        node, g = leaf
        errs, prims = ctor_names(F, node)
        sk = st.path.rsplit("::", 1)[-1]
        # every consumer of a numeric value goes through the *_cast accessors, which accept all
        # numeric kinds: a numeric/numeric disagreement cannot surface as a type-class error, so it
        # is recorded, not reported (demanding equality here would ask more than C19 states)
        ok = prims == {sk} or (sk in NUMERIC and prims and prims <= set(NUMERIC))
        if prims != {sk}:
            R.notes.append("S-RESULT info: `-%s` is typed %s but the runtime arm builds %s (both numeric; not a soundness violation by itself)" % (k, sk, sorted(prims)))
        R.ob("S-RESULT", key, ok, F.loc(g, node), "the checker types `-%s` as %s, the runtime arm builds %s" % (k, sk, sorted(prims)))


def data_dependent_enums(F):
    out = {}
    for p, e in F.enums.items():
        names = {v["name"] for v in e["variants"]}
        if names & {"DivisionByZero", "Overflow", "OutOfBounds", "TooLarge"} and p != TE:
            out[p] = names
    return out


def err_kind(F, R):
    """`Err(_)` / variant-blind conversions of an error enum that has data-dependent variants into a
    type-class TransformError"""
    dd = data_dependent_enums(F)
    R.table("data_dependent_error_enums", {k: sorted(v) for k, v in dd.items()})
    n = 0
    for f in F.fn_list:
        if "body" not in f:
            continue
        for m in walk(f["body"]):
            if m.get("k") != "Match":
                continue
            ty = F.ty(m["scrut"]) or ""
            src = [e for e in dd if e in ty and ty.startswith("std::result::Result<")]
            if not src:
                continue
            covered = set()
            for arm in m["arms"]:
                for alt in table.pat_alternatives(arm["pat"]):
                    if alt.get("k") == "PTupleStruct" and norm(alt.get("path") or "").endswith("Result::Err"):
                        sub = table.pat_alternatives(alt["pats"][0]) if alt.get("pats") else []
                        blind = all(table.pat_head(s)[0] == "any" for s in sub)
                        if not blind:
                            if arm.get("guard") is None:
                                for s_ in sub:
                                    h = table.pat_head(s_)
                                    if h[0] == "variant":
                                        covered.add(h[1].rsplit("::", 1)[-1])
                            continue
                        # is the bound error examined in the body?
                        ids = {i for s in sub for i, _ in pat_binds(s)}
                        inner_match = any(x.get("k") == "Match" and strip(x["scrut"]).get("id") in ids for x in walk(arm["body"]))
                        if inner_match:
                            continue
                        remaining = (dd[src[0]] & {"DivisionByZero", "Overflow", "OutOfBounds", "TooLarge"}) - covered
                        built = set()
                        for x in walk(arm["body"]):
                            p = norm(x.get("resolved") or x.get("callee") or x.get("path") or "") if x.get("k") in ("Call", "Struct", "Path") else ""
                            if p.startswith(TE + "::"):
                                built.add(p.rsplit("::", 1)[-1])
                        tc = built & TYPE_CLASS_TE
                        n += 1
                        R.fn(f["path"])
                        R.ob("ERR-KIND", "%s:%s" % (f["path"], "+".join(sorted(built)) or "?"), not (tc and remaining), F.loc(f, arm["body"]),
                             "the data-dependent %s variant(s) %s reach a variant-blind `Err(_)` arm that builds the type-class error %s: `1 / 0` in a constant is reported as `operator \"/\" cannot be applied to Integer and Integer`" % (src[0].rsplit("::", 1)[-1], sorted(remaining), sorted(tc)))
    R.count("ERR-KIND.sites", n)


def s_any(F, R):
    """every construct by which the checker accepts PrimitiveKind::Any"""
    sites = []
    for f in F.fn_list:
        if "body" not in f:
            continue
        for n in walk(f["body"]):
            # match arms `PrimitiveKind::Any => true` in boolean-valued functions
            if n.get("k") == "Match" and (table.scrut_type(F, n) == PK):
                for arm in n["arms"]:
                    for alt in table.pat_alternatives(arm["pat"]):
                        h = table.pat_head(alt)
                        if h[0] == "variant" and h[1] == PK + "::Any" and sexp(strip(arm["body"])) == "true" and n.get("m") != "matches":
                            sites.append((f, arm["body"], "Any => true"))
            if n.get("k") == "MCall" and n["name"] == "is_any" and norm(n.get("callee") or "") == PK + "::is_any":
                sites.append((f, n, "is_any()"))
    import engine
    known = engine.load_known()
    n_known = sum(1 for (p_, r_, k_) in known if r_ == "S-ANY")
    seen = {}
    for f, n, what in sites:
        ctx = what
        if what == "is_any()":
            cond = None
            for i in walk(f["body"]):
                if i.get("k") == "If" and any(x is n for x in walk(i["cond"])):
                    cond = i["cond"]
            recv = sexp(strip(n["recv"]))
            ctx = "is_any():" + (sexp(cond) if cond is not None else recv).replace(" ", "")[:80]
        k = "%s:%s" % (f["path"], ctx)
        seen[k] = seen.get(k, 0) + 1
        if seen[k] > 1:
            k = "%s#%d" % (k, seen[k])
        R.fn(f["path"])
        # the escapes are a recorded design decision (known findings, keyed by function and condition).  When the code is
        # refactored the keys move; as long as there are not more escapes than recorded, an unlisted key is a moved one and
        # is left undecided -- a *further* escape is a violation
        moved = (R.prop, "S-ANY", "_".join(k.split())) not in known and len(sites) <= n_known
        R.ob("S-ANY", k, False, F.loc(f, n),
             "the checker accepts PrimitiveKind::Any here with no matching run-time guarantee (\"make it fail at runtime\"): e.g. `let a = [1, \"s\"]` ... `x >= a[1] * 2` type-checks and then fails in transform with WrongArgument", undecided=moved)
    R.count("S-ANY.sites", len(sites))


def s_prim(F, R):
    """S-PRIM: a PreExp variant whose compile-time evaluation (as_primitive) is an unconditional type-class error must not
    have a proper static kind, otherwise the checker accepts it in every position that evaluates its operand (range bounds,
    function arguments, indexes, constants) and the transformer rejects it there with WrongArgument"""
    ap = F.fn(PX + "::as_primitive") if "PX" in globals() else None
    if ap is None:
        ap = next((g for g in F.fn_list if g["path"].endswith("il_exp::PreExp::as_primitive")), None)
    gt = next((g for g in F.fn_list if g["path"].endswith("WithType>::get_type") and "il_exp::PreExp" in g["path"]), None)
    if not R.ob("S-PRIM", "anchor", ap is not None and gt is not None and "body" in ap and "body" in gt, "packages/rooc/src/parser/il/il_exp.rs", "PreExp::as_primitive and PreExp::get_type found"):
        return
    R.fn(ap["path"])
    R.fn(gt["path"])
    def arms_on_self(f):
        for m in walk(f["body"]):
            if m.get("k") == "Match" and sexp(strip(m["scrut"])) in ("self", "*self"):
                return m["arms"]
        return []
    def variants_of(pat):
        out = []
        for p in walk(pat):
            if p.get("k") in ("PTupleStruct", "PStruct", "PPath") and "PreExp::" in norm(p.get("path") or ""):
                out.append(norm(p["path"]).rsplit("::", 1)[-1])
        return out
    dead = []
    for arm in arms_on_self(ap):
        b = strip(arm["body"])
        while b.get("k") == "Block" and not b.get("stmts") and b.get("e") is not None:
            b = strip(b["e"])
        t = sexp(b)
        if t.startswith("Result::Err(") and ("WrongArgument" in t or "from_wrong_" in t):
            dead += variants_of(arm["pat"])
    R.count("S-PRIM.unevaluable-variants", len(dead))
    static = {}
    for arm in arms_on_self(gt):
        t = sexp(arm["body"])
        for v in variants_of(arm["pat"]):
            static[v] = [k for k in ("Number", "Boolean", "Integer", "PositiveInteger", "String", "Iterable") if "PrimitiveKind::" + k in t]
    for v in sorted(set(dead)):
        kinds = static.get(v)
        R.ob("S-PRIM", v, not kinds, F.loc(ap), "PreExp::%s can never be evaluated to a primitive (as_primitive is an unconditional WrongArgument error) but its static kind is %s: the checker accepts it wherever that kind is accepted" % (v, kinds))


def s_arity(F, R, side="both"):
    """S-ARITY: destructuring `(a, b, ..) in S`.  The run-time binder apply_tuple and the static guard of
    IterableSet::variable_types are evaluated from their HIR on every (number of names, number of components) pair up to
    5 x 5, with and without `_` placeholders: the binder binds the i-th name to the i-th component and fails exactly when
    there are more names than components; the static guard rejects exactly those cases (for element kinds whose arity is
    known: edges, tuples), so that what the checker accepts the binder can bind."""
    from interp import Interp, Var as V, Rope as Rp, ListV as LV, Leaf as Lf, is_unknown
    I = Interp(F, max_depth=120)
    SP = lambda s: V("utils::Spanned", fields={"value": Rp([s]), "span": Lf("span")})
    ap = "parser::recursive_set_resolver::apply_tuple"
    bound = []
    I.models["parser::model_transformer::transformer_context::TransformerContext::update_variable"] = lambda I_, a: (bound.append(((a[1].fields["value"].text() if isinstance(a[1], V) else str(a[1])), a[2])), V("std::result::Result::Ok", [()]))[1]
    if side in ("both", "runtime"):
        f = F.fn(ap)
        if R.ob("S-ARITY", "anchor:apply_tuple", f is not None, "packages/rooc/src/parser/recursive_set_resolver.rs", "apply_tuple found"):
            R.fn(ap)
            bad = None
            for n in range(0, 6):
                for m in range(0, 6):
                    for names in (["v%d" % i for i in range(n)], ["_" if i % 2 else "v%d" % i for i in range(n)], ["_"] * n):
                        del bound[:]
                        vals = [Lf("c%d" % i) for i in range(m)]
                        r = I.call_fn(ap, [V("CTX"), LV([SP(x) for x in names]), LV(list(vals))])
                        if is_unknown(r):
                            bad = "not evaluable for %d names / %d components: %r" % (n, m, r)
                            break
                        ok_ = isinstance(r, V) and r.path.endswith("Result::Ok")
                        if n > m and ok_:
                            bad = "%d names %s over %d components is accepted (bound %s): the surplus names keep whatever they held before" % (n, names, m, [b[0] for b in bound])
                        elif n <= m and not ok_:
                            bad = "%d names over %d components is refused: %r" % (n, m, r)
                        elif n <= m and [(a, b.name) for a, b in bound] != [(nm, "c%d" % i) for i, nm in enumerate(names)]:
                            bad = "names %s over %d components are bound as %s" % (names, m, [(a, b.name) for a, b in bound])
                        if bad:
                            break
                    if bad:
                        break
                if bad:
                    break
            R.ob("S-ARITY", "apply_tuple", bad is None, F.loc(f), bad or "binds positionally and fails exactly when there are more names than components (6 x 6 x 3 cases)")
    if side in ("both", "static"):
        vt = "parser::il::iterable_set::IterableSet::variable_types"
        f = F.fn(vt)
        if not R.ob("S-ARITY", "anchor:variable_types", f is not None, "packages/rooc/src/parser/il/iterable_set.rs", "variable_types found"):
            return
        R.fn(vt)
        PKI = PK + "::"
        kinds = {"GraphEdge": V(PKI + "GraphEdge"), "Tuple2": V(PKI + "Tuple", [LV([V(PKI + "Number"), V(PKI + "String")])]), "Tuple3": V(PKI + "Tuple", [LV([V(PKI + "Number"), V(PKI + "Number"), V(PKI + "Boolean")])])}
        bad = None
        cur = {}
        I.models["<parser::il::il_exp::PreExp as type_checker::type_checker_context::WithType>::get_type"] = lambda I_, a: V(PKI + "Iterable", [cur["kind"]])
        for kl, kind in kinds.items():
            cur["kind"] = kind
            arity = I.call_fn(PK + "::can_spread_into", [kind])
            if not (isinstance(arity, V) and arity.path.endswith("Result::Ok") and isinstance(arity.args[0], LV)):
                bad = "can_spread_into(%s) not evaluable: %r" % (kl, arity)
                break
            m = len(arity.args[0].items)
            for n in range(1, 6):
                for names in (["v%d" % i for i in range(n)], ["v0"] + ["_"] * (n - 1), ["_"] * n):
                    iset = V("parser::il::iterable_set::IterableSet", fields={"var": V("parser::model_transformer::model::VariableKind::Tuple", [LV([SP(x) for x in names])]), "iterator": V("utils::Spanned", fields={"value": V("ITER"), "span": Lf("span")}), "span": Lf("span")})
                    r = I.call_fn(vt, [iset, V("TCTX"), V("FCTX")])
                    if is_unknown(r):
                        bad = "not evaluable for %s with %d names: %r" % (kl, n, r)
                        break
                    ok_ = isinstance(r, V) and r.path.endswith("Result::Ok")
                    if (n > m) == ok_:
                        bad = "%d names %s over a %s (%d components) are %s by the checker, but the binder %s" % (n, names, kl, m, "accepted" if ok_ else "rejected", "fails on them" if n > m else "binds them")
                        break
                if bad:
                    break
            if bad:
                break
        R.ob("S-ARITY", "variable_types", bad is None, F.loc(f), bad or "rejects exactly the patterns with more names than components, placeholders included (3 element kinds x 5 x 3 cases)")
