"""Family T helpers: locating match tables by type and reading them as finite functions."""
from facts import norm, base_ty, walk, strip, sexp


def pat_alternatives(p):
    """flatten or-patterns / references: list of alternative patterns"""
    k = p["k"]
    if k == "POr":
        out = []
        for q in p["pats"]:
            out.extend(pat_alternatives(q))
        return out
    if k in ("PRef", "PDeref", "PGuard"):
        return pat_alternatives(p["pat"])
    if k == "PBind" and p.get("sub"):
        return pat_alternatives(p["sub"])
    return [p]


def pat_head(p):
    """('variant', path, pattern) | ('lit', value) | ('any',) | ('tuple', [pats]) | ('other',)"""
    k = p["k"]
    if k in ("PWild",) or (k == "PBind" and not p.get("sub")):
        return ("any",)
    if k in ("PPath", "PTupleStruct", "PStruct"):
        return ("variant", norm(p.get("path")), p)
    if k == "PLit":
        v = p.get("v")
        if p.get("neg"):
            v = "-" + str(v)
        return ("lit", v)
    if k == "PTuple":
        return ("tuple", p["pats"])
    if k == "PRange":
        return ("range", p)
    return ("other",)


def irrefutable_sub(p):
    """True if all sub-patterns of a variant pattern are bindings/wildcards"""
    k = p["k"]
    subs = []
    if k == "PTupleStruct":
        subs = p["pats"]
    elif k == "PStruct":
        subs = [f["pat"] for f in p["fields"]]
    for s in subs:
        for a in pat_alternatives(s):
            h = pat_head(a)
            if h[0] == "any":
                continue
            if h[0] == "tuple" and all(pat_head(x)[0] == "any" for y in h[1] for x in pat_alternatives(y)):
                continue
            return False
    return True


def enum_table(F, match, enum_path, allow_guards=False):
    """first-match table of a `match` over a value of enum `enum_path`.

    returns (table, problems) where table maps variant name -> list of arms that can fire for
    it: [(arm, exact)] in order, ending at the first unguarded arm with irrefutable
    sub-patterns. `exact` is False when the arm is guarded or has refutable sub-patterns.
    """
    variants = F.variants(enum_path)
    problems = []
    if variants is None:
        return None, ["enum %s not found" % enum_path]
    table = {v: [] for v in variants}
    closed = set()
    for arm in match["arms"]:
        guarded = arm.get("guard") is not None
        for alt in pat_alternatives(arm["pat"]):
            h = pat_head(alt)
            if h[0] == "any":
                targets = [v for v in variants if v not in closed]
                exact = not guarded
            elif h[0] == "variant":
                vn = h[1].rsplit("::", 1)[-1]
                if norm(h[1]).rsplit("::", 1)[0] != norm(enum_path) or vn not in table:
                    problems.append("pattern %s is not a variant of %s" % (h[1], enum_path))
                    continue
                targets = [vn] if vn not in closed else []
                exact = (not guarded) and irrefutable_sub(h[2])
            else:
                problems.append("unsupported pattern %s" % sexp(alt))
                continue
            for t in targets:
                table[t].append((arm, exact))
                if exact:
                    closed.add(t)
    for v in variants:
        if v not in closed:
            if not table[v]:
                problems.append("variant %s not covered" % v)
    return table, problems


def simple_enum_map(F, match, enum_path):
    """variant -> single arm (requires every variant to be decided by exactly one exact arm)"""
    table, problems = enum_table(F, match, enum_path)
    if table is None:
        return None, problems
    out = {}
    for v, arms in table.items():
        if len(arms) == 1 and arms[0][1]:
            out[v] = arms[0][0]
        elif not arms:
            problems.append("variant %s has no arm" % v)
        else:
            out[v] = arms[0][0]
            if not arms[0][1]:
                problems.append("variant %s first arm is conditional" % v)
    return out, problems


def head(n, unwrap_ok=False):
    """abstract an arm body to its head: ('variant', path, args) | ('call', callee, node) |
    ('lit', v) | ('macro', name, snippet) | ('path', name) | ('other', sexp); with unwrap_ok the head of `Ok(e)` /
    `Some(e)` is the head of `e` (a table moved into a fallible helper)"""
    n = strip(n)
    if unwrap_ok:
        while n.get("k") == "Call" and n.get("dk") == "Variant" and norm(n.get("resolved") or n.get("callee") or "").endswith(("Result::Ok", "Option::Some")) and len(n.get("args", [])) == 1:
            n = strip(n["args"][0])
            while n.get("k") == "Block" and n.get("e") is not None and not n.get("stmts"):
                n = strip(n["e"])
    k = n.get("k")
    while k in ("Ret", "Try") or (k == "Block" and n.get("e") is not None and not n.get("stmts")):
        n = strip(n["e"]) if n.get("e") else n
        if n.get("k") == k and k not in ("Ret", "Try"):
            break
        k = n.get("k")
    if k == "Block" and n.get("e") is not None:
        return head(n["e"])
    if k == "Path":
        if n.get("res") == "def" and n.get("dk") == "Variant":
            return ("variant", norm(n["path"]), [])
        if n.get("res") == "local":
            return ("local", n.get("name"))
        return ("path", norm(n.get("path", "?")))
    if k == "Call":
        c = norm(n.get("resolved") or n.get("callee") or "?")
        if n.get("dk") == "Variant":
            return ("variant", c, n["args"])
        return ("call", c, n)
    if k == "MCall":
        return ("mcall", norm(n.get("resolved") or n.get("callee") or n["name"]), n)
    if k == "Lit":
        return ("lit", n.get("v"))
    if k == "Unary" and n.get("op") == "-" and strip(n["a"]).get("k") == "Lit":
        return ("lit", "-" + str(strip(n["a"]).get("v")))
    if k == "Macro":
        return ("macro", n.get("name"), n.get("snippet"))
    if k == "Struct":
        return ("struct", norm(n.get("path", "?")), n)
    return ("other", sexp(n)[:120])


def scrut_type(F, match):
    return base_ty(F.ty(match["scrut"]))


def find_matches(F, scrut_ty=None, in_fn=None, pred=None):
    """all Match nodes (with their function) whose scrutinee has base type `scrut_ty`"""
    out = []
    for f in F.fn_list:
        if "body" not in f:
            continue
        if in_fn is not None and not in_fn(f):
            continue
        for n in walk(f["body"]):
            if n.get("k") == "Match" and "arms" in n:
                if scrut_ty is not None and scrut_type(F, n) != scrut_ty:
                    continue
                if pred is not None and not pred(f, n):
                    continue
                out.append((f, n))
    return out


def arm_patterns_are_variants_of(match, enum_path):
    n = 0
    for arm in match["arms"]:
        for alt in pat_alternatives(arm["pat"]):
            h = pat_head(alt)
            if h[0] == "variant" and norm(h[1]).rsplit("::", 1)[0] == norm(enum_path):
                n += 1
    return n
